#!/bin/sh
# Builds /verif/.venv offline: CPython 3.12 (the interpreter the repository's tests run under)
# + a .pth to /venv's site-packages (pytest, repo editable install) + solver wheels.
set -e
cd "$(dirname "$0")"
if [ -x .venv/bin/python ] && .venv/bin/python -c "import z3, cvc5, jsonschema" 2>/dev/null; then
  echo "setup: .venv already usable"; exit 0
fi
rm -rf .venv
/venv/bin/python -m venv .venv
SP=$(.venv/bin/python -c "import sysconfig; print(sysconfig.get_paths()['purelib'])")
echo "import site; site.addsitedir('/venv/lib/python3.12/site-packages')" > "$SP/_venv_overlay.pth"
PIP_NO_INDEX=1 .venv/bin/python -m pip install -q --no-index --find-links /opt/veriftools/wheels \
   z3-solver cvc5 jsonschema crosshair-tool deal icontract
.venv/bin/python -c "import z3, cvc5, jsonschema; print('setup: ok', z3.get_version_string())"
