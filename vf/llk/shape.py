"""Engine B, step 5: P4 (only syntax errors, positioned at a token of the text) and P5 (node shape and spans, for C02).

P5 per constructor call `_ast.K(...)` found on a path of method f:
  class     K is one of the node kinds the specification assigns to f's nonterminal (contracts/parser_map.NODES)
  kwargs    every keyword is a parameter of the real K.__init__ and every parameter without default is passed (so the call cannot raise)
  loc       `loc=self._loc(t)` is passed, t is the token that was first in the look-ahead when f started (or the first token f consumed),
            at least one token has been consumed and nothing is consumed after `loc` is evaluated: with Parser._loc returning
            (t.start, self._last.end) - checked on Parser.__init__ - the span is (first token start, last token end), None under no_location
P4 per raise site: a syntax-error constructor whose position argument is `<token>.start` for a token obtained from the stream (lexer
  tokens lie inside the text by the Lexer contracts) or the text length for the end-of-input error; token attribute reads are total.
"""
import ast
import inspect
import textwrap

SYNTAX_CTORS = ("_unexpected_token", "UnexpectedToken", "UnexpectedEOF", "GraphQLSyntaxError")


def p5(aut, allowed, ast_module, slot_order=None):
    out = []
    for rec in aut.calls:
        cls = getattr(ast_module, rec["cls"], None)
        oid = "%s@L%d" % (rec["cls"], rec["line"])
        if cls is None:
            out.append({"id": oid + ":class", "holds": False, "detail": "_ast.%s does not exist" % rec["cls"]})
            continue
        out.append({"id": oid + ":class", "holds": rec["cls"] in allowed,
                    "detail": "%s builds %s; the specification's node kinds for it are %s" % (aut.name, rec["cls"], sorted(allowed))})
        sig = inspect.signature(cls.__init__)
        params = [p for p in list(sig.parameters.values())[1:] if p.kind in (p.POSITIONAL_OR_KEYWORD, p.KEYWORD_ONLY)]
        names = {p.name for p in params}
        required = {p.name for p in params if p.default is p.empty}
        has_var_kw = any(p.kind == p.VAR_KEYWORD for p in sig.parameters.values())
        unknown = [k for k in rec["kwargs"] if k not in names and not has_var_kw]
        missing = sorted(required - set(rec["kwargs"]))
        out.append({"id": oid + ":kwargs", "holds": not unknown and not missing,
                    "detail": "unknown keywords %s, missing required %s" % (unknown, missing)})
        ok = rec["loc_text"] is not None and rec["loc_tid"] is not None and rec["loc_tid"] == rec["first"] and rec["consumed"] == 1 \
            and rec["loc_ticks"] == rec["ticks"]
        why = []
        if rec["loc_text"] is None:
            why.append("no loc keyword")
        elif rec["loc_tid"] is None:
            why.append("loc is not self._loc(<token variable>): %s" % rec["loc_text"])
        else:
            if rec["loc_tid"] != rec["first"]:
                why.append("the token given to _loc is not the first token of the construct")
            if rec["consumed"] != 1:
                why.append("nothing was consumed before the node is built")
            if rec["loc_ticks"] != rec["ticks"]:
                why.append("tokens are consumed after loc is evaluated (end of span would not be the last token)")
        out.append({"id": oid + ":span", "holds": ok, "detail": "; ".join(why) or "span = (first token start, last token end)"})
        # every node carries the source text it was parsed from (what makes its span resolvable and gives located errors their line / column)
        if "source" in names:
            out.append({"id": oid + ":source", "holds": rec.get("source_text") == "self._source",
                        "detail": "%s(...) %s" % (rec["cls"], "does not pass source=" if rec.get("source_text") is None else "passes source=%s, not the parser's source" % rec.get("source_text"))})
        order = (slot_order or {}).get(rec["cls"])
        if order is not None:
            missing = [k for k in order if k not in rec["kwargs"]]
            ticks = [(k, rec["kw_ticks"].get(k)) for k in order if rec["kw_ticks"].get(k) is not None]
            sorted_ok = all(a[1] <= b[1] for a, b in zip(ticks, ticks[1:]))
            out.append({"id": oid + ":slots", "holds": not missing and sorted_ok,
                        "detail": "slots %s not passed" % missing if missing else
                        ("slot values are produced in the order %s, the grammar's is %s" % ([k for k, _t in sorted(ticks, key=lambda x: x[1])], [k for k, _t in ticks])
                         if not sorted_ok else "every slot is fed, in source order")})
    return out


def p5_nothing_dropped(aut):
    """every value a callee returned on the path to a returned node is stored in that node (directly, through a node built here, or in a list)"""
    out = []
    seen = set()
    for r in aut.returns:
        rec = r.get("rec")
        if r["kind"] != "node" or not rec:
            continue
        dropped = [t for t in rec.get("produced", []) if t not in set(rec.get("covered", []))]
        oid = "%s@L%d:nothing-dropped" % (rec["cls"], rec["line"])
        key = (oid, bool(dropped))
        if key in seen:
            continue
        seen.add(key)
        out.append({"id": oid, "holds": not dropped,
                    "detail": "everything parsed on the way is stored in the node" if not dropped else
                    "on a path to this %s, %d parsed value(s) (consuming step(s) %s) are not stored in any slot: what was written in the source is lost" % (rec["cls"], len(dropped), dropped)})
    # a holds-record and a fails-record for the same constructor call: the failure wins
    failed = {o["id"] for o in out if not o["holds"]}
    return [o for o in out if not (o["holds"] and o["id"] in failed)]


def p4(aut):
    out = []
    for r in aut.raises:
        oid = "raise@L%d" % r["line"]
        ok_ctor = r["ctor"] in SYNTAX_CTORS
        pos = r["pos"]
        ok_pos = (pos.endswith(".start") and (r["token_atoms"] is not None or pos == "next_token.start")) or pos == "self._lexer._len"
        out.append({"id": oid, "holds": ok_ctor and ok_pos,
                    "detail": "raises %s at position `%s`%s" % (r["ctor"], pos, "" if ok_pos else " (not the start of a token taken from the stream)")})
    return out


def primitives(parser_cls):
    """raise sites of the token-stream primitives + the _loc discipline of Parser.__init__"""
    out = []
    for name in ("_advance_window", "peek", "advance", "expect", "expect_keyword", "skip"):
        tree = ast.parse(textwrap.dedent(inspect.getsource(parser_cls.__dict__[name]))).body[0]
        for n in ast.walk(tree):
            if isinstance(n, ast.Raise):
                call = n.exc
                ok = isinstance(call, ast.Call) and ast.unparse(call.func) in SYNTAX_CTORS
                pos = None
                if ok:
                    pos = ast.unparse(call.args[0] if ast.unparse(call.func) == "UnexpectedEOF" else call.args[1])
                    ok = pos in ("next_token.start", "self._lexer._len")
                    if pos == "next_token.start":
                        ok = any(isinstance(a, ast.Assign) and ast.unparse(a.targets[0]) == "next_token" and ast.unparse(a.value) == "self.peek()" for a in ast.walk(tree))
                out.append({"id": "Parser.%s:raise" % name, "holds": bool(ok), "detail": "position argument `%s`" % pos})
    init = ast.parse(textwrap.dedent(inspect.getsource(parser_cls.__init__))).body[0]
    loc = [a for a in ast.walk(init) if isinstance(a, ast.Assign) and ast.unparse(a.targets[0]) == "self._loc"]
    ok = False
    detail = "self._loc is not assigned in Parser.__init__"
    if len(loc) == 1 and isinstance(loc[0].value, ast.IfExp):
        v = loc[0].value
        none_branch = isinstance(v.body, ast.Lambda) and isinstance(v.body.body, ast.Constant) and v.body.body.value is None
        span_branch = isinstance(v.orelse, ast.Lambda) and ast.unparse(v.orelse.body).replace(" ", "") in ("(start.start,self._last.end)",)
        cond = ast.unparse(v.test) == "no_location"
        ok = none_branch and span_branch and cond
        detail = "_loc = (lambda _: None) if no_location else lambda start: (start.start, self._last.end)" if ok else "unexpected form: %s" % ast.unparse(v)[:120]
    out.append({"id": "Parser.__init__:_loc", "holds": ok, "detail": detail})
    adv = ast.parse(textwrap.dedent(inspect.getsource(parser_cls.__dict__["advance"]))).body[0]
    sets_last = any(isinstance(a, ast.Assign) and ast.unparse(a.targets[0]) == "self._last" and ast.unparse(a.value) == "self._buffer.pop()" for a in ast.walk(adv))
    returns_last = any(isinstance(a, ast.Return) and a.value is not None and ast.unparse(a.value) == "self._last" for a in ast.walk(adv))
    out.append({"id": "Parser.advance:_last", "holds": sets_last and returns_last, "detail": "advance() records the consumed token in self._last and returns it"})
    return out


def token_attributes(alphabet):
    out = []
    for name, cls in alphabet.classes.items():
        ok = all(hasattr(cls, a) or a in getattr(cls, "__slots__", ()) or any(a in getattr(b, "__slots__", ()) for b in cls.__mro__) for a in ("value", "start", "end"))
        out.append({"id": "token.%s:attributes" % name, "holds": ok, "detail": "value / start / end are defined for every instance"})
    return out
