"""Engine B, step 3: obligations over the extracted automata.

P1 (language)  for every reachable <f,args>: the regular language of f's returning paths, with every callee edge replaced by the
               callee's mapped specification expression, equals the specification's right-hand side for f's own expression
               (top-level nonterminals expanded once), both over abstract tokens and anchor nonterminals, NOBRACE erased.
P6 (emptiness) a list-returning method returns an empty list exactly on the paths that consumed nothing (what callers rely on when
               they test `not xs`).
P2 / P3 / P4 / P5: see predict.py / shape.py.
"""
import ast

from . import regex as R
from .extract import Extractor, Unsupported


class Model:
    def __init__(self, parser_module, alphabet, flags, spec_grammar_text, mapping):
        self.P, self.A, self.flags, self.map = parser_module, alphabet, flags, mapping
        self.spec = R.SpecGrammar(spec_grammar_text, alphabet.names, flags["experimental_fragment_variables"])
        self.ex = Extractor(parser_module.Parser, alphabet, flags, pre=getattr(mapping, "PRE", None), mapped=getattr(mapping, "MAP", None))
        self.auts = {}
        self.errors = {}

    def key_text(self, key):
        return "%s(%s)" % (key[0], ",".join(repr(a) for a in key[1]))

    def reach(self, roots):
        todo = list(roots)
        while todo:
            key = todo.pop()
            if key in self.auts or key in self.errors:
                continue
            name, args = key
            try:
                aut = self.ex.extract(name, args, entry=(name == "parse_document"))
            except Unsupported as e:
                self.errors[key] = str(e)
                continue
            self.auts[key] = aut
            for _s, _d, lab in aut.edges:
                if lab[0] == "n":
                    todo.append((lab[1], lab[2]))
        return self.auts

    def add_driver(self, func, spec_text):
        """module-level entry point analysed like a method; its mapped expression is given explicitly"""
        key = (func.__name__ + "@module", ())
        try:
            self.auts[key] = self.ex.extract_function(func)
        except Unsupported as e:
            self.errors[key] = str(e)
            return None
        self._driver_spec = getattr(self, "_driver_spec", {})
        self._driver_spec[key] = spec_text
        for _s, _d, lab in self.auts[key].edges:
            if lab[0] == "n":
                self.reach([(lab[1], lab[2])])
        return key

    # -- mapping ---------------------------------------------------------------------------------------------------------
    def mapped(self, key):
        if key in getattr(self, "_driver_spec", {}):
            return self.spec.parse(self._driver_spec[key])
        return self.spec.parse(self.map.spec_text(key[0], key[1], self.flags))

    def anchors(self):
        """nonterminals that stay symbols: a method's mapped expression is NT, NT? or ( NT | NOBRACE )"""
        out = set()
        for key in self.auts:
            r = self.mapped(key)
            core = [x for x in (r[1] if r[0] == "alt" else (r,)) if x != R.EPS and x != ("sym", ("N", "NOBRACE"))]
            if len(core) == 1 and core[0][0] == "sym" and isinstance(core[0][1], tuple):
                out.add(core[0][1][1])
        return out

    def callee_regex(self, lab, anchors):
        name, args, flag = lab[1], lab[2], lab[3]
        r = self.mapped((name, args))
        if len(lab) > 4:                       # a test on the parsed name restricted the tokens of this occurrence
            if r[0] != "set":
                raise Unsupported("restriction on a callee that is not a single token")
            r = ("set", r[1] & lab[4])
        if flag == "empty":
            alts = r[1] if r[0] == "alt" else (r,)
            if R.EPS not in alts and ("sym", ("N", "NOBRACE")) not in alts:
                return R.EMPTY
            return R.alt(*[x for x in alts if x in (R.EPS, ("sym", ("N", "NOBRACE")))])
        if flag == "nonempty":
            alts = r[1] if r[0] == "alt" else (r,)
            r = R.alt(*[x for x in alts if x not in (R.EPS, ("sym", ("N", "NOBRACE")))])
        return self.spec.expand(r, anchors)

    def code_nfa(self, key, anchors, start_node=0, erase_nobrace=True):
        aut = self.auts[key]
        own = self.mapped(key)
        la_at = {c["edge"]: c["la1"] for c in aut.callsites}
        n = R.NFA()
        for _ in range(aut.n):
            n.new()
        n.start = start_node
        n.accept = {r["node"] for r in aut.returns}
        for s, d, lab in aut.edges:
            if lab[0] == "t":
                for atom in lab[1]:
                    n.add(s, atom, d)
            elif lab[0] == "e":
                n.add(s, None, d)
            else:
                r = self.callee_regex(lab, anchors)
                if self.mapped((lab[1], lab[2])) == own and lab[3] is None and (lab[1], lab[2]) != key:
                    r = self.spec.expand(own, anchors, top_once=True)      # a pure delegation: compare one level further down
                idx = [i for i, e in enumerate(aut.edges) if e[0] == s and e[1] == d and e[2] is lab]
                known = la_at.get(idx[0]) if idx else None
                if known is not None and r[0] == "set":
                    r = ("set", r[1] & known)     # the caller already knows what the next token is: a single-token callee consumes that token
                if erase_nobrace:
                    r = R.erase(r, ("N", "NOBRACE"))
                n.build(r, s, d)
        return n

    def spec_regex(self, key, anchors):
        # a driver only brackets a method's nonterminal with SOF / EOF: nothing to expand; a method is compared one level down
        r = self.spec.expand(self.mapped(key), anchors, top_once=not key[0].endswith("@module"))
        return r

    # -- obligations -------------------------------------------------------------------------------------------------------
    def p1(self, key, anchors):
        spec_r = R.erase(self.spec_regex(key, anchors), ("N", "NOBRACE"))
        w = R.difference_witness(self.code_nfa(key, anchors), R.NFA.of_regex(spec_r))
        if w is None:
            return {"holds": True, "spec": R.show(spec_r, self.atoms_name)}
        word, side = w
        other = R.difference_witness(self.code_nfa(key, anchors), R.NFA.of_regex(spec_r), want="second" if side == "first" else "first")
        return {"holds": False, "other_raw_word": other[0] if other else None, "word": [self.letter(x) for x in word], "raw_word": word,
                "accepted_by": "the parser method only" if side == "first" else "the specification only", "spec": R.show(spec_r, self.atoms_name)}

    def p6(self, key):
        aut = self.auts[key]
        bad = []
        for r in aut.returns:
            if r["kind"] == "list" and r["list"] in ("empty", "nonempty"):
                if (r["list"] == "empty") != (r["consumed"] == 0):
                    bad.append(r)
        return bad

    def letter(self, x):
        return "<%s>" % x[1] if isinstance(x, tuple) else x

    def atoms_name(self, atoms):
        names = frozenset(self.A.names)
        if atoms == names:
            return "Name"
        if atoms == names - {"Name:on"}:
            return "Name-but-on"
        if atoms == names - {"Name:true", "Name:false", "Name:null"}:
            return "Name-but-true/false/null"
        return None
