"""Concrete inputs for Engine B counterexamples: a symbol word (atoms and nonterminals) -> a source text; the verdict of the real
parser method on it is compared with the Earley oracle over the specification grammar (spec/grammar.py)."""
import re

import spec.grammar as G

LEX = {"ExclamationMark": "!", "Dollar": "$", "ParenOpen": "(", "ParenClose": ")", "BracketOpen": "[", "BracketClose": "]", "CurlyOpen": "{",
       "CurlyClose": "}", "Colon": ":", "Equals": "=", "At": "@", "Pipe": "|", "Ampersand": "&", "Ellip": "...", "Integer": "1", "Float": "1.5",
       "String": '"s"', "BlockString": '"""b"""', "Name:*": "xyz", "EOF": "", "SOF": ""}
PUNCT_ATOM = {v: k for k, v in LEX.items() if k[0].isupper() and not k.startswith(("Name", "Integer", "Float", "String", "Block", "EOF", "SOF"))}


def lexeme(atom):
    if atom in LEX:
        return LEX[atom]
    if atom.startswith("Name:"):
        return atom[5:]
    raise KeyError(atom)


def term_atoms(sym, names):
    if sym[0] == "p":
        return [PUNCT_ATOM[sym[1]]]
    if sym[0] == "k":
        return ["Name:" + sym[1]]
    if sym[0] == "la":
        return None
    c = sym[1]
    if c == "Name":
        return ["Name:*"] + sorted(names)
    if c == "NameNotOn":
        return ["Name:*"] + sorted(n for n in names if n != "Name:on")
    if c == "EnumName":
        return ["Name:*"] + sorted(n for n in names if n not in ("Name:true", "Name:false", "Name:null"))
    return [{"Int": "Integer"}.get(c, c)]


class Shortest:
    """shortest token strings per nonterminal of the specification grammar, overall and per first atom"""

    def __init__(self, fragment_variables, names):
        self.g = G.Grammar(fragment_variables)
        self.names = [n for n in names if n != "Name:*"]
        self.best = {}          # nt -> list of atoms
        self.first = {}         # (nt, atom) -> list of atoms
        changed = True
        while changed:
            changed = False
            for nt, alts in self.g.prods.items():
                for rhs in alts:
                    seq = []
                    ok = True
                    for s in rhs:
                        if isinstance(s, str):
                            if s not in self.best:
                                ok = False
                                break
                            seq += self.best[s]
                        else:
                            a = term_atoms(s, self.names)
                            if a is not None:
                                seq.append(a[0])
                    if ok and (nt not in self.best or len(seq) < len(self.best[nt])):
                        self.best[nt] = seq
                        changed = True
        changed = True
        while changed:
            changed = False
            for nt, alts in self.g.prods.items():
                for rhs in alts:
                    # the first non-empty contribution decides the first atom
                    for i, s in enumerate(rhs):
                        rest = []
                        ok = True
                        for t in rhs[i + 1:]:
                            if isinstance(t, str):
                                if t not in self.best:
                                    ok = False
                                    break
                                rest += self.best[t]
                            else:
                                a = term_atoms(t, self.names)
                                if a is not None:
                                    rest.append(a[0])
                        if not ok:
                            break
                        if isinstance(s, str):
                            for (n2, atom), seq in list(self.first.items()):
                                if n2 == s:
                                    cand = seq + rest
                                    if (nt, atom) not in self.first or len(cand) < len(self.first[(nt, atom)]):
                                        self.first[(nt, atom)] = cand
                                        changed = True
                            if s not in self.g.nullable:
                                break
                        else:
                            a = term_atoms(s, self.names)
                            if a is None:
                                continue
                            for atom in a:
                                cand = [atom] + rest
                                if (nt, atom) not in self.first or len(cand) < len(self.first[(nt, atom)]):
                                    self.first[(nt, atom)] = cand
                                    changed = True
                            break

    def containing(self):
        """(nt, atom) -> shortest token string of nt that contains the atom (computed on first use)"""
        if hasattr(self, "_cont"):
            return self._cont
        cont = {}
        changed = True
        while changed:
            changed = False
            for nt, alts in self.g.prods.items():
                for rhs in alts:
                    parts = []
                    ok = True
                    for s_ in rhs:
                        if isinstance(s_, str):
                            if s_ not in self.best:
                                ok = False
                                break
                            parts.append((s_, self.best[s_]))
                        else:
                            a = term_atoms(s_, self.names)
                            parts.append((None, [a[0]] if a is not None else [], a or []))
                    if not ok:
                        continue
                    for i, part in enumerate(parts):
                        before = [x for q in parts[:i] for x in q[1]]
                        after = [x for q in parts[i + 1:] for x in q[1]]
                        if part[0] is None:
                            options = [(atom, [atom]) for atom in part[2]]
                        else:
                            options = [(atom, seq) for (n2, atom), seq in list(cont.items()) if n2 == part[0]]
                        for atom, seq in options:
                            cand = before + seq + after
                            if (nt, atom) not in cont or len(cand) < len(cont[(nt, atom)]):
                                cont[(nt, atom)] = cand
                                changed = True
        self._cont = cont
        return cont

    def variants(self, letters, limit=600):
        """concrete atom strings for a symbol word: the shortest one first, then, for every nonterminal position and every atom that the
        nonterminal can contain, the shortest string in which that occurrence contains the atom"""
        out = [self.word(letters)]
        cont = self.containing()
        for i, l in enumerate(letters):
            if not isinstance(l, tuple) or l[1] == "NOBRACE":
                continue
            for (nt, atom), seq in sorted(cont.items()):
                if nt != l[1]:
                    continue
                cand = self.word(letters[:i]) + seq + self.word(letters[i + 1:])
                if cand not in out:
                    out.append(cand)
                    if len(out) >= limit:
                        return out
        return out

    def word(self, letters, want_first=None):
        """letters: atoms and ('N', name) symbols -> list of atoms; the first nonterminal expansion tries to start with want_first"""
        out = []
        for l in letters:
            if isinstance(l, tuple):
                name = l[1]
                if name == "NOBRACE":
                    continue
                seq = None
                if want_first and not out and (name, want_first) in self.first:
                    seq = self.first[(name, want_first)]
                out += seq if seq is not None else self.best.get(name, [])
            else:
                out.append(l)
        return out


def text_of(atoms):
    return " ".join(x for x in (lexeme(a) for a in atoms) if x)


def run_method(parser_module, name, args, flags, text):
    """-> ('accept', None) | ('reject', exception class name) | ('crash', repr)"""
    from py_gql.exc import GraphQLSyntaxError
    from py_gql.lang.token import EOF, SOF
    try:
        if name.endswith("@module"):
            getattr(parser_module, name[:-7])(text, **flags)
            return ("accept", None)
        p = parser_module.Parser(text, **flags)
        if name != "parse_document":
            p.expect(SOF)
        getattr(p, name)(*args)
        if name != "parse_document" and p.peek().__class__ is not EOF:
            return ("reject", "trailing input not consumed")
        return ("accept", None)
    except GraphQLSyntaxError as e:
        return ("reject", type(e).__name__)
    except Exception as e:   # noqa
        return ("crash", repr(e))


def oracle(spec_expr_text, flags, text):
    g = G.Grammar(flags["experimental_fragment_variables"])
    expr = re.sub(r"\bSOF\b|\bEOF\b", "", spec_expr_text)
    g._add("_Start", expr)
    g.nullable = g._nullable()
    toks = G.abstract_tokens(text)
    if toks is None:
        return None
    return G.recognise(g, "_Start", toks)
