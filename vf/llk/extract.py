"""Engine B, step 1: control-flow automata of the predictive parser, extracted from the real source of Parser.parse_*.

The only state the executor models is the *abstract token stream*: two look-ahead slots holding symbolic tokens whose sets of
possible abstract tokens ("atoms") are refined by the tests the code makes, plus the locals of the method.  Atoms: one per
punctuator token class, Integer, Float, String, BlockString, SOF, EOF, and Name:<kw> for every keyword the parser compares a
token value with (collected from the AST on each run) plus Name:* for every other name.

For a method f and a valuation of the boolean inputs that select grammar variants (`const`, allow_type_system,
experimental_fragment_variables) the executor walks the real body.  Token-stream primitives (peek / advance / expect /
expect_keyword / skip) are interpreted on the abstract stream; the combinators many / any_ / delimited_list are inlined (their
real bodies are executed with the actual arguments); every other self.parse_g(...) call becomes an edge labelled with the
nonterminal <g, args> - the callee's body is never looked at from the caller.  Loops are closed by memoising loop heads on the
abstract state.  The result is an automaton whose edges are: consume(atom set), call <g,args>[:empty|:nonempty], guarded
epsilon (one per outcome of a test on the look-ahead, recording the look-ahead sets before and after the refinement), and whose
terminal records are returns (with the constructed node) and raises (with the exception constructor, its position argument and
the look-ahead set that leads there).

What the extraction drops: the concrete `loc` integers (replaced by the first / last token discipline checked in shape.py),
the `source=` keyword, error message strings, and the values of Integer / Float / String / other-Name tokens.
"""
import ast
import inspect
import textwrap


class Unsupported(Exception):
    pass


PUNCT = ["ExclamationMark", "Dollar", "ParenOpen", "ParenClose", "BracketOpen", "BracketClose", "CurlyOpen", "CurlyClose", "Colon",
         "Equals", "At", "Pipe", "Ampersand", "Ellip"]
OTHER = "Name:*"


class Alphabet:
    def __init__(self, parser_module):
        self.mod = parser_module
        self.keywords = sorted(self._keywords())
        self.names = ["Name:" + k for k in self.keywords] + [OTHER]
        self.atoms = PUNCT + ["Integer", "Float", "String", "BlockString", "EOF", "SOF"] + self.names
        self.all = frozenset(self.atoms)
        self.no_sof = frozenset(a for a in self.atoms if a != "SOF")
        import py_gql.lang.token as TK
        self.classes = {n: getattr(TK, n) for n in PUNCT + ["Integer", "Float", "String", "BlockString", "EOF", "SOF", "Name"]}
        self.const_value = {n: getattr(TK, n).value for n in PUNCT + ["EOF", "SOF"]}

    def _keywords(self):
        """every string constant a token value can be compared with: literals in comparisons and module-level string collections"""
        out = set()
        tree = ast.parse(inspect.getsource(self.mod))
        for n in ast.walk(tree):
            if isinstance(n, ast.Compare):
                for c in [n.left] + list(n.comparators):
                    for x in ast.walk(c):
                        if isinstance(x, ast.Constant) and isinstance(x.value, str):
                            out.add(x.value)
            if isinstance(n, ast.Call) and isinstance(n.func, ast.Attribute) and n.func.attr == "expect_keyword":
                for a in n.args:
                    if isinstance(a, ast.Constant) and isinstance(a.value, str):
                        out.add(a.value)
        for name, val in vars(self.mod).items():
            if isinstance(val, (frozenset, set, tuple, list)) and val and all(isinstance(v, str) for v in val):
                out |= set(val)
        return {k for k in out if k and (k[0].isalpha() or k[0] == "_") and all(c.isalnum() or c == "_" for c in k)}

    def of_class(self, cls_name):
        if cls_name == "Name":
            return frozenset(self.names)
        return frozenset([cls_name])

    def within_string(self, atoms, text):
        """`token.value in text` with a STRING on the right is a substring test: (atoms whose value may be a substring of text, atoms whose value may not)"""
        subs = {text[i:j] for i in range(len(text)) for j in range(i + 1, len(text) + 1)} | {""}
        yes, no = set(), set()
        for a in atoms:
            if a == OTHER:
                if any(x not in self.keywords and x and (x[0].isalpha() or x[0] == "_") and all(c.isalnum() or c == "_" for c in x) for x in subs):
                    yes.add(a)
                no.add(a)
            elif a.startswith("Name:"):
                (yes if a[5:] in subs else no).add(a)
            elif a in ("String", "BlockString"):
                yes.add(a)
                no.add(a)
            elif a in ("Integer", "Float"):
                if any(x and all(c in "0123456789+-.eE" for c in x) for x in subs):
                    yes.add(a)
                no.add(a)
            else:
                (yes if self.const_value.get(a) in subs else no).add(a)
        return frozenset(yes), frozenset(no)

    def with_value(self, atoms, value):
        """(atoms that may have .value == value, atoms that may have .value != value)"""
        yes, no = set(), set()
        for a in atoms:
            if a == OTHER:
                if value not in self.keywords:
                    yes.add(a)
                no.add(a)
            elif a.startswith("Name:"):
                (yes if a[5:] == value else no).add(a)
            elif a in ("String", "BlockString"):
                yes.add(a)
                no.add(a)
            elif a in ("Integer", "Float"):
                no.add(a)          # digits / sign / dot / exponent only: never a keyword
            else:
                (yes if self.const_value.get(a) == value else no).add(a)
        return frozenset(yes), frozenset(no)


# ----------------------------------------------------------------------------------------------------------------------
# abstract values

class AV:
    tick = None        # consuming step at which the value was produced (None: not produced by consumption)


class TokV(AV):
    def __init__(self, tid):
        self.tid = tid


class ClassOfV(AV):
    def __init__(self, tid):
        self.tid = tid


class ValueOfV(AV):
    def __init__(self, tid):
        self.tid = tid


class ConstV(AV):
    def __init__(self, value):
        self.value = value


class ListV(AV):
    def __init__(self, state):
        self.state = state            # 'empty' | 'nonempty' | 'unknown'


class NodeV(AV):
    def __init__(self, cls, rec=None, edge=None):
        self.cls, self.rec, self.edge = cls, rec, edge


class ValueOfNodeV(AV):
    """.value of the node a callee returned: a test on it refines which tokens that callee occurrence may have consumed"""

    def __init__(self, edge):
        self.edge = edge


class MethodV(AV):
    def __init__(self, name, args=()):
        self.name, self.args = name, tuple(args)


class UnknownV(AV):
    def __init__(self, note=""):
        self.note = note


class LocV(AV):
    """self._loc(<token variable>): remembers which token and when (in consuming steps) it was evaluated"""

    def __init__(self, tid, ticks, text):
        self.tid, self.ticks, self.text = tid, ticks, text


class ExcV(AV):
    def __init__(self, ctor, pos_text, tid):
        self.ctor, self.pos_text, self.tid = ctor, pos_text, tid


def av_key(v, st):
    if isinstance(v, TokV):
        return ("tok", st.slot_of(v.tid), st.toks.get(v.tid))
    if isinstance(v, ClassOfV):
        return ("cls", st.slot_of(v.tid), st.toks.get(v.tid))
    if isinstance(v, ValueOfV):
        return ("val", st.slot_of(v.tid), st.toks.get(v.tid))
    if isinstance(v, ConstV):
        try:
            hash(v.value)
            return ("const", v.value if not isinstance(v.value, type) else v.value.__name__)
        except TypeError:
            return ("const", repr(v.value))
    if isinstance(v, ListV):
        return ("list", v.state)
    if isinstance(v, NodeV):
        return ("node", v.cls)
    if isinstance(v, MethodV):
        return ("method", v.name, tuple(av_key(a, st) for a in v.args))
    return ("unknown",)


class State:
    def __init__(self, env=None, la=(None, None), toks=None, consumed=0, first=None, last=None, ticks=0):
        self.ticks = ticks                # number of consuming steps so far (tokens and callee calls); not part of the state key
        self.tok_ticks = {}               # token id -> step at which it was consumed
        self.produced = ()                # steps at which a callee returned a value (a parsed node / list / name)
        self.appended = ()                # steps whose value was appended to a local list
        self.env = dict(env or {})
        self.la = tuple(la)
        self.toks = dict(toks or {})       # token id -> frozenset of atoms
        self.consumed = consumed          # 0 / 1 (= at least one token or nonterminal consumed in this method so far)
        self.first = first                # id of the token that was first in the look-ahead when the method started (for spans)
        self.last = last                  # description of what was consumed last: ('t', tid) | ('n', name)

    def copy(self):
        c = State(self.env, self.la, self.toks, self.consumed, self.first, self.last, self.ticks)
        c.tok_ticks = self.tok_ticks
        c.produced, c.appended = self.produced, self.appended
        return c

    def slot_of(self, tid):
        for i, t in enumerate(self.la):
            if t == tid:
                return i + 1
        return 0

    def key(self):
        return (tuple(sorted((k, av_key(v, self)) for k, v in self.env.items())),
                tuple(self.toks.get(t) if t is not None else None for t in self.la), self.consumed)


class Frame:
    __slots__ = ("stmts", "idx", "loop", "scope")

    def __init__(self, stmts, idx=0, loop=None, scope=None):
        self.stmts, self.idx, self.loop, self.scope = stmts, idx, loop, scope

    def next(self):
        return Frame(self.stmts, self.idx + 1, self.loop, self.scope)

    def sig(self):
        return (id(self.stmts), self.idx, id(self.loop) if self.loop is not None else None)


class Automaton:
    def __init__(self, name, args):
        self.name, self.args = name, args
        self.n = 1                       # node 0 = entry
        self.edges = []                  # (src, dst, label)
        self.returns = []                # dicts
        self.raises = []                 # dicts
        self.decisions = {}              # decision id -> {"line":, "text":, "pre": (a1, a2), "branches": {label: {"post": (a1, a2), "node": n}}}
        self.calls = []                  # records of constructor calls for shape.py
        self.peek2 = []                  # look-ahead knowledge at every peek(2): the first token must not be EOF (else nothing follows it)
        self.callsites = []              # {"edge": index of the first edge of the call, "callee", "args", "la1": look-ahead set at the call}
        self.notes = []

    def new(self):
        self.n += 1
        return self.n - 1

    def edge(self, src, label, dst=None):
        dst = self.new() if dst is None else dst
        self.edges.append((src, dst, label))
        return dst


COMBINATORS = ("many", "any_", "delimited_list")
PRIMITIVES = ("peek", "advance", "expect", "expect_keyword", "skip")


class Extractor:
    def __init__(self, parser_cls, alphabet, flags, pre=None, mapped=None):
        """flags: dict(allow_type_system=bool, experimental_fragment_variables=bool); pre: method name -> set of token class names the
        next token is required to belong to when the method is called (caller-established precondition, checked at every call site)"""
        self.cls, self.A, self.flags = parser_cls, alphabet, flags
        self.pre = {k: frozenset().union(*[alphabet.of_class(c) for c in v]) for k, v in (pre or {}).items()}
        self.mapped = None if mapped is None else frozenset(mapped)    # parse_* methods that stand for a nonterminal; the others are helpers, inlined
        self.inlining = ()
        self.glob = vars(inspect.getmodule(parser_cls))
        self._src = {}
        self.tid = 0

    def method_ast(self, name):
        if name not in self._src:
            f = self.cls.__dict__[name]
            tree = ast.parse(textwrap.dedent(inspect.getsource(f))).body[0]
            ast.increment_lineno(tree, f.__code__.co_firstlineno - tree.lineno)
            self._src[name] = tree
        return self._src[name]

    def list_tested(self, tree):
        """names of locals whose emptiness is tested (`not x`, `if x`) in this method"""
        out = set()
        for n in ast.walk(tree):
            if isinstance(n, ast.UnaryOp) and isinstance(n.op, ast.Not) and isinstance(n.operand, ast.Name):
                out.add(n.operand.id)
            if isinstance(n, (ast.If, ast.While, ast.IfExp)) and isinstance(n.test, ast.Name):
                out.add(n.test.id)
        return out

    # ------------------------------------------------------------------------------------------------------------------
    def extract(self, name, args=(), entry=False):
        tree = self.method_ast(name)
        self.aut = Automaton(name, tuple(args))
        self.memo = {}
        self.tested = self.list_tested(tree)
        self.depth = 0
        st = State()
        params = [a.arg for a in tree.args.args][1:]
        defaults = tree.args.defaults
        vals = list(args)
        for i, p in enumerate(params):
            if i < len(vals):
                st.env[p] = ConstV(vals[i])
            else:
                d = defaults[i - (len(params) - len(defaults))] if i >= len(params) - len(defaults) else None
                if isinstance(d, ast.Constant):
                    st.env[p] = ConstV(d.value)
                else:
                    raise Unsupported("parameter %s of %s has no value" % (p, name))
        self.entry = entry
        if name in self.pre:
            self.tid += 1
            st.toks[self.tid] = self.pre[name]
            st.la = (self.tid, None)
            st.first = self.tid
        if st.first is None:
            st.first = self.ensure(st, 1)          # the token that is next when the method starts: the first token of whatever it parses
        self.run((Frame(tree.body, 0, None, name),), st, 0)
        return self.aut

    def extract_function(self, func):
        """a module-level driver (parse_value / parse_type): `parser = Parser(...)` followed by calls on `parser`"""
        tree = ast.parse(textwrap.dedent(inspect.getsource(func))).body[0]
        ast.increment_lineno(tree, func.__code__.co_firstlineno - tree.lineno)
        self.aut = Automaton(func.__name__, ())
        self.memo = {}
        self.tested = set()
        self.depth = 0
        self.entry = True
        st = State()
        for a in tree.args.args:
            st.env[a.arg] = UnknownV(a.arg)
        self.run((Frame(tree.body, 0, None, func.__name__),), st, 0)
        return self.aut

    # -- token stream primitives ---------------------------------------------------------------------------------------
    def fresh(self, st):
        self.tid += 1
        atoms = self.A.all if (self.entry and st.consumed == 0 and st.la == (None, None)) else self.A.no_sof
        if self.entry and st.consumed == 0 and st.la == (None, None):
            atoms = frozenset(["SOF"])     # the lexer's first token is always SOF
        st.toks[self.tid] = atoms
        return self.tid

    def ensure(self, st, count):
        la = list(st.la)
        for i in range(count):
            if la[i] is None:
                st.la = tuple(la)
                la[i] = self.fresh(st)
        st.la = tuple(la)
        if st.first is None and st.consumed == 0:
            st.first = st.la[0]
        return st.la[count - 1]

    def consume(self, st, node):
        tid = self.ensure(st, 1)
        atoms = st.toks[tid]
        node = self.aut.edge(node, ("t", atoms, tid))
        st.la = (st.la[1], None)
        st.consumed = 1
        st.ticks += 1
        st.tok_ticks = dict(st.tok_ticks)
        st.tok_ticks[tid] = st.ticks
        st.last = ("t", tid)
        return node, tid

    def decide(self, st, node, line, text, tid, yes, no, slot):
        """fork on a test about token `tid`: -> list of (state, node, outcome bool) for the feasible outcomes"""
        pre = (st.toks.get(st.la[0]) if st.la[0] else None, st.toks.get(st.la[1]) if st.la[1] else None)
        out = []
        did = (line, text, len(self.aut.decisions))
        feasible = [(True, yes), (False, no)]
        feasible = [(o, a) for o, a in feasible if a]
        if len(feasible) == 1:
            res = []
            for o, a in feasible:
                s2 = st.copy()
                s2.toks[tid] = a
                res.append((s2, node, o))
            return res
        if slot == 0:
            # a test made after the token was consumed refines the consumed symbol: the consuming edge is split
            return [(s2, n2, o) for (s2, n2, o) in self.split_edge(st, node, lambda lab: lab[0] == "t" and lab[2] == tid, feasible, tid)]
        rec = {"line": line, "text": text, "pre": pre, "slot": slot, "branches": {}}
        self.aut.decisions[did] = rec
        for o, a in feasible:
            s2 = st.copy()
            s2.toks[tid] = a
            post = (s2.toks.get(s2.la[0]) if s2.la[0] else None, s2.toks.get(s2.la[1]) if s2.la[1] else None)
            n2 = self.aut.edge(node, ("e", did, o))
            rec["branches"][o] = {"post": post, "node": n2}
            out.append((s2, n2, o))
        return out

    @staticmethod
    def ticked(v, st):
        v.tick = st.ticks
        return v

    def split_edge(self, st, node, match, feasible, tid=None):
        idx = [i for i, (src, dst, lab) in enumerate(self.aut.edges) if dst == node and match(lab)]
        if len(idx) != 1 or any(src == node for src, _d, _l in self.aut.edges):
            raise Unsupported("a test on an already consumed token is not made right after its consumption")
        src, _dst, lab = self.aut.edges.pop(idx[0])
        out = []
        for o, atoms in feasible:
            s2 = st.copy()
            if tid is not None:
                s2.toks[tid] = atoms
            new = (lab[0], atoms) + tuple(lab[2:]) if lab[0] == "t" else lab + (atoms,)
            n2 = self.aut.edge(src, new)
            out.append((s2, n2, o))
        return out

    # -- statements ------------------------------------------------------------------------------------------------------
    def run(self, frames, st, node):
        self.depth += 1
        if self.depth > 400 or self.aut.n > 6000:
            raise Unsupported("automaton of %s too large" % self.aut.name)
        try:
            self._run(frames, st, node)
        finally:
            self.depth -= 1

    def _run(self, frames, st, node):
        while True:
            if not frames:
                self.do_return(st, node, ConstV(None), None)
                return
            fr = frames[-1]
            if fr.idx >= len(fr.stmts):
                if fr.loop is not None:
                    return self.loop_head(fr.loop, frames[:-1], st, node)
                frames = frames[:-1]
                continue
            s = fr.stmts[fr.idx]
            rest = frames[:-1] + (fr.next(),)
            if isinstance(s, ast.Expr):
                if isinstance(s.value, ast.Constant):
                    frames = rest
                    continue
                for s2, n2, _v in self.ev(s.value, st, node):
                    self.run(rest, s2, n2)
                return
            if isinstance(s, (ast.Assign, ast.AnnAssign)):
                value = s.value
                targets = s.targets if isinstance(s, ast.Assign) else [s.target]
                if value is None:
                    frames = rest
                    continue
                hint = targets[0].id if len(targets) == 1 and isinstance(targets[0], ast.Name) else None
                for s2, n2, v in self.ev(value, st, node, hint=hint):
                    for t in targets:
                        self.assign(t, v, s2)
                    self.run(rest, s2, n2)
                return
            if isinstance(s, ast.If):
                for s2, n2, truth in self.cond(s.test, st, node):
                    self.run(rest + (Frame(s.body if truth else s.orelse, 0, None),), s2, n2)
                return
            if isinstance(s, ast.While):
                return self.loop_head(s, rest, st, node)
            if isinstance(s, ast.Return):
                if s.value is None:
                    self.do_return(st, node, ConstV(None), s)
                else:
                    for s2, n2, v in self.ev(s.value, st, node):
                        self.do_return(s2, n2, v, s)
                return
            if isinstance(s, ast.Raise):
                for s2, n2, v in self.ev(s.exc, st, node):
                    self.do_raise(s2, n2, v, s)
                return
            if isinstance(s, ast.Break):
                k = len(frames) - 1
                while k >= 0 and frames[k].loop is None:
                    k -= 1
                if k < 0:
                    raise Unsupported("break outside loop")
                frames = frames[:k]
                continue
            if isinstance(s, ast.Continue):
                k = len(frames) - 1
                while k >= 0 and frames[k].loop is None:
                    k -= 1
                return self.loop_head(frames[k].loop, frames[:k], st, node)
            if isinstance(s, ast.Pass):
                frames = rest
                continue
            raise Unsupported("statement %s at line %d" % (type(s).__name__, s.lineno))

    def assign(self, target, v, st):
        if isinstance(target, ast.Name):
            st.env[target.id] = v
        elif isinstance(target, ast.Tuple) and isinstance(v, ConstV) and isinstance(v.value, tuple) and len(v.value) == len(target.elts):
            for t, x in zip(target.elts, v.value):
                self.assign(t, x if isinstance(x, AV) else ConstV(x), st)
        elif isinstance(target, ast.Attribute) and isinstance(target.value, ast.Name) and target.value.id == "self":
            raise Unsupported("store to self.%s" % target.attr)
        else:
            raise Unsupported("assignment target %s" % ast.unparse(target))

    def loop_head(self, s, frames_after, st, node):
        # abstract the loop-carried locals that the body assigns / mutates
        st = st.copy()
        key = (id(s), tuple(f.sig() for f in frames_after), st.key())
        if key in self.memo:
            self.aut.edge(node, ("e", None, None), self.memo[key])
            return
        head = self.aut.edge(node, ("e", None, None))
        self.memo[key] = head
        if isinstance(s.test, ast.Constant) and s.test.value is True:
            self.run(frames_after + (Frame(s.body, 0, s),), st, head)
            return
        for s2, n2, truth in self.cond(s.test, st, head):
            if truth:
                self.run(frames_after + (Frame(s.body, 0, s),), s2, n2)
            else:
                if s.orelse:
                    raise Unsupported("while-else")
                self.run(frames_after, s2, n2)

    def do_return(self, st, node, v, stmt):
        la1 = st.toks.get(st.la[0]) if st.la[0] else None
        kind = "node" if isinstance(v, NodeV) else "list" if isinstance(v, ListV) else "none" if isinstance(v, ConstV) and v.value is None else "other"
        self.aut.returns.append({"node": node, "kind": kind, "cls": v.cls if isinstance(v, NodeV) else None, "rec": v.rec if isinstance(v, NodeV) else None,
                                 "list": v.state if isinstance(v, ListV) else None, "consumed": st.consumed, "la1": la1,
                                 "line": stmt.lineno if stmt is not None else None,
                                 "tok_atoms": st.toks.get(v.tid) if isinstance(v, TokV) else None})

    def do_raise(self, st, node, v, stmt):
        if not isinstance(v, ExcV):
            raise Unsupported("raise of a non-constructor expression at line %d" % stmt.lineno)
        self.aut.raises.append({"node": node, "ctor": v.ctor, "pos": v.pos_text, "token_atoms": st.toks.get(v.tid) if v.tid else None,
                                "token_is_lookahead": st.slot_of(v.tid) if v.tid else 0, "consumed": st.consumed, "line": stmt.lineno,
                                "la1": st.toks.get(st.la[0]) if st.la[0] else None})

    # -- conditions ------------------------------------------------------------------------------------------------------
    def cond(self, e, st, node):
        """-> list of (state, node, bool)"""
        if isinstance(e, ast.BoolOp):
            is_and = isinstance(e.op, ast.And)
            out = []
            cur = [(st, node)]
            for i, v in enumerate(e.values):
                nxt = []
                for s1, n1 in cur:
                    for s2, n2, t in self.cond(v, s1, n1):
                        if t != is_and:          # short-circuit
                            out.append((s2, n2, t))
                        elif i == len(e.values) - 1:
                            out.append((s2, n2, t))
                        else:
                            nxt.append((s2, n2))
                cur = nxt
            return out
        if isinstance(e, ast.UnaryOp) and isinstance(e.op, ast.Not):
            return [(s, n, not t) for s, n, t in self.cond(e.operand, st, node)]
        if isinstance(e, ast.Compare) and len(e.ops) == 1:
            return self.compare(e, st, node)
        out = []
        for s2, n2, v in self.ev(e, st, node):
            t = self.truth(v)
            if t is None:
                raise Unsupported("undecided condition %s at line %d" % (ast.unparse(e), e.lineno))
            out.append((s2, n2, t))
        return out

    def truth(self, v):
        if isinstance(v, ConstV):
            return bool(v.value)
        if isinstance(v, ListV):
            return {"empty": False, "nonempty": True}.get(v.state)
        if isinstance(v, (TokV, NodeV, MethodV)):
            return True
        return None

    def compare(self, e, st, node):
        op = e.ops[0]
        out = []
        for s1, n1, left in self.ev(e.left, st, node):
            for s2, n2, right in self.ev(e.comparators[0], s1, n1):
                line, text = e.lineno, ast.unparse(e)
                if isinstance(left, ClassOfV) and isinstance(op, (ast.Is, ast.Eq, ast.IsNot, ast.NotEq, ast.In, ast.NotIn)) and isinstance(right, ConstV):
                    classes = right.value if isinstance(right.value, (tuple, list, set, frozenset)) else (right.value,)
                    want = frozenset()
                    for c in classes:
                        if not (isinstance(c, type) and c.__name__ in self.A.classes):
                            raise Unsupported("class test against %r" % (c,))
                        want |= self.A.of_class(c.__name__)
                    atoms = s2.toks[left.tid]
                    yes, no = atoms & want, atoms - want
                    neg = isinstance(op, (ast.IsNot, ast.NotEq, ast.NotIn))
                    for s3, n3, o in self.decide(s2, n2, line, text, left.tid, yes, no, s2.slot_of(left.tid)):
                        out.append((s3, n3, o != neg))
                    continue
                if isinstance(left, ValueOfV) and isinstance(right, ConstV) and isinstance(op, (ast.Eq, ast.NotEq, ast.In, ast.NotIn)):
                    values = right.value if isinstance(right.value, (tuple, list, set, frozenset)) else (right.value,)
                    if not all(isinstance(v, str) for v in values):
                        raise Unsupported("value test against %r" % (right.value,))
                    atoms = s2.toks[left.tid]
                    yes, no = frozenset(), frozenset(atoms)
                    for v in values:
                        y, n_ = self.A.with_value(atoms, v)
                        yes, no = yes | y, no & n_
                    if isinstance(op, (ast.In, ast.NotIn)) and isinstance(right.value, str):
                        yes, no = self.A.within_string(atoms, right.value)      # `x in "on"` is a substring test, not membership in ("on",)
                    neg = isinstance(op, (ast.NotEq, ast.NotIn))
                    for s3, n3, o in self.decide(s2, n2, line, text, left.tid, yes, no, s2.slot_of(left.tid)):
                        out.append((s3, n3, o != neg))
                    continue
                if isinstance(left, ValueOfNodeV) and isinstance(right, ConstV) and isinstance(op, (ast.Eq, ast.NotEq, ast.In, ast.NotIn)):
                    values = right.value if isinstance(right.value, (tuple, list, set, frozenset)) else (right.value,)
                    lab = self.aut.edges[left.edge][2] if left.edge < len(self.aut.edges) else None
                    if lab is None or lab[:2] != ("n", "parse_name") or not all(isinstance(v, str) for v in values):
                        raise Unsupported("test on the value of a node that is not a freshly parsed name")
                    names = frozenset(self.A.names)
                    yes, no = frozenset(), names
                    for v in values:
                        y, n_ = self.A.with_value(names, v)
                        yes, no = yes | y, no & n_
                    if isinstance(op, (ast.In, ast.NotIn)) and isinstance(right.value, str):
                        yes, no = self.A.within_string(names, right.value)
                    neg = isinstance(op, (ast.NotEq, ast.NotIn))
                    target = self.aut.edges[left.edge]
                    for s3, n3, o in self.split_edge(s2, n2, lambda l, t=target[2]: l is t, [(True, yes), (False, no)]):
                        out.append((s3, n3, o != neg))
                    continue
                if isinstance(left, ConstV) and isinstance(right, ConstV):
                    a, b = left.value, right.value
                    r = {ast.Is: a is b, ast.IsNot: a is not b, ast.Eq: a == b, ast.NotEq: a != b}.get(type(op))
                    if isinstance(op, (ast.In, ast.NotIn)):
                        r = (a in b) == isinstance(op, ast.In)
                    if r is None:
                        raise Unsupported("comparison %s" % text)
                    out.append((s2, n2, bool(r)))
                    continue
                if isinstance(left, (ValueOfNodeV, ValueOfV, UnknownV)) and isinstance(right, (ValueOfNodeV, ValueOfV, UnknownV, ConstV)) and \
                        not (isinstance(left, ValueOfV) and s2.slot_of(left.tid)) and not (isinstance(right, ValueOfV) and s2.slot_of(right.tid)):
                    # a comparison between values that were already parsed: data, not look-ahead - both outcomes are possible
                    out.append((s2.copy(), n2, True))
                    out.append((s2.copy(), n2, False))
                    continue
                raise Unsupported("comparison %s at line %d" % (text, line))
        return out

    # -- expressions -----------------------------------------------------------------------------------------------------
    def ev(self, e, st, node, hint=None):
        """-> list of (state, node, AV)"""
        if isinstance(e, ast.Constant):
            return [(st, node, ConstV(e.value))]
        if isinstance(e, ast.Name):
            if e.id in st.env:
                return [(st, node, st.env[e.id])]
            if e.id in self.glob:
                return [(st, node, ConstV(self.glob[e.id]))]
            if e.id in ("True", "False", "None"):
                return [(st, node, ConstV({"True": True, "False": False, "None": None}[e.id]))]
            raise Unsupported("name %s" % e.id)
        if isinstance(e, ast.Tuple):
            out = [(st, node, [])]
            for x in e.elts:
                out = [(s2, n2, items + [v]) for s1, n1, items in out for s2, n2, v in self.ev(x, s1, n1)]
            res = []
            for s1, n1, items in out:
                if all(isinstance(i, ConstV) for i in items):
                    res.append((s1, n1, ConstV(tuple(i.value for i in items))))
                else:
                    res.append((s1, n1, ConstV(tuple(items))))
            return res
        if isinstance(e, ast.List):
            if e.elts:
                raise Unsupported("non-empty list display")
            return [(st, node, ListV("empty"))]
        if isinstance(e, ast.Attribute):
            if isinstance(e.value, ast.Name) and e.value.id in ("self", "parser"):
                if e.attr == "_allow_type_system":
                    return [(st, node, ConstV(self.flags["allow_type_system"]))]
                if e.attr == "_experimental_fragment_variables":
                    return [(st, node, ConstV(self.flags["experimental_fragment_variables"]))]
                if e.attr == "_source":
                    return [(st, node, UnknownV("source"))]
                if e.attr.startswith("parse_") or e.attr in COMBINATORS or e.attr in PRIMITIVES:
                    return [(st, node, MethodV(e.attr))]
                if e.attr in ("_lexer", "_loc", "_last"):
                    return [(st, node, UnknownV("self." + e.attr))]
                raise Unsupported("attribute self.%s" % e.attr)
            if isinstance(e.value, ast.Name) and e.value.id == "_ast":
                return [(st, node, ConstV(("ast", e.attr)))]
            out = []
            for s2, n2, v in self.ev(e.value, st, node):
                if isinstance(v, TokV):
                    if e.attr == "__class__":
                        out.append((s2, n2, ClassOfV(v.tid)))
                    elif e.attr == "value":
                        w = ValueOfV(v.tid)
                        w.tick = v.tick
                        out.append((s2, n2, w))
                    elif e.attr in ("start", "end"):
                        out.append((s2, n2, UnknownV("%s.%s" % (ast.unparse(e.value), e.attr))))
                    else:
                        raise Unsupported("token attribute %s" % e.attr)
                elif isinstance(v, UnknownV):
                    out.append((s2, n2, UnknownV(v.note + "." + e.attr)))
                elif isinstance(v, NodeV) and e.attr == "value" and v.edge is not None:
                    out.append((s2, n2, ValueOfNodeV(v.edge)))
                elif isinstance(v, NodeV) and e.attr == "value":
                    out.append((s2, n2, UnknownV("node.value")))
                elif isinstance(v, ConstV) and isinstance(v.value, type) and e.attr == "__name__":
                    out.append((s2, n2, UnknownV("name")))
                else:
                    raise Unsupported("attribute %s of %s" % (e.attr, type(v).__name__))
            return out
        if isinstance(e, ast.Call):
            return self.call(e, st, node, hint)
        if isinstance(e, ast.IfExp):
            out = []
            for s2, n2, t in self.cond(e.test, st, node):
                out += self.ev(e.body if t else e.orelse, s2, n2, hint)
            return out
        if isinstance(e, ast.BoolOp):
            # value-returning and / or
            is_and = isinstance(e.op, ast.And)
            cur = [(st, node, None)]
            out = []
            for i, x in enumerate(e.values):
                nxt = []
                for s1, n1, _ in cur:
                    for s2, n2, v in self.ev(x, s1, n1):
                        t = self.truth(v)
                        if i == len(e.values) - 1:
                            out.append((s2, n2, v))
                        elif t is None:
                            raise Unsupported("undecided operand of and/or at line %d" % e.lineno)
                        elif t != is_and:
                            out.append((s2, n2, v))
                        else:
                            nxt.append((s2, n2, v))
                cur = nxt
            return out
        if isinstance(e, ast.Compare) or (isinstance(e, ast.UnaryOp) and isinstance(e.op, ast.Not)):
            try:
                return [(s, n, ConstV(t)) for s, n, t in self.cond(e, st, node)]
            except Unsupported:
                return [(st, node, UnknownV("bool"))]
        if isinstance(e, ast.BinOp):
            out = []
            for s1, n1, _a in self.ev(e.left, st, node):
                for s2, n2, _b in self.ev(e.right, s1, n1):
                    out.append((s2, n2, UnknownV("binop")))
            return out
        if isinstance(e, ast.Lambda):
            return [(st, node, UnknownV("lambda"))]
        raise Unsupported("expression %s at line %d" % (type(e).__name__, e.lineno))

    def ev_args(self, call, st, node):
        out = [(st, node, [], {})]
        for a in call.args:
            if isinstance(a, ast.Starred):
                raise Unsupported("star argument")
            out = [(s2, n2, args + [v], kw) for s1, n1, args, kw in out for s2, n2, v in self.ev(a, s1, n1)]
        for k in call.keywords:
            if k.arg is None:
                raise Unsupported("** argument")
            out = [(s2, n2, args, dict(kw, **{k.arg: (v, s1.consumed, n1)})) for s1, n1, args, kw in out for s2, n2, v in self.ev(k.value, s1, n1)]
        return out

    def call(self, e, st, node, hint=None):
        f = e.func
        text = ast.unparse(f)
        # type(token)
        if isinstance(f, ast.Name) and f.id == "type" and len(e.args) == 1:
            return [(s, n, ClassOfV(v.tid)) if isinstance(v, TokV) else (s, n, UnknownV("type")) for s, n, v in self.ev(e.args[0], st, node)]
        if isinstance(f, ast.Name) and f.id == "cast":
            return self.ev(e.args[1], st, node, hint)
        if text == "ft.partial" or text == "functools.partial":
            out = []
            for s2, n2, args, _kw in self.ev_args(e, st, node):
                if not isinstance(args[0], MethodV) or not all(isinstance(a, ConstV) for a in args[1:]):
                    raise Unsupported("partial of a non-method / non-constant arguments")
                out.append((s2, n2, MethodV(args[0].name, args[0].args + tuple(a.value for a in args[1:]))))
            return out
        if text in ("_unexpected_token", "UnexpectedToken", "UnexpectedEOF", "GraphQLSyntaxError"):
            out = []
            for s2, n2, args, _kw in self.ev_args(e, st, node):
                pos = e.args[1] if text in ("_unexpected_token", "UnexpectedToken", "GraphQLSyntaxError") else e.args[0]
                tid = None
                if isinstance(pos, ast.Attribute) and isinstance(pos.value, ast.Name) and isinstance(s2.env.get(pos.value.id), TokV):
                    tid = s2.env[pos.value.id].tid
                out.append((s2, n2, ExcV(text, ast.unparse(pos), tid)))
            return out
        # AST node constructors
        if isinstance(f, ast.Attribute) and isinstance(f.value, ast.Name) and f.value.id == "_ast":
            out = []
            for s2, n2, args, kw in self.ev_args(e, st, node):
                if args:
                    raise Unsupported("positional arguments to _ast.%s" % f.attr)
                loc = kw.get("loc", (None, None, None))[0]
                rec = {"cls": f.attr, "line": e.lineno, "kwargs": [k.arg for k in e.keywords],
                       "loc_text": loc.text if isinstance(loc, LocV) else (ast.unparse([k.value for k in e.keywords if k.arg == "loc"][0]) if "loc" in kw else None),
                       "loc_tid": loc.tid if isinstance(loc, LocV) else None, "loc_ticks": loc.ticks if isinstance(loc, LocV) else None,
                       "first": s2.first, "ticks": s2.ticks, "consumed": s2.consumed, "produced": list(s2.produced),
                       "covered": sorted(set(s2.appended) | {t for (v, _c, _n) in kw.values() for t in
                                                             ([v.tick] if v.tick is not None else []) + (list(v.rec.get("covered", ())) if isinstance(v, NodeV) and v.rec else [])}),
                       "kw_ticks": {k: (v.tick if v.tick is not None else s2.tok_ticks.get(getattr(v, "tid", None))) for k, (v, _c, _n) in kw.items()},
                       "kw_none": {k: isinstance(v, ConstV) and (v.value is None or v.value == []) or (isinstance(v, ListV) and v.state == "empty" and v.tick is None)
                                   for k, (v, _c, _n) in kw.items()},
                       "first_atoms": s2.toks.get(s2.first) if s2.first else None,
                       "source_text": next((ast.unparse(k.value) for k in e.keywords if k.arg == "source"), None)}
                self.aut.calls.append(rec)
                out.append((s2, n2, NodeV(f.attr, rec)))
            return out
        if isinstance(f, ast.Attribute) and f.attr == "_loc":
            return [(s2, n2, LocV(a[0].tid if a and isinstance(a[0], TokV) else None, s2.ticks, ast.unparse(e)))
                    for s2, n2, a, _k in self.ev_args(e, st, node)]
        # methods of the parser
        if isinstance(f, ast.Name) and f.id == "Parser":
            return [(st, node, UnknownV("parser"))]          # Parser(source, **kwargs): construction only
        if isinstance(f, ast.Attribute) and isinstance(f.value, ast.Name) and f.value.id in ("self", "parser"):
            out = []
            for s2, n2, args, kw in self.ev_args(e, st, node):
                if kw and f.attr != "peek":
                    raise Unsupported("keyword arguments to self.%s" % f.attr)
                out += self.method(f.attr, args, s2, n2, e, hint)
            return out
        # local callable (parse_fn inside a combinator)
        if isinstance(f, ast.Name) and isinstance(st.env.get(f.id), MethodV):
            m = st.env[f.id]
            out = []
            for s2, n2, args, kw in self.ev_args(e, st, node):
                out += self.method(m.name, list(ConstV(a) for a in m.args) + args, s2, n2, e, hint)
            return out
        if isinstance(f, ast.Attribute) and f.attr == "append":
            out = []
            for s1, n1, target in self.ev(f.value, st, node):
                for s2, n2, args, _kw in self.ev_args(e, s1, n1):
                    if not isinstance(target, ListV) or not isinstance(f.value, ast.Name):
                        raise Unsupported("append to a non-list")
                    s2.env[f.value.id] = ListV("nonempty")
                    for a_ in args:
                        if a_.tick is not None:
                            s2.appended = s2.appended + (a_.tick,)
                        if isinstance(a_, NodeV) and a_.rec:
                            s2.appended = s2.appended + tuple(a_.rec.get("covered", ()))
                    out.append((s2, n2, ConstV(None)))
            return out
        raise Unsupported("call %s at line %d" % (text, e.lineno))

    def method(self, name, args, st, node, e, hint):
        A = self.A
        line = e.lineno
        if name == "peek":
            count = 1
            if args:
                if not isinstance(args[0], ConstV):
                    raise Unsupported("peek(non-constant)")
                count = args[0].value
            if count not in (1, 2):
                raise Unsupported("peek(%r)" % count)
            st = st.copy()
            if count == 2:
                self.ensure(st, 1)
                self.aut.peek2.append({"line": line, "la1": st.toks.get(st.la[0])})
            tid = self.ensure(st, count)
            return [(st, node, TokV(tid))]
        if name == "advance":
            st = st.copy()
            node, tid = self.consume(st, node)
            return [(st, node, self.ticked(TokV(tid), st))]
        if name in ("expect", "skip"):
            if not (isinstance(args[0], ConstV) and isinstance(args[0].value, type)):
                raise Unsupported("%s(non-class)" % name)
            want = A.of_class(args[0].value.__name__)
            st = st.copy()
            tid = self.ensure(st, 1)
            atoms = st.toks[tid]
            out = []
            for s2, n2, o in self.decide(st, node, line, "%s(%s)" % (name, args[0].value.__name__), tid, atoms & want, atoms - want, 1):
                if o:
                    n3, t3 = self.consume(s2, n2)
                    out.append((s2, n3, self.ticked(TokV(t3), s2) if name == "expect" else ConstV(True)))
                elif name == "skip":
                    out.append((s2, n2, ConstV(False)))
                else:
                    self.aut.raises.append({"node": n2, "ctor": "UnexpectedToken", "pos": "next_token.start", "token_atoms": s2.toks[tid], "token_is_lookahead": 1,
                                            "consumed": s2.consumed, "line": line, "la1": s2.toks[tid], "by": "expect(%s)" % args[0].value.__name__})
            return out
        if name == "expect_keyword":
            if not (isinstance(args[0], ConstV) and isinstance(args[0].value, str)):
                raise Unsupported("expect_keyword(non-constant)")
            kw = "Name:" + args[0].value
            if kw not in A.all:
                raise Unsupported("keyword %r not in the alphabet" % args[0].value)
            st = st.copy()
            tid = self.ensure(st, 1)
            atoms = st.toks[tid]
            out = []
            for s2, n2, o in self.decide(st, node, line, "expect_keyword(%r)" % args[0].value, tid, atoms & {kw}, atoms - {kw}, 1):
                if o:
                    n3, t3 = self.consume(s2, n2)
                    out.append((s2, n3, self.ticked(TokV(t3), s2)))
                else:
                    self.aut.raises.append({"node": n2, "ctor": "UnexpectedToken", "pos": "next_token.start", "token_atoms": s2.toks[tid], "token_is_lookahead": 1,
                                            "consumed": s2.consumed, "line": line, "la1": s2.toks[tid], "by": "expect_keyword(%r)" % args[0].value})
            return out
        helper = name.startswith("parse_") and self.mapped is not None and name not in self.mapped and name in self.cls.__dict__
        if name in COMBINATORS or helper:
            # the combinator's real body is executed with the actual arguments (a local scope of its own); so is the body of a parse_* method
            # that stands for no nonterminal of the specification (a helper factored out of several methods)
            tree = self.method_ast(name)
            params = [a.arg for a in tree.args.args][1:]
            if helper:
                if name in self.inlining:
                    raise Unsupported("recursive helper %s" % name)
                defaults = tree.args.defaults
                args = list(args)
                for i in range(len(args), len(params)):
                    d = defaults[i - (len(params) - len(defaults))] if i >= len(params) - len(defaults) else None
                    if not isinstance(d, ast.Constant):
                        raise Unsupported("parameter %s of helper %s has no value" % (params[i], name))
                    args.append(ConstV(d.value))
            if len(args) != len(params):
                raise Unsupported("arity of %s" % name)
            saved = st.env
            inner = st.copy()
            inner.env = dict(zip(params, args))
            results = []
            sub = _Sub(self, results)
            saved_inl = self.inlining
            self.inlining = saved_inl + ((name,) if helper else ())
            try:
                sub.run_inline(tree, inner, node)
            finally:
                self.inlining = saved_inl
            out = []
            for s2, n2, v in results:
                s2.env = dict(saved)
                out.append((s2, n2, v))
            return out
        if name.startswith("parse_"):
            vals = []
            for a in args:
                if not isinstance(a, ConstV):
                    raise Unsupported("non-constant argument to %s" % name)
                vals.append(a.value)
            if name in self.cls.__dict__:
                # omitted parameters take the callee's constant defaults: parse_directives() is parse_directives(False)
                ctree = self.method_ast(name)
                cparams = [a.arg for a in ctree.args.args][1:]
                cdef = ctree.args.defaults
                for i in range(len(vals), len(cparams)):
                    d = cdef[i - (len(cparams) - len(cdef))] if i >= len(cparams) - len(cdef) else None
                    if not isinstance(d, ast.Constant):
                        raise Unsupported("call of %s leaves parameter %s without a value" % (name, cparams[i]))
                    vals.append(d.value)
            ret = self.return_kind(name)
            st = st.copy()
            la1 = st.toks.get(st.la[0]) if st.la[0] else None
            self.aut.callsites.append({"edge": len(self.aut.edges), "callee": name, "args": tuple(vals), "la1": la1, "line": line})
            st.la = (None, None)
            st.ticks += 1
            st.produced = st.produced + (st.ticks,)
            st.last = ("n", name)
            if ret == "list" and hint in self.tested:
                out = []
                for flag in ("empty", "nonempty"):
                    s2 = st.copy()
                    if flag == "nonempty":
                        s2.consumed = 1
                    n2 = self.aut.edge(node, ("n", name, tuple(vals), flag))
                    out.append((s2, n2, self.ticked(ListV(flag), s2)))
                return out
            n2 = self.aut.edge(node, ("n", name, tuple(vals), None))
            st.consumed = 1 if not self.may_be_empty(name) else st.consumed
            if ret == "list":
                return [(st, n2, self.ticked(ListV("unknown"), st))]
            if ret == "optional":
                return [(st, n2, self.ticked(UnknownV("optional"), st))]
            if ret == "str":
                return [(st, n2, self.ticked(UnknownV("str"), st))]
            return [(st, n2, self.ticked(NodeV("<%s>" % name, edge=len(self.aut.edges) - 1), st))]
        raise Unsupported("self.%s(...)" % name)

    def return_kind(self, name):
        ann = self.method_ast(name).returns
        text = ast.unparse(ann) if ann is not None else ""
        if text.startswith("List["):
            return "list"
        if text.startswith("Optional["):
            return "optional"
        if text == "str":
            return "str"
        return "node"

    def may_be_empty(self, name):
        return self.return_kind(name) in ("list", "optional")


class _Sub:
    """runs the body of an inlined combinator: returns inside it deliver a value to the caller instead of ending the method"""

    def __init__(self, ex, results):
        self.ex, self.results = ex, results

    def run_inline(self, tree, st, node):
        ex = self.ex
        saved_return, saved_memo = ex.do_return, ex.memo
        results = self.results

        def deliver(s, n, v, stmt):
            results.append((s.copy(), n, v))
        ex.do_return = deliver
        # loop memoisation inside the combinator must not merge different call sites
        ex.memo = {}
        try:
            ex.run((Frame(tree.body, 0, None, tree.name),), st, node)
        finally:
            ex.do_return = saved_return
            ex.memo = saved_memo
