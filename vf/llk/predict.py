"""Engine B, step 4: prediction (P2), progress (P3), call-site preconditions (P0) over the extracted automata.

FIRST_2 / FOLLOW_2 are computed on the *code-extracted grammar* (nonterminals = <method, args>, productions = the automata with
their guards ignored); P1 ties that grammar to the specification's.  Strings are tuples of at most two atoms; a shorter tuple is a
complete (short) string.

P2: at every look-ahead decision of a method K, for every outcome o:  every string x in FIRST_2(language from o's node) . FOLLOW_2(K)
that is compatible with what was known about the look-ahead before the test is also compatible with what is known after taking o
- i.e. no token sequence that the grammar allows to continue along o is routed to another outcome.  Together with P1 (same
language), P3 (progress) and determinism of the code this makes the parser accept every derivable sequence (meta-theorem, trusted).
The grammar's only FIRST/FOLLOW conflict, `{` after a body-less definition, is the one the specification resolves with a
look-ahead restriction (NOBRACE): a P2 conflict whose only offending token is `{`, inside a method whose specification
right-hand side carries NOBRACE, is discharged as "resolved by the specification's look-ahead restriction" and listed.
"""
from . import regex as R

K = 2


def conc(xs, ys):
    out = set()
    for x in xs:
        if len(x) >= K:
            out.add(x[:K])
        else:
            for y in ys:
                out.add((x + y)[:K])
    return out


class Predict:
    def __init__(self, model, anchors, entries):
        self.m, self.anchors = model, anchors
        self.F = {}            # (key, node) -> set of tuples
        self._sym = {}
        self.follow = {k: set() for k in model.auts}
        for key, fol in entries.items():
            self.follow[key] |= set(fol)
        self._first()
        self._follow()

    # -- language of one call edge, as FIRST_2 -----------------------------------------------------------------------------
    def edge_first(self, key, idx, lab):
        callee = (lab[1], lab[2])
        base = self.F.get((callee, 0), set())
        flag = lab[3]
        if len(lab) > 4:
            base = {x for x in base if x and x[0] in lab[4]}
        la1 = None
        for c in self.m.auts[key].callsites:
            if c["edge"] == idx:
                la1 = c["la1"]
        mapped = self.m.mapped(callee)
        if la1 is not None and mapped[0] == "set":
            base = {x for x in base if x and x[0] in la1}
        if flag == "empty":
            return {()} if () in base else set()
        if flag == "nonempty":
            return {x for x in base if x != ()}
        return base

    def _first(self):
        auts = self.m.auts
        for key, aut in auts.items():
            for n in range(aut.n):
                self.F[(key, n)] = set()
            for r in aut.returns:
                self.F[(key, r["node"])].add(())
        changed = True
        while changed:
            changed = False
            for key, aut in auts.items():
                for idx, (s, d, lab) in enumerate(aut.edges):
                    tail = self.F[(key, d)]
                    if not tail:
                        continue
                    if lab[0] == "t":
                        new = conc({(a,) for a in lab[1]}, tail)
                    elif lab[0] == "e":
                        new = tail
                    else:
                        new = conc(self.edge_first(key, idx, lab), tail)
                    cur = self.F[(key, s)]
                    if not new <= cur:
                        cur |= new
                        changed = True

    def _follow(self):
        auts = self.m.auts
        changed = True
        while changed:
            changed = False
            for key, aut in auts.items():
                for s, d, lab in aut.edges:
                    if lab[0] != "n":
                        continue
                    callee = (lab[1], lab[2])
                    new = conc(self.F[(key, d)], self.follow[key])
                    if not new <= self.follow[callee]:
                        self.follow[callee] |= new
                        changed = True

    # -- P2 --------------------------------------------------------------------------------------------------------------
    @staticmethod
    def compatible(x, sets):
        for i, s in enumerate(sets):
            if s is None:
                continue
            if i >= len(x):
                return False           # the code looks at a token the input does not have
            if x[i] not in s:
                return False
        return True

    def sym_nfa(self, key):
        """the method's automaton as an NFA over atoms and callee symbols (callees not translated): for comparing continuations"""
        if key in self._sym:
            return self._sym[key]
        aut = self.m.auts[key]
        n = R.NFA()
        for _ in range(aut.n):
            n.new()
        n.accept = {r["node"] for r in aut.returns}
        la_at = {c["edge"]: c["la1"] for c in aut.callsites}
        for idx, (s, d, lab) in enumerate(aut.edges):
            if lab[0] == "t":
                for atom in lab[1]:
                    n.add(s, atom, d)
            elif lab[0] == "e":
                n.add(s, None, d)
            else:
                single = self.m.mapped((lab[1], lab[2]))[0] == "set"
                n.add(s, ("C", lab[1], lab[2], lab[3], lab[4] if len(lab) > 4 else None, la_at.get(idx) if single else None), d)
        self._sym[key] = n
        return n

    def same_continuation(self, key, a, b):
        n = self.sym_nfa(key)
        n1, n2 = R.NFA(), R.NFA()
        for x, start in ((n1, a), (n2, b)):
            x.n, x.edges, x.accept, x.start = n.n, n.edges, n.accept, start
        return R.difference_witness(n1, n2) is None

    def trees(self, key):
        """maximal trees of look-ahead decisions: -> list of (root node, pre, [(leaf node, post, path text)])"""
        aut = self.m.auts[key]
        out_edges = {}
        guard_in = set()
        for s, d, lab in aut.edges:
            out_edges.setdefault(s, []).append((d, lab))
            if lab[0] == "e" and lab[1] is not None:
                guard_in.add(d)
        roots = [q for q, es in out_edges.items() if any(l[0] == "e" and l[1] is not None for _d, l in es) and q not in guard_in]
        res = []
        for q in roots:
            did0 = [l[1] for _d, l in out_edges[q] if l[0] == "e" and l[1] is not None][0]
            pre = aut.decisions[did0]["pre"]
            leaves = []

            def walk(node, post, path):
                es = [(d, l) for d, l in out_edges.get(node, []) if l[0] == "e" and l[1] is not None]
                if not es:
                    leaves.append((node, post, path))
                    return
                for d, l in es:
                    rec = aut.decisions[l[1]]
                    walk(d, rec["branches"][l[2]]["post"], path + ["L%d %s -> %s" % (rec["line"], rec["text"], l[2])])
            walk(q, pre, [])
            res.append((q, pre, leaves))
        return res

    def p2(self, key):
        """one obligation per decision tree.  For every look-ahead x the grammar allows at the root: the leaf x selects can continue
        with x, and every other leaf whose grammar continuation could also start with x has the same continuation language."""
        aut = self.m.auts[key]
        out = []
        spec_has_nobrace = R.mentions(self.m.spec_regex(key, self.anchors), ("N", "NOBRACE"))
        fol = self.follow[key]
        for q, pre, leaves in self.trees(key):
            preds = {leaf: conc(self.F[(key, leaf)], fol) for leaf, _p, _t in leaves}
            allx = set()
            for v in preds.values():
                allx |= v
            conflicts = []
            for x in sorted(allx):
                if not self.compatible(x, pre):
                    continue
                selected = [(leaf, path) for leaf, post, path in leaves if self.compatible(x, post)]
                owners = [(leaf, path) for leaf, post, path in leaves if x in preds[leaf]]
                for sel, spath in selected:
                    for own, opath in owners:
                        if own != sel and not self.same_continuation(key, own, sel):
                            conflicts.append({"lookahead": list(x), "selected": spath[-1] if spath else "?", "grammar_continues_at": opath[-1] if opath else "?"})
                if not selected and owners:
                    conflicts.append({"lookahead": list(x), "selected": None, "grammar_continues_at": owners[0][1][-1] if owners[0][1] else "?"})
            rec0 = [aut.decisions[l[1]] for _d, l in [(d, l) for s, d, l in aut.edges if s == q] if l[0] == "e" and l[1] is not None][0]
            res = {"decision": "L%d %s (%d leaves)" % (rec0["line"], rec0["text"], len(leaves)), "holds": not conflicts, "conflicts": conflicts[:4],
                   "lookaheads": len(allx), "resolved": None}
            if conflicts and spec_has_nobrace and all(c["lookahead"] and c["lookahead"][0] == "CurlyOpen" for c in conflicts):
                res["holds"] = True
                res["resolved"] = "`{` after a body-less definition: resolved by the specification's look-ahead restriction (NOBRACE) in favour of the body"
            out.append(res)
        return out

    # -- P3 --------------------------------------------------------------------------------------------------------------
    def nullable(self, key):
        return () in self.F.get((key, 0), set())

    def p3(self, key):
        """cycles of the automaton that consume nothing; nullable left recursion through callees"""
        aut = self.m.auts[key]
        eps = {}
        for idx, (s, d, lab) in enumerate(aut.edges):
            silent = lab[0] == "e" or (lab[0] == "n" and () in self.edge_first(key, idx, lab))
            if silent:
                eps.setdefault(s, set()).add(d)
        bad = []
        for start in list(eps):
            seen, todo = set(), list(eps[start])
            while todo:
                q = todo.pop()
                if q == start:
                    bad.append(start)
                    break
                if q in seen:
                    continue
                seen.add(q)
                todo += list(eps.get(q, ()))
        return bad

    def left_calls(self, key):
        """callees reachable from the entry of `key` without consuming a token"""
        aut = self.m.auts[key]
        out, seen, todo = set(), set(), [0]
        while todo:
            q = todo.pop()
            if q in seen:
                continue
            seen.add(q)
            for idx, (s, d, lab) in enumerate(aut.edges):
                if s != q:
                    continue
                if lab[0] == "e":
                    todo.append(d)
                elif lab[0] == "n":
                    out.add((lab[1], lab[2]))
                    if () in self.edge_first(key, idx, lab):
                        todo.append(d)
        return out

    def left_recursion(self):
        graph = {k: self.left_calls(k) for k in self.m.auts}
        bad = []
        for k in graph:
            seen, todo = set(), list(graph[k])
            while todo:
                q = todo.pop()
                if q == k:
                    bad.append(k)
                    break
                if q in seen:
                    continue
                seen.add(q)
                todo += list(graph.get(q, ()))
        return bad

    # -- P0 --------------------------------------------------------------------------------------------------------------
    def p0(self, key):
        """call sites of methods with a look-ahead precondition establish it"""
        out = []
        for c in self.m.auts[key].callsites:
            pre = self.m.ex.pre.get(c["callee"])
            if pre is not None:
                out.append({"callee": c["callee"], "line": c["line"], "holds": c["la1"] is not None and c["la1"] <= pre,
                            "la1": sorted(c["la1"]) if c["la1"] is not None else None})
        return out
