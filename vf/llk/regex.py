"""Engine B, step 2: regular languages over grammar symbols.

Symbols: an abstract token ("atom", a string) or a nonterminal ('N', name).  Regular expressions are tuples:
('eps',) ('sym', symbol) ('set', frozenset of atoms) ('cat', (r, ...)) ('alt', (r, ...)) ('star', r) ('empty',).
NFAs: (n_states, start, accepting set, edges [(src, symbol or None, dst)]).
"""
import re

EPS = ("eps",)
EMPTY = ("empty",)


def cat(*rs):
    out = []
    for r in rs:
        if r == EMPTY:
            return EMPTY
        if r == EPS:
            continue
        if r[0] == "cat":
            out += list(r[1])
        else:
            out.append(r)
    if not out:
        return EPS
    return out[0] if len(out) == 1 else ("cat", tuple(out))


def alt(*rs):
    out = []
    for r in rs:
        if r == EMPTY:
            continue
        for x in (r[1] if r[0] == "alt" else (r,)):
            if x not in out:
                out.append(x)
    if not out:
        return EMPTY
    return out[0] if len(out) == 1 else ("alt", tuple(out))


def star(r):
    if r in (EPS, EMPTY):
        return EPS
    return r if r[0] == "star" else ("star", r)


def opt(r):
    return alt(EPS, r)


def plus(r):
    return cat(r, star(r))


def show(r, atoms_name=None):
    k = r[0]
    if k == "eps":
        return "ε"
    if k == "empty":
        return "∅"
    if k == "sym":
        s = r[1]
        return "<%s>" % s[1] if isinstance(s, tuple) else s
    if k == "set":
        a = sorted(r[1])
        if atoms_name:
            n = atoms_name(r[1])
            if n:
                return n
        return a[0] if len(a) == 1 else "{%s}" % ",".join(a) if len(a) <= 4 else "{%s,…%d}" % (",".join(a[:3]), len(a))
    if k == "cat":
        return " ".join(show(x, atoms_name) if x[0] != "alt" else "(" + show(x, atoms_name) + ")" for x in r[1])
    if k == "alt":
        if EPS in r[1]:
            rest = alt(*[x for x in r[1] if x != EPS])
            inner = show(rest, atoms_name)
            return ("(%s)?" if rest[0] in ("cat", "alt") else "%s?") % inner
        return " | ".join(show(x, atoms_name) for x in r[1])
    if k == "star":
        inner = show(r[1], atoms_name)
        return ("(%s)*" if r[1][0] in ("cat", "alt") else "%s*") % inner
    raise ValueError(r)


# ----------------------------------------------------------------------------------------------------------------------
# EBNF of the specification grammar -> regular right-hand sides

TOKEN_RE = re.compile(r"'[^']+'|\"[^\"]+\"|[A-Za-z_]+(?:\[[VK]\])?|[()|?+*]")


class SpecGrammar:
    """right-hand sides of spec/grammar.py GRAMMAR as regular expressions over terminals (atom sets) and nonterminals"""

    PUNCT = {"!": "ExclamationMark", "$": "Dollar", "(": "ParenOpen", ")": "ParenClose", "[": "BracketOpen", "]": "BracketClose", "{": "CurlyOpen",
             "}": "CurlyClose", ":": "Colon", "=": "Equals", "@": "At", "|": "Pipe", "&": "Ampersand", "...": "Ellip"}

    def __init__(self, grammar_text, names, fragment_variables):
        """names: all Name:* atoms of the code alphabet (the spec's keywords must be among them)"""
        self.names = frozenset(names)
        self.rhs = {}
        self.missing_keywords = set()
        text = grammar_text.replace("FragVars", "VariableDefinitions?" if fragment_variables else "")
        for line in text.strip().splitlines():
            line = line.strip()
            if not line:
                continue
            lhs, rhs = line.split(":=", 1)
            lhs = lhs.strip()
            variants = [("[V]", "[V]"), ("[K]", "[K]")] if "[C]" in lhs else [(None, None)]
            for a, _b in variants:
                l2 = lhs.replace("[C]", a) if a else lhs
                r2 = rhs.replace("[C]", a) if a else rhs
                toks = TOKEN_RE.findall(r2)
                r = self._alts(toks)
                assert not toks, (lhs, toks)
                self.rhs[l2] = alt(self.rhs[l2], r) if l2 in self.rhs else r

    def terminal(self, t):
        if t[0] == "'":
            return ("set", frozenset([self.PUNCT[t[1:-1]]]))
        if t[0] == '"':
            a = "Name:" + t[1:-1]
            if a not in self.names:
                self.missing_keywords.add(t[1:-1])
            return ("set", frozenset([a]))
        if t == "Name":
            return ("set", self.names)
        if t == "NameNotOn":
            return ("set", self.names - {"Name:on"})
        if t == "EnumName":
            return ("set", self.names - {"Name:true", "Name:false", "Name:null"})
        if t == "Int":
            return ("set", frozenset(["Integer"]))
        if t in ("Float", "String", "BlockString", "SOF", "EOF"):
            return ("set", frozenset([t]))
        if t == "NOBRACE":
            return ("sym", ("N", "NOBRACE"))
        return None

    def _alts(self, toks):
        alts = [self._seq(toks)]
        while toks and toks[0] == "|":
            toks.pop(0)
            alts.append(self._seq(toks))
        return alt(*alts)

    def _seq(self, toks):
        out = []
        while toks and toks[0] not in ("|", ")"):
            t = toks.pop(0)
            if t == "(":
                r = self._alts(toks)
                assert toks.pop(0) == ")"
            else:
                r = self.terminal(t)
                if r is None:
                    r = ("sym", ("N", t))
            while toks and toks[0] in "?+*":
                op = toks.pop(0)
                r = opt(r) if op == "?" else plus(r) if op == "+" else star(r)
            out.append(r)
        return cat(*out)

    def parse(self, text):
        toks = TOKEN_RE.findall(text)
        r = self._alts(toks)
        assert not toks, toks
        return r

    def expand(self, r, anchors, top_once=False, _stack=()):
        """replace nonterminals that are not anchors by their right-hand sides (recursively); with top_once also the anchors at the top level, once"""
        k = r[0]
        if k == "sym" and isinstance(r[1], tuple):
            name = r[1][1]
            if name == "NOBRACE":
                return r
            if name not in self.rhs:
                raise KeyError("nonterminal %s is not defined by the specification grammar" % name)
            if name in anchors and not top_once:
                return r
            if name in _stack:
                raise RecursionError("non-anchor nonterminal %s is recursive" % name)
            return self.expand(self.rhs[name], anchors, False, _stack + (name,))
        if k in ("cat", "alt"):
            f = cat if k == "cat" else alt
            return f(*[self.expand(x, anchors, top_once, _stack) for x in r[1]])
        if k == "star":
            return star(self.expand(r[1], anchors, top_once, _stack))
        return r


def erase(r, symbol):
    """replace a pseudo-symbol by ε"""
    k = r[0]
    if k == "sym" and r[1] == symbol:
        return EPS
    if k in ("cat", "alt"):
        f = cat if k == "cat" else alt
        return f(*[erase(x, symbol) for x in r[1]])
    if k == "star":
        return star(erase(r[1], symbol))
    return r


def mentions(r, symbol):
    if r[0] == "sym":
        return r[1] == symbol
    if r[0] in ("cat", "alt"):
        return any(mentions(x, symbol) for x in r[1])
    if r[0] == "star":
        return mentions(r[1], symbol)
    return False


# ----------------------------------------------------------------------------------------------------------------------
# NFA / DFA

class NFA:
    def __init__(self):
        self.n = 0
        self.edges = {}      # src -> list of (letter or None, dst)
        self.start = None
        self.accept = set()

    def new(self):
        self.n += 1
        return self.n - 1

    def add(self, a, letter, b):
        self.edges.setdefault(a, []).append((letter, b))

    def build(self, r, a, b):
        """adds paths from state a to state b spelling r"""
        k = r[0]
        if k == "eps":
            self.add(a, None, b)
        elif k == "empty":
            pass
        elif k == "sym":
            self.add(a, r[1], b)
        elif k == "set":
            for atom in r[1]:
                self.add(a, atom, b)
        elif k == "cat":
            cur = a
            for i, x in enumerate(r[1]):
                nxt = b if i == len(r[1]) - 1 else self.new()
                self.build(x, cur, nxt)
                cur = nxt
        elif k == "alt":
            for x in r[1]:
                self.build(x, a, b)
        elif k == "star":
            m = self.new()
            self.add(a, None, m)
            self.add(m, None, b)
            m2 = self.new()
            self.build(r[1], m, m2)
            self.add(m2, None, m)
        else:
            raise ValueError(r)

    @classmethod
    def of_regex(cls, r):
        n = cls()
        s, t = n.new(), n.new()
        n.start, n.accept = s, {t}
        n.build(r, s, t)
        return n

    def closure(self, states):
        seen = set(states)
        todo = list(states)
        while todo:
            q = todo.pop()
            for letter, d in self.edges.get(q, ()):
                if letter is None and d not in seen:
                    seen.add(d)
                    todo.append(d)
        return frozenset(seen)

    def step(self, states, letter):
        out = set()
        for q in states:
            for l, d in self.edges.get(q, ()):
                if l == letter:
                    out.add(d)
        return self.closure(out)

    def letters(self, states):
        out = set()
        for q in states:
            for l, _d in self.edges.get(q, ()):
                if l is not None:
                    out.add(l)
        return out


def difference_witness(n1, n2, limit=200000, want=None):
    """shortest word accepted by exactly one of the two NFAs (as a list of letters, plus which side accepts it), or None when equivalent;
    with want='first' / 'second' only words accepted by that side alone are returned"""
    s1, s2 = n1.closure([n1.start]), n2.closure([n2.start])
    seen = {(s1, s2)}
    todo = [(s1, s2, ())]
    i = 0
    while i < len(todo):
        a, b, word = todo[i]
        i += 1
        acc1, acc2 = bool(a & n1.accept), bool(b & n2.accept)
        if acc1 != acc2 and want in (None, "first" if acc1 else "second"):
            return list(word), ("first" if acc1 else "second")
        for letter in sorted(n1.letters(a) | n2.letters(b), key=repr):
            a2, b2 = n1.step(a, letter), n2.step(b, letter)
            if not a2 and not b2:
                continue
            if (a2, b2) not in seen:
                seen.add((a2, b2))
                todo.append((a2, b2, word + (letter,)))
                if len(todo) > limit:
                    raise MemoryError("product automaton too large")
    return None
