"""S4: input coercion of the June-2018 specification (sections 3.5-3.12 "Input Coercion", 6.1.2
CoerceVariableValues, 6.4.1 CoerceArgumentValues) as small pure functions, written from the
specification text.  Type information is read from py_gql type objects (names, wrappers, enum
values, input fields with python_name / defaults); nothing else of the library is used.
"""
from py_gql.lang import ast as A
from py_gql.schema import EnumType, InputObjectType, ListType, NonNullType, ScalarType

MIN_INT, MAX_INT = -2 ** 31, 2 ** 31 - 1
OMIT = object()


class Reject(Exception):
    pass


def _scalar_json(value, t):
    """natural JSON kinds only (the grids do not contain lenient cross-kind inputs)"""
    n = t.name
    if n == "Int":
        if isinstance(value, bool) or not isinstance(value, int) or not (MIN_INT <= value <= MAX_INT):
            raise Reject("Int")
        return value
    if n == "Float":
        if isinstance(value, bool) or not isinstance(value, (int, float)):
            raise Reject("Float")
        try:
            f = float(value)
        except OverflowError:
            raise Reject("Float")         # an integer beyond the range of a double
        if f != f or f in (float("inf"), float("-inf")):
            raise Reject("Float")         # not a finite IEEE 754 double (3.5.2)
        return f
    if n == "String":
        if not isinstance(value, str):
            raise Reject("String")
        return value
    if n == "Boolean":
        if not isinstance(value, bool):
            raise Reject("Boolean")
        return value
    if n == "ID":
        if isinstance(value, bool) or not isinstance(value, (str, int)):
            raise Reject("ID")
        return str(value)
    return value        # custom scalar: identity


def coerce_json(value, t):
    """variable route: JSON value -> internal value (Reject on failure)"""
    if isinstance(t, NonNullType):
        if value is None:
            raise Reject("null for non-null")
        return coerce_json(value, t.type)
    if value is None:
        return None
    if isinstance(t, ListType):
        if isinstance(value, (list, tuple)):
            return [coerce_json(v, t.type) for v in value]
        return [coerce_json(value, t.type)]
    if isinstance(t, EnumType):
        if not isinstance(value, str):
            raise Reject("enum needs a name")
        for ev in t.values:
            if ev.name == value:
                return ev.value
        raise Reject("unknown enum name")
    if isinstance(t, InputObjectType):
        if not isinstance(value, dict):
            raise Reject("object expected")
        names = {f.name for f in t.fields}
        for k in value:
            if k not in names:
                raise Reject("unknown field %s" % k)
        out = {}
        for f in t.fields:
            if f.name in value:
                out[f.python_name] = coerce_json(value[f.name], f.type)
            elif f.has_default_value:
                out[f.python_name] = f.default_value
            elif isinstance(f.type, NonNullType):
                raise Reject("missing required field %s" % f.name)
        return out
    if isinstance(t, ScalarType):
        return _scalar_json(value, t)
    raise Reject("not an input type")


def coerce_literal(node, t, variables):
    """literal route: AST value -> internal value.  `variables` holds already coerced values."""
    if isinstance(node, A.Variable):
        name = node.name.value
        if name not in variables:
            return OMIT
        v = variables[name]
        if v is None and isinstance(t, NonNullType):
            raise Reject("null variable for non-null")
        return v
    if isinstance(t, NonNullType):
        if isinstance(node, A.NullValue):
            raise Reject("null for non-null")
        return coerce_literal(node, t.type, variables)
    if isinstance(node, A.NullValue):
        return None
    if isinstance(t, ListType):
        if isinstance(node, A.ListValue):
            out = []
            for v in node.values:
                item = coerce_literal(v, t.type, variables)
                if item is OMIT:
                    if isinstance(t.type, NonNullType):
                        raise Reject("missing variable in non-null list position")
                    item = None
                out.append(item)
            return out
        item = coerce_literal(node, t.type, variables)
        return [item]
    if isinstance(t, EnumType):
        if not isinstance(node, A.EnumValue):
            raise Reject("enum literal expected")
        for ev in t.values:
            if ev.name == node.value:
                return ev.value
        raise Reject("unknown enum name")
    if isinstance(t, InputObjectType):
        if not isinstance(node, A.ObjectValue):
            raise Reject("object literal expected")
        given = {f.name.value: f.value for f in node.fields}
        names = {f.name for f in t.fields}
        for k in given:
            if k not in names:
                raise Reject("unknown field %s" % k)
        out = {}
        for f in t.fields:
            v = coerce_literal(given[f.name], f.type, variables) if f.name in given else OMIT
            if v is OMIT:
                if f.has_default_value:
                    out[f.python_name] = f.default_value
                elif isinstance(f.type, NonNullType):
                    raise Reject("missing required field %s" % f.name)
            else:
                out[f.python_name] = v
        return out
    if isinstance(t, ScalarType):
        n = t.name
        if n == "Int":
            if not isinstance(node, A.IntValue) or not (MIN_INT <= int(node.value) <= MAX_INT):
                raise Reject("Int literal")
            return int(node.value)
        if n == "Float":
            if not isinstance(node, (A.IntValue, A.FloatValue)):
                raise Reject("Float literal")
            f = float(node.value)
            if f != f or f in (float("inf"), float("-inf")):
                raise Reject("Float literal beyond the range of a finite double")
            return f
        if n == "String":
            if not isinstance(node, A.StringValue):
                raise Reject("String literal")
            return node.value
        if n == "Boolean":
            if not isinstance(node, A.BooleanValue):
                raise Reject("Boolean literal")
            return node.value
        if n == "ID":
            if not isinstance(node, (A.StringValue, A.IntValue)):
                raise Reject("ID literal")
            return str(node.value)
        return untyped(node, variables)
    raise Reject("not an input type")


def untyped(node, variables):
    if isinstance(node, A.Variable):
        return variables.get(node.name.value)
    if isinstance(node, A.NullValue):
        return None
    if isinstance(node, A.IntValue):
        return int(node.value)
    if isinstance(node, A.FloatValue):
        return float(node.value)
    if isinstance(node, A.ListValue):
        return [untyped(v, variables) for v in node.values]
    if isinstance(node, A.ObjectValue):
        return {f.name.value: untyped(f.value, variables) for f in node.fields}
    return node.value


def coerce_arguments(definition, node, variables):
    """CoerceArgumentValues(objectType, field, variableValues) -> dict keyed by python_name"""
    given = {a.name.value: a.value for a in node.arguments}
    out = {}
    for arg in definition.arguments:
        has_value = arg.name in given
        value = None
        if has_value:
            vnode = given[arg.name]
            if isinstance(vnode, A.Variable):
                has_value = vnode.name.value in variables
                value = variables.get(vnode.name.value)
            else:
                value = coerce_literal(vnode, arg.type, variables)
        if not has_value and arg.has_default_value:
            out[arg.python_name] = arg.default_value
        elif isinstance(arg.type, NonNullType) and (not has_value or value is None):
            raise Reject("argument %s of non-null type is missing or null" % arg.name)
        elif has_value:
            out[arg.python_name] = value
    return out


def conforms(value, t):
    """the value handed to a resolver conforms to input type t"""
    if isinstance(t, NonNullType):
        return value is not None and conforms(value, t.type)
    if value is None:
        return True
    if isinstance(t, ListType):
        return isinstance(value, list) and all(conforms(v, t.type) for v in value)
    if isinstance(t, EnumType):
        return any(ev.value == value and type(ev.value) is type(value) for ev in t.values)
    if isinstance(t, InputObjectType):
        if not isinstance(value, dict):
            return False
        by_py = {f.python_name: f for f in t.fields}
        if any(k not in by_py for k in value):
            return False
        for f in t.fields:
            if f.python_name in value:
                if not conforms(value[f.python_name], f.type):
                    return False
            elif f.has_default_value or isinstance(f.type, NonNullType):
                return False         # declared defaults must be filled in; required fields present
        return True
    if isinstance(t, ScalarType):
        n = t.name
        if n == "Int":
            return isinstance(value, int) and not isinstance(value, bool) and MIN_INT <= value <= MAX_INT
        if n == "Float":
            return isinstance(value, float)
        if n == "String":
            return isinstance(value, str)
        if n == "Boolean":
            return isinstance(value, bool)
        if n == "ID":
            return isinstance(value, str)
        return True
    return False
