"""G1: derivation enumeration over the specification grammar (spec/grammar.py).

variants(sym, depth) returns a bounded list of token tuples derivable from `sym`, built so that
every alternative of every production occurs, in a minimal context and one-factor-at-a-time in
richer ones; token classes are rendered with lexemes that include keywords used as plain names,
every string form and number form.  Negative inputs are single-token edits, judged by Earley.
"""
import itertools
import random

from spec import grammar as G

NAMES = ["a", "B1", "_x", "on", "type", "true", "fragment", "query", "null", "extend", "implements",
         "schema", "input", "enum", "false", "directive", "union", "scalar", "interface", "mutation", "subscription", "c"]
INTS = ["0", "-12", "7"]
FLOATS = ["1.5", "-0.0e+10", "2E5"]
STRINGS = ['"s"', '""', '"\\u00e9\\n\\""', '"on"', '"implements"']
BLOCKS = ['"""b"""', '"""\n  a\n   b\n  """', '"""on"""']


class Enumerator:
    def __init__(self, grammar, seed=0, cap=60):
        self.g = grammar
        self.cap = cap
        self.rnd = random.Random(seed)
        self.memo = {}
        self.counter = itertools.count()
        self.min_memo = {}

    # lexemes -------------------------------------------------------------------------
    def lexemes(self, sym):
        kind, v = sym
        if kind == "la":
            return []
        if kind in "pk":
            return [v]
        if v == "Name":
            return NAMES
        if v == "NameNotOn":
            return [n for n in NAMES if n != "on"]
        if v == "EnumName":
            return [n for n in NAMES if n not in ("true", "false", "null")]
        return {"Int": INTS, "Float": FLOATS, "String": STRINGS, "BlockString": BLOCKS}[v]

    def pick(self, sym):
        lx = self.lexemes(sym)
        return lx[next(self.counter) % len(lx)]

    def tok(self, sym, lexeme):
        kind, v = sym
        if kind == "p":
            return ("P", lexeme)
        if kind == "k":
            return ("Name", lexeme)
        return ("Name" if v in ("Name", "NameNotOn", "EnumName") else v, lexeme)

    # minimal derivation ------------------------------------------------------------------
    def minimal(self, sym, stack=()):
        if not isinstance(sym, str):
            if sym[0] == "la":
                return ()
            return (self.tok(sym, self.lexemes(sym)[0]),)
        if sym in self.min_memo:
            return self.min_memo[sym]
        best = None
        for rhs in self.g.prods[sym]:
            if any(isinstance(s, str) and s in stack + (sym,) for s in rhs):
                continue
            parts = [self.minimal(s, stack + (sym,)) for s in rhs]
            if any(p is None for p in parts):
                continue
            cand = tuple(itertools.chain.from_iterable(parts))
            if best is None or len(cand) < len(best):
                best = cand
        if not stack:
            self.min_memo[sym] = best
        return best

    # variants --------------------------------------------------------------------------
    def variants(self, sym, depth):
        if not isinstance(sym, str):
            if sym[0] == "la":
                return [()]
            return [(self.tok(sym, lx),) for lx in self.lexemes(sym)][:6] if depth > 0 else [(self.tok(sym, self.pick(sym)),)]
        key = (sym, depth)
        if key in self.memo:
            return self.memo[key]
        self.memo[key] = [self.minimal(sym)]       # cycle guard
        out, seen = [], set()

        def add(t):
            if t not in seen and len(t) <= 60:
                seen.add(t)
                out.append(t)
        for rhs in self.g.prods[sym]:
            mins = [self.minimal(s) for s in rhs]
            add(tuple(itertools.chain.from_iterable(mins)))
            if depth <= 0:
                continue
            child = [self.variants(s, depth - 1) for s in rhs]
            for i, vs in enumerate(child):          # one factor at a time
                for v in vs:
                    add(tuple(itertools.chain.from_iterable(mins[:i] + [v] + mins[i + 1:])))
            for _ in range(min(8, self.cap // 4)):   # a few full random combinations
                add(tuple(itertools.chain.from_iterable(self.rnd.choice(vs) for vs in child)))
        if len(out) > self.cap:
            keep = out[: self.cap // 2]
            rest = out[self.cap // 2:]
            self.rnd.shuffle(rest)
            out = keep + rest[: self.cap - len(keep)]
        self.memo[key] = out
        return out


FILLERS = [" ", "\n", ",", " # c\n", "\t", "\ufeff", "\r\n", " ,, "]


def render(tokens, filler=" ", tight=False):
    """token tuple -> text.  tight: no separator where two tokens cannot merge lexically."""
    out = []
    prev = None
    for kind, lx in tokens:
        if prev is not None:
            if tight and (prev[0] == "P" or kind == "P") and not (prev[1] == "..." and lx == "...") \
                    and not (prev[0] in ("Int", "Float") and lx == "..."):
                pass
            else:
                out.append(filler)
        out.append(lx)
        prev = (kind, lx)
    return "".join(out)


def edits(tokens, rnd, pool):
    """single-token deletions, duplications, adjacent swaps and substitutions"""
    n = len(tokens)
    for i in range(n):
        yield tokens[:i] + tokens[i + 1:]
    for i in range(n):
        yield tokens[:i + 1] + tokens[i:]
    for i in range(n - 1):
        yield tokens[:i] + (tokens[i + 1], tokens[i]) + tokens[i + 2:]
    for i in range(n):
        yield tokens[:i] + (rnd.choice(pool),) + tokens[i + 1:]


EDIT_POOL = [("P", p) for p in "!$()[]{}:=@|&"] + [("P", "...")] + [("Name", n) for n in ("a", "on", "type", "true", "implements", "query", "extend", "fragment")] + \
            [("Int", "1"), ("Float", "1.5"), ("String", '"on"'), ("String", '"implements"'), ("BlockString", '"""on"""'), ("String", '"s"')]


def corpus(tier, seed, fragment_variables=False):
    """(entry, token tuple) pairs: positives from every start symbol"""
    g = G.grammar(fragment_variables)
    depth, cap = (4, 120) if tier == "thorough" else (3, 60)
    en = Enumerator(g, seed, cap)
    out = []
    for entry, start, d in (("document", "Document", depth), ("value", "ValueDocument", depth), ("type", "TypeDocument", depth)):
        for t in en.variants(start, d):
            out.append((entry, t))
    # every definition kind directly (richer than through Document's cap)
    for nt in ("OperationDefinition", "FragmentDefinition", "SchemaDefinition", "SchemaExtension", "ScalarTypeDefinition",
               "ScalarTypeExtension", "ObjectTypeDefinition", "ObjectTypeExtension", "InterfaceTypeDefinition",
               "InterfaceTypeExtension", "UnionTypeDefinition", "UnionTypeExtension", "EnumTypeDefinition", "EnumTypeExtension",
               "InputObjectTypeDefinition", "InputObjectTypeExtension", "DirectiveDefinition", "Field", "InlineFragment",
               "FragmentSpread", "VariableDefinition"):
        for t in en.variants(nt, depth):
            if nt in ("Field", "InlineFragment", "FragmentSpread"):
                t = (("P", "{"),) + t + (("P", "}"),)
            elif nt == "VariableDefinition":
                t = (("Name", "query"), ("P", "(")) + t + (("P", ")"), ("P", "{"), ("Name", "a"), ("P", "}"))
            out.append(("document", t))
    seen, uniq = set(), []
    for e, t in out:
        if (e, t) not in seen:
            seen.add((e, t))
            uniq.append((e, t))
    return uniq
