"""S3: the specification's execution algorithms (June 2018, section 6) as pure functions.

ExecuteRequest / CollectFields / ExecuteSelectionSet / ResolveFieldValue / CompleteValue /
ResolveAbstractType / serial mutation execution, written from the specification text over
py_gql's parsed AST and type objects (names, wrappers, fields, possible types: established by
C01/C02/C11).  One documented deviation, fixed by property C04 itself: a null in a non-null
position is recorded as an error and left in place - it does NOT propagate to the parent.

A request's resolver behaviour is a *world*: response path (tuple) -> outcome
    ("value", v) | ("null",) | ("error", message, extensions-or-None) | ("boom", message)
with deterministic type-driven defaults for every path the world does not mention.
"""
from collections import OrderedDict

from py_gql.lang import ast as A
from py_gql.schema import (EnumType, InterfaceType, ListType, NonNullType, ObjectType, ScalarType, UnionType)

from . import ref_coerce as RC


class Boom(Exception):
    """an unexpected (non ResolverError) exception: the whole request fails"""


class RequestError(Exception):
    """operation selection / variable coercion failure: data is null, errors reported"""

    def __init__(self, kind, messages):
        Exception.__init__(self, kind)
        self.kind, self.messages = kind, messages


def named(t):
    while isinstance(t, (ListType, NonNullType)):
        t = t.type
    return t


def default_value(schema, parent_type, field_def, path):
    """deterministic value for a field the world does not mention"""
    return _default_for(schema, field_def.type, path, 0)


def _default_for(schema, t, path, salt):
    if isinstance(t, NonNullType):
        return _default_for(schema, t.type, path, salt)
    if isinstance(t, ListType):
        return [_default_for(schema, t.type, path + (i,), salt + i) for i in range(2)]
    if isinstance(t, ScalarType):
        return {"Int": len(path) + salt, "Float": 1.5 + salt, "String": "s%d" % (len(path) + salt), "Boolean": (len(path) + salt) % 2 == 0,
                "ID": "id%d" % salt}.get(t.name, {"k": salt})
    if isinstance(t, EnumType):
        vals = list(t.values)
        return vals[(len(path) + salt) % len(vals)].value
    if isinstance(t, ObjectType):
        return {"__typename__": t.name}
    if isinstance(t, (InterfaceType, UnionType)):
        poss = sorted(schema.get_possible_types(t), key=lambda x: x.name)
        return {"__typename__": poss[(len(path) + salt) % len(poss)].name}
    raise TypeError(t)


def does_fragment_type_apply(schema, object_type, type_cond_name):
    t = schema.types.get(type_cond_name)
    if t is None:
        return False
    if t is object_type:
        return True
    if isinstance(t, (InterfaceType, UnionType)):
        return object_type in schema.get_possible_types(t)
    return False


def _skipped(node, variables):
    for d in node.directives:
        if d.name.value in ("skip", "include"):
            for a in d.arguments:
                if a.name.value == "if":
                    v = variables.get(a.value.name.value) if isinstance(a.value, A.Variable) else a.value.value
                    if d.name.value == "skip" and v is True:
                        return True
                    if d.name.value == "include" and v is not True:
                        return True
    return False


def collect_fields(schema, doc, object_type, selections, variables, visited=None):
    visited = set() if visited is None else visited
    grouped = OrderedDict()
    frags = {d.name.value: d for d in doc.definitions if isinstance(d, A.FragmentDefinition)}
    for sel in selections:
        if _skipped(sel, variables):
            continue
        if isinstance(sel, A.Field):
            key = sel.alias.value if sel.alias else sel.name.value
            grouped.setdefault(key, []).append(sel)
        elif isinstance(sel, A.FragmentSpread):
            name = sel.name.value
            if name in visited:
                continue
            visited.add(name)
            frag = frags.get(name)
            if frag is None or not does_fragment_type_apply(schema, object_type, frag.type_condition.name.value):
                continue
            for k, v in collect_fields(schema, doc, object_type, frag.selection_set.selections, variables, visited).items():
                grouped.setdefault(k, []).extend(v)
        elif isinstance(sel, A.InlineFragment):
            if sel.type_condition is not None and not does_fragment_type_apply(schema, object_type, sel.type_condition.name.value):
                continue
            for k, v in collect_fields(schema, doc, object_type, sel.selection_set.selections, variables, visited).items():
                grouped.setdefault(k, []).extend(v)
    return grouped


class Execution:
    def __init__(self, schema, doc, variables, world, introspection=True):
        self.schema, self.doc, self.variables, self.world = schema, doc, variables, world
        self.errors = []          # (path tuple, kind, message, (line, col) or None)
        self.trace = []           # resolver-visible events: ("invoke", path, args)
        self.visited = []         # (path, parent type name, field name, field type) of every resolved field
        self.introspection = introspection
        self.ambiguous = []       # response paths whose merged field nodes disagree on field name / arguments

    # -- 6.4.2 ResolveFieldValue ------------------------------------------------------------
    def resolve(self, object_type, parent, field_def, args, path):
        self.trace.append(("invoke", path, dict(args)))
        oc = self.world.get(path)
        if oc is None and "__fn__" in self.world:
            oc = self.world["__fn__"](parent, field_def.name, path)     # behaviour given as a function of the parent value
        if oc is None:
            if isinstance(parent, dict) and field_def.name in parent:
                return parent[field_def.name]
            return default_value(self.schema, object_type, field_def, path)
        if oc[0] == "value":
            return oc[1]
        if oc[0] == "null":
            return None
        if oc[0] == "error":
            raise FieldError(oc[1], oc[2] if len(oc) > 2 else None)
        if oc[0] == "shared-error":
            raise FieldError(oc[1], None)
        if oc[0] == "gen-error":
            return GenFail(list(oc[1]))
        if oc[0] == "boom":
            raise Boom(oc[1])
        raise ValueError(oc)

    def field_error(self, path, kind, message, node, extensions=None):
        self.errors.append((path, kind, message, node.loc[0] if node is not None and node.loc else None, extensions))

    # -- 6.3 ExecuteSelectionSet ---------------------------------------------------------------
    def execute_selection_set(self, object_type, parent, selections, path):
        grouped = collect_fields(self.schema, self.doc, object_type, selections, self.variables)
        out = OrderedDict()
        for key, nodes in grouped.items():
            name = nodes[0].name.value
            if len({(n.name.value, tuple(sorted((a.name.value, _print(a.value)) for a in n.arguments))) for n in nodes}) > 1:
                self.ambiguous.append(path + (key,))
            if name == "__typename":
                out[key] = object_type.name
                continue
            field_def = object_type.field_map.get(name)
            if field_def is None:
                if name in ("__schema", "__type") and object_type is self.schema.query_type:
                    out[key] = INTROSPECTION        # delegated: compared separately (C15)
                continue
            out[key] = self.execute_field(object_type, parent, field_def, nodes, path + (key,))
        return out

    def execute_field(self, object_type, parent, field_def, nodes, path):
        node = nodes[0]
        self.visited.append((path, object_type.name, field_def.name, field_def.type))
        try:
            args = RC.coerce_arguments(field_def, node, self.variables)
        except RC.Reject as e:
            self.field_error(path, "coercion", str(e), node)
            return None
        try:
            value = self.resolve(object_type, parent, field_def, args, path)
        except FieldError as e:
            self.field_error(path, "resolver", e.message, node, e.extensions)
            return None
        try:
            return self.complete(field_def.type, nodes, value, path)
        except GenFailed:
            # the list value failed with the resolver error while it was being consumed: a field error of THIS field (null + one error at its
            # path); what was completed of the items before the failure stays done (their resolvers ran, their errors are recorded)
            self.field_error(path, "resolver", "generator failed", node, None)
            return None

    # -- 6.4.3 CompleteValue ---------------------------------------------------------------------
    def complete(self, t, nodes, value, path):
        if isinstance(t, NonNullType):
            done = self.complete(t.type, nodes, value, path)
            if done is None:
                self.field_error(path, "non-null", "not nullable", nodes[0])
            return done                      # library semantics: no propagation
        if value is None:
            return None
        if isinstance(t, ListType) and isinstance(value, GenFail):
            for i, v in enumerate(value.items):
                self.complete(t.type, nodes, v, path + (i,))
            raise GenFailed()
        if isinstance(t, ListType):
            if isinstance(value, (str, dict)) or not hasattr(value, "__iter__"):
                raise Boom("list field resolved to a non-iterable")
            return [self.complete(t.type, nodes, v, path + (i,)) for i, v in enumerate(value)]
        if isinstance(t, ScalarType):
            try:
                return serialize(t, value)
            except Boom as e:
                raise Boom("unrepresentable leaf at %r: %s" % (path, e))
        if isinstance(t, EnumType):
            for ev in t.values:
                if ev.value == value:
                    return ev.name
            raise Boom("unrepresentable leaf at %r: unknown enum value" % (path,))
        if isinstance(t, ObjectType):
            rt = t
        else:
            name = value.get("__typename__") if isinstance(value, dict) else getattr(value, "__typename__", None)
            rt = self.schema.types.get(name)
            if not isinstance(rt, ObjectType) or rt not in self.schema.get_possible_types(t):
                raise Boom("abstract type resolved to %r" % (name,))
        sels = [s for n in nodes if n.selection_set for s in n.selection_set.selections]
        return self.execute_selection_set(rt, value, sels, path)


class GenFail:
    """a list value that yields `items` and then fails with the library's resolver error"""

    def __init__(self, items):
        self.items = items


class GenFailed(Exception):
    pass


INTROSPECTION = object()


def _print(value_node):
    from py_gql.lang import print_ast
    return print_ast(value_node)


class FieldError(Exception):
    def __init__(self, message, extensions=None):
        Exception.__init__(self, message)
        self.message, self.extensions = message, extensions


VOID = "__VOID__"


def serialize_any(v):
    """serialiser installed on the harness schema's custom scalar: one internal value has no external representation"""
    return None if v == VOID else v


def serialize(t, v):
    n = t.name
    if n == "Any":
        return serialize_any(v)
    if n == "Int":
        if isinstance(v, bool):
            return int(v)       # result coercion may turn a boolean into 1 / 0 (3.5.1); what it may not do is answer `true` in an Int position
        if not isinstance(v, int) or not (RC.MIN_INT <= v <= RC.MAX_INT):
            if isinstance(v, float) and v == int(v) and RC.MIN_INT <= v <= RC.MAX_INT:
                return int(v)
            raise Boom("Int cannot represent %r" % (v,))
        return v
    if n == "Float":
        return float(v)
    if n == "String":
        return str(v) if not isinstance(v, bool) else str(v).lower()
    if n == "Boolean":
        return bool(v)
    if n == "ID":
        return str(v)
    return v


def get_operation(doc, operation_name):
    ops = [d for d in doc.definitions if isinstance(d, A.OperationDefinition)]
    if operation_name is None:
        if len(ops) != 1:
            raise RequestError("operation", ["operation name required"])
        return ops[0]
    for o in ops:
        if o.name is not None and o.name.value == operation_name:
            return o
    raise RequestError("operation", ["unknown operation"])


def coerce_variable_values(schema, op, raw):
    """6.1.2 CoerceVariableValues"""
    raw = raw or {}
    out, errs = {}, []
    for vd in op.variable_definitions:
        name = vd.variable.name.value
        t = schema.get_type_from_literal(vd.type)
        if name not in raw:
            if vd.default_value is not None:
                out[name] = RC.coerce_literal(vd.default_value, t, {})
            elif isinstance(t, NonNullType):
                errs.append("missing $%s" % name)
        else:
            try:
                out[name] = RC.coerce_json(raw[name], t)
            except RC.Reject as e:
                errs.append("$%s: %s" % (name, e))
    if errs:
        raise RequestError("variables", errs)
    return out


def execute_request(schema, doc, operation_name=None, raw_variables=None, world=None, initial=None):
    """returns (data, errors, execution).  Raises Boom for unexpected resolver failures, RequestError otherwise."""
    op = get_operation(doc, operation_name)
    variables = coerce_variable_values(schema, op, raw_variables)
    root_type = {"query": schema.query_type, "mutation": schema.mutation_type, "subscription": schema.subscription_type}[op.operation]
    if root_type is None:
        raise RequestError("operation", ["schema has no %s root" % op.operation])
    ex = Execution(schema, doc, variables, world or {})
    data = ex.execute_selection_set(root_type, initial, op.selection_set.selections, ())
    return data, ex.errors, ex
