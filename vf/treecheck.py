"""C02 contracts on parser results: the tree mirrors the source text.

For a text T accepted by the parser and its tree (positions enabled) every node n with span (s, e):
  span-in-text      0 <= s < e <= len(T), T[s:e] starts at a token start and ends at a token end
                    (token boundaries of the *specification's* tokenisation of T)
  nesting/order     children lie inside the parent's span; list members are in source order and disjoint
  leaf decoding     names, numbers, enum values verbatim; strings decoded by the lexical specification
                    (spec/lexical.str_val, spec/blockstring.block_string_value); booleans; `block` flag
  reparse           the spanned text parses back (through the matching entry point / wrapper) to a
                    node equal to n up to positions
  no_location       with positions disabled every loc is None and the tree is otherwise identical
"""
import spec.blockstring as SB
import spec.lexical as SL

from py_gql.lang import ast as A
from py_gql.lang import parser as P


def children(node):
    for attr in node.__slots__:
        if attr in ("source", "loc"):
            continue
        v = getattr(node, attr)
        if isinstance(v, A.Node):
            yield attr, None, v
        elif isinstance(v, (list, tuple)):
            for i, x in enumerate(v):
                if isinstance(x, A.Node):
                    yield attr, i, x


def walk(node, path=()):
    yield path, node
    for attr, i, c in children(node):
        yield from walk(c, path + ((attr, i),))


def strip(d):
    """to_dict() without positions"""
    if isinstance(d, dict):
        return {k: strip(v) for k, v in d.items() if k != "loc"}
    if isinstance(d, list):
        return [strip(x) for x in d]
    return d


def token_bounds(text):
    starts, ends, q = set(), set(), 0
    while True:
        k, a, b = SL.lex(text, q)
        if k in (SL.K_EOF, SL.K_ERROR):
            return starts, ends
        starts.add(a)
        ends.add(b)
        q = b


def _first(doc_nodes):
    return doc_nodes[0]


def reparse(node, frag, flags):
    """re-parse the spanned text of `node` through a wrapper; returns the corresponding node"""
    kw = dict(flags)
    kw["no_location"] = True
    if isinstance(node, A.Document):
        return P.parse(frag, **kw)
    if isinstance(node, A.Definition):
        return P.parse(frag, **kw).definitions[0]
    if isinstance(node, (A.Value, A.Variable)):
        return P.parse_value(frag, **kw)
    if isinstance(node, A.Type):
        return P.parse_type(frag, **kw)
    if isinstance(node, A.SelectionSet):
        return P.parse(frag, **kw).definitions[0].selection_set
    if isinstance(node, A.Selection):
        return P.parse("{" + frag + "}", **kw).definitions[0].selection_set.selections[0]
    if isinstance(node, A.Argument):
        return P.parse("{f(" + frag + ")}", **kw).definitions[0].selection_set.selections[0].arguments[0]
    if isinstance(node, A.Directive):
        return P.parse("{f " + frag + "}", **kw).definitions[0].selection_set.selections[0].directives[0]
    if isinstance(node, A.VariableDefinition):
        return P.parse("query (" + frag + ") {f}", **kw).definitions[0].variable_definitions[0]
    if isinstance(node, A.ObjectField):
        return P.parse_value("{" + frag + "}", **kw).fields[0]
    if isinstance(node, A.FieldDefinition):
        return P.parse("type T {" + frag + "}", **dict(kw, allow_type_system=True)).definitions[0].fields[0]
    if isinstance(node, A.InputValueDefinition):
        return P.parse("input T {" + frag + "}", **dict(kw, allow_type_system=True)).definitions[0].fields[0]
    if isinstance(node, A.EnumValueDefinition):
        return P.parse("enum E {" + frag + "}", **dict(kw, allow_type_system=True)).definitions[0].values[0]
    if isinstance(node, A.OperationTypeDefinition):
        return P.parse("schema {" + frag + "}", **dict(kw, allow_type_system=True)).definitions[0].operation_types[0]
    if isinstance(node, A.Name):
        return A.Name(value=P.parse("{" + frag + "}", **kw).definitions[0].selection_set.selections[0].name.value)
    return None


def check_tree(text, doc, flags):
    """returns list of (clause, detail) contract failures for a located tree `doc` of `text`"""
    fails = []
    starts, ends = token_bounds(text)
    n = len(text)
    for path, node in walk(doc):
        kind = type(node).__name__
        loc = node.loc
        where = "%s at %s" % (kind, "/".join("%s[%s]" % (a, i) if i is not None else a for a, i in path) or "<root>")
        if not (isinstance(loc, tuple) and len(loc) == 2 and isinstance(loc[0], int) and isinstance(loc[1], int)):
            fails.append(("tree:span-in-text", "%s has loc %r" % (where, loc)))
            continue
        s, e = loc
        if isinstance(node, A.Document):
            # a document spans the whole token range: first token start to last token end (SOF..EOF in py_gql)
            if not (0 <= s <= e <= n):
                fails.append(("tree:span-in-text", "%s spans %r in a text of length %d" % (where, loc, n)))
            continue
        if not (0 <= s < e <= n and s in starts and e in ends):
            fails.append(("tree:span-in-text", "%s spans %r which is not first-token-start .. last-token-end" % (where, loc)))
            continue
        frag = text[s:e]
        if node.source is not None and node.source != text:
            fails.append(("tree:source", "%s.source is not the parsed text" % where))
        # nesting and order
        prev_end = {}
        for attr, i, c in children(node):
            if not isinstance(c.loc, tuple):
                continue
            cs, ce = c.loc
            if not (s <= cs and ce <= e):
                fails.append(("tree:nesting", "%s: child %s[%s] spans %r outside the parent span %r" % (where, attr, i, c.loc, loc)))
            if i is not None:
                if attr in prev_end and cs < prev_end[attr]:
                    fails.append(("tree:order", "%s: %s[%d] starts at %d before the previous member ends (%d)" % (where, attr, i, cs, prev_end[attr])))
                prev_end[attr] = ce
        # leaves
        if isinstance(node, A.Name) and node.value != frag:
            fails.append(("tree:leaf-verbatim", "%s value %r but source says %r" % (where, node.value, frag)))
        if isinstance(node, (A.IntValue, A.FloatValue, A.EnumValue)) and node.value != frag:
            fails.append(("tree:leaf-verbatim", "%s value %r but source says %r" % (where, node.value, frag)))
        if isinstance(node, A.BooleanValue) and node.value is not (frag == "true"):
            fails.append(("tree:leaf-verbatim", "%s value %r but source says %r" % (where, node.value, frag)))
        if isinstance(node, A.StringValue):
            block = text.startswith('"""', s)
            want = SB.block_string_value(SL.block_raw(text, s + 3)) if block else SL.str_val(text, s + 1)
            if node.value != want:
                fails.append(("tree:string-decoded", "%s value %r but the specification decodes %r to %r" % (where, node.value, frag, want)))
            if bool(node.block) != block:
                fails.append(("tree:string-decoded", "%s block flag %r for %r" % (where, node.block, frag[:12])))
        if isinstance(node, A.OperationDefinition):
            k0, a0, b0 = SL.lex(frag, 0)
            first = frag[a0:b0]
            want = first if k0 == SL.K_NAME and first in ("query", "mutation", "subscription") else "query"
            if node.operation != want:
                fails.append(("tree:operation-kind", "%s operation %r but source says %r" % (where, node.operation, want)))
        # reparse
        try:
            again = reparse(node, frag, flags)
        except Exception as ex:
            fails.append(("tree:reparse", "%s: spanned text %r does not parse back: %r" % (where, frag[:60], ex)))
            continue
        if again is not None and strip(again.to_dict()) != strip(node.to_dict()):
            fails.append(("tree:reparse", "%s: spanned text %r parses back to a different node" % (where, frag[:60])))
    return fails


def check_no_location(text, doc, entry, flags):
    fails = []
    call = {"document": P.parse, "value": P.parse_value, "type": P.parse_type}[entry]
    bare = call(text, no_location=True, **flags)
    for path, node in walk(bare):
        if node.loc is not None:
            fails.append(("tree:no-location", "%s has loc %r with positions disabled" % (type(node).__name__, node.loc)))
            break
    if strip(bare.to_dict()) != strip(doc.to_dict()):
        fails.append(("tree:no-location", "the tree without positions differs from the located tree"))
    return fails
