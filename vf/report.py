"""Verdicts, known findings, replay files and evidence for one property check.

Exit codes: 0 held (possibly with KNOWN-FINDING lines) · 1 violation(s) · 3 machinery defect.
"""
import fnmatch
import json
import os
import sys
import time
import traceback

ROOT = os.path.dirname(os.path.dirname(os.path.abspath(__file__)))
KNOWN_FILE = os.path.join(ROOT, "known_findings.json")
# sweeps over seeded changes run against scratch copies of the repository and write elsewhere (VF_REPO / VF_OUT)
OUT = os.environ.get("VF_OUT") or ROOT


class MachineryDefect(Exception):
    pass


def load_known(pid):
    try:
        with open(KNOWN_FILE) as f:
            data = json.load(f)
    except FileNotFoundError:
        return []
    return [k for k in data.get("findings", []) if k.get("property") == pid and k.get("status") == "known"]


class Run:
    def __init__(self, pid, tier="quick", seed=0):
        self.pid, self.tier, self.seed = pid, tier, seed
        self.t0 = time.time()
        self.known = load_known(pid)
        self.known_hits = {}          # finding id -> count
        self.violations = []          # dicts
        self.cov = {
            "functions_under_contract": [], "obligations": 0, "discharged": 0, "refuted_known": 0,
            "backends": {}, "solver_time_s": 0.0, "bounded_functions": [], "degraded_functions": [],
            "evaluations": 0, "distinct_nontrivial": 0, "samples": [], "trusted_base": [],
            "undecided": [], "known_findings_reproduced": [], "parts": {},
        }
        self.assumptions = []
        self.notes = []
        self._sample_keys = set()
        os.makedirs(os.path.join(OUT, "replays", pid), exist_ok=True)
        for old in os.listdir(os.path.join(OUT, "replays", pid)):      # replay files describe the latest run only
            if old.endswith(".json"):
                os.unlink(os.path.join(OUT, "replays", pid, old))
        os.makedirs(os.path.join(OUT, "evidence"), exist_ok=True)

    # ------------------------------------------------------------------------------
    def sample(self, obj, limit=12):
        key = json.dumps(obj, sort_keys=True, default=str)[:400]
        if key in self._sample_keys or len(self.cov["samples"]) >= limit:
            return
        self._sample_keys.add(key)
        self.cov["samples"].append(obj)

    def assume(self, text):
        if text not in self.assumptions:
            self.assumptions.append(text)

    def trusted(self, text):
        if text not in self.cov["trusted_base"]:
            self.cov["trusted_base"].append(text)

    def match_known(self, clause_id, witness):
        """known finding whose clause pattern matches and whose witness predicate holds."""
        for k in self.known:
            pats = k.get("clauses") or k.get("obligations") or []
            if not any(fnmatch.fnmatchcase(clause_id, p) for p in pats):
                continue
            pred = k.get("match")
            if pred:
                try:
                    if not eval(pred, {"__builtins__": {"len": len, "any": any, "all": all, "isinstance": isinstance,
                                                        "str": str, "int": int, "repr": repr, "ord": ord,
                                                        "set": set, "sorted": sorted, "tuple": tuple, "list": list,
                                                        "min": min, "max": max, "dict": dict, "bool": bool,
                                                        "type": type, "range": range}, "w": witness}):
                        continue
                except (NameError, SyntaxError) as e:
                    raise MachineryDefect("known-finding predicate of %s is broken: %r" % (k.get("id"), e))
                except Exception:
                    continue
            return k
        return None

    def known_hit(self, k, detail=None):
        self.known_hits[k["id"]] = self.known_hits.get(k["id"], 0) + 1
        if k["id"] not in self.cov["known_findings_reproduced"]:
            self.cov["known_findings_reproduced"].append(k["id"])

    def violation(self, clause_id, what, witness, replayed, extra=None):
        """Report a contract / obligation failure.  `replayed`: True when the witness was executed
        against the real code in /repo and the contract clause failed there."""
        k = self.match_known(clause_id, witness)
        if k is not None:
            self.known_hit(k, witness)
            return False
        # de-duplicate by clause: one replay file per clause (first witness), all counted
        for v in self.violations:
            if v["clause"] == clause_id:
                v["count"] += 1
                return True
        n = len(self.violations) + 1
        path = os.path.join("replays", self.pid, "%03d.json" % n)
        rec = {"property": self.pid, "clause": clause_id, "what": what, "witness": witness,
               "replayed_on_real_code": bool(replayed), "count": 1}
        if extra:
            rec.update(extra)
        with open(os.path.join(OUT, path), "w") as f:
            json.dump(rec, f, indent=1, default=str, ensure_ascii=False)
        rec["path"] = path
        self.violations.append(rec)
        return True

    # ------------------------------------------------------------------------------
    def finish(self, level, explanation, checker_cmd=None):
        # the demonstration scripts of the defect hunt that belong to this property (regression probes for the repaired ones, detectors for the recorded ones)
        from vf import huntprobes
        huntprobes.run(self, self.pid)
        # frame / memo obligations on the module-level state of the modules that compute this property's answer
        from vf import modstate
        modstate.run(self, self.pid)
        # language obligations on the compiled patterns the property's functions delegate their decisions to
        from vf import rxcheck
        rxcheck.run(self, self.pid)
        # frame obligations: the functions that compute this property's answer modify nothing they are given
        from vf import aliascheck
        aliascheck.run(self, self.pid)
        cov = self.cov
        cov["explanation"] = explanation
        if checker_cmd:
            cov["checker_cmd"] = checker_cmd
        cov["solver_time_s"] = round(cov["solver_time_s"], 3)
        cov["rule"] = cov.get("rule", "see explanation")
        ev = {
            "property_id": self.pid, "tier": self.tier, "seed": self.seed, "level": level,
            "coverage": cov, "assumptions": self.assumptions, "wall_s": round(time.time() - self.t0, 2),
            "violations": len(self.violations), "notes": self.notes,
        }
        with open(os.path.join(OUT, "evidence", "%s.json" % self.pid), "w") as f:
            json.dump(ev, f, indent=1, default=str, ensure_ascii=False)
        for k in self.known:
            if k["id"] in self.known_hits:
                print("KNOWN-FINDING: property=%s %s [%s; %d witness(es) this run]" % (
                    self.pid, k["what"], k["id"], self.known_hits[k["id"]]))
            else:
                print("note: listed finding %s was not reproduced by this run" % k["id"])
        for v in self.violations:
            tail = "" if v["replayed_on_real_code"] else " no-failing-input-found"
            print("VIOLATION property=%s replay=%s%s" % (self.pid, v["path"], tail))
            print("   clause %s: %s" % (v["clause"], v["what"]))
        print("%s %s: %s; obligations %d discharged %d; evaluations %d; %.1fs" % (
            self.pid, self.tier, "VIOLATED" if self.violations else "held", cov["obligations"],
            cov["discharged"], cov["evaluations"], time.time() - self.t0))
        return 1 if self.violations else 0


def main_wrapper(fn):
    """Run a check body; any unexpected exception is a machinery defect (exit 3), never a verdict."""
    try:
        code = fn()
    except MachineryDefect as e:
        print("MACHINERY-DEFECT: %s" % e)
        sys.exit(3)
    except Exception:
        traceback.print_exc()
        print("MACHINERY-DEFECT: unexpected exception in the checker")
        sys.exit(3)
    sys.exit(code)
