"""Symbolic values of Engine A (pyvc).

Every Python value that the first-order subset manipulates is represented by one of the
classes below.  A value always has a *definite Python kind* on a path (paths fork when the
kind is ambiguous), which keeps the encoding close to Python's dynamic semantics:

  int   -> mathematical integer (exact for Python)          VInt
  bool  -> VBool        None -> VNone        float -> VFloat (class + real value)
  str   -> VChar (length 1, code point), VCStr (concrete), VSeq (z3 Seq Int, built strings),
           VArr (immutable symbolic source text: array of code points + length),
           VSlice (substring of a VArr given by clipped bounds), VOpaque (content irrelevant)
  tuple -> VTuple       objects -> VRef into the path's heap      classes -> VCls
  arbitrary concrete Python constants (dict literals, module-level tables) -> VPy
  closed algebraic hierarchies (GraphQL wrapper types ...) -> VData (z3 datatype)
"""
import z3


class Unsupported(Exception):
    """The code left the verified subset: obligation *generation* fails (never a violation)."""


class Val:
    pass


class VInt(Val):
    __slots__ = ("e",)

    def __init__(self, e):
        self.e = z3.IntVal(e) if isinstance(e, int) else e

    def __repr__(self):
        return "VInt(%s)" % self.e


class VName(VInt):
    """an identifier (type / field name) abstracted to an integer by an ADT encoding.  Distinct names are distinct integers; a string
    constant the code compares it with is encoded reversibly (name_code), so that tables of names in the code are modelled exactly."""
    __slots__ = ()


class VPyInt(VInt):
    """a parameter declared `int` by its contract: a genuine Python integer, never an abstracted name - so `x == "text"` is False"""
    __slots__ = ()


def name_code(s):
    return 10 ** 6 + int.from_bytes(s.encode("utf-8"), "big")


def name_of_code(n):
    """the string a name code stands for, or None for an anonymous name"""
    if n < 10 ** 6:
        return None
    k = n - 10 ** 6
    try:
        return k.to_bytes((k.bit_length() + 7) // 8, "big").decode("utf-8")
    except (UnicodeDecodeError, OverflowError):
        return None


class VBool(Val):
    __slots__ = ("e",)

    def __init__(self, e):
        self.e = z3.BoolVal(e) if isinstance(e, bool) else e

    def __repr__(self):
        return "VBool(%s)" % self.e


class VNone(Val):
    def __repr__(self):
        return "VNone"


class VFloat(Val):
    """Python float, abstracted as (cls, r): cls 0 finite / 1 NaN / 2 +inf / 3 -inf, and for finite values an
    arbitrary *real* r.  Every IEEE double is a real, so what is proved for all reals holds for all doubles;
    sound for code that only compares, tests and truncates floats (no float arithmetic is modelled)."""
    __slots__ = ("r", "cls")

    def __init__(self, r, cls=0):
        self.r = r
        self.cls = z3.IntVal(cls) if isinstance(cls, int) else cls

    @property
    def finite(self):
        return self.cls == 0

    @property
    def nan(self):
        return self.cls == 1

    @property
    def inf(self):
        return z3.Or(self.cls == 2, self.cls == 3)


class VStr(Val):
    pass


class VChar(VStr):
    __slots__ = ("code",)

    def __init__(self, code):
        self.code = z3.IntVal(code) if isinstance(code, int) else code

    def __repr__(self):
        return "VChar(%s)" % self.code


class VCStr(VStr):
    __slots__ = ("s",)

    def __init__(self, s):
        self.s = s

    def __repr__(self):
        return "VCStr(%r)" % self.s


class VSeq(VStr):
    __slots__ = ("e",)

    def __init__(self, e):
        self.e = e

    def __repr__(self):
        return "VSeq(%s)" % self.e


class VArr(VStr):
    """Immutable symbolic text: code points arr[0..n)."""
    __slots__ = ("arr", "n", "tag")

    def __init__(self, arr, n, tag):
        self.arr, self.n, self.tag = arr, n, tag

    def __repr__(self):
        return "VArr(%s)" % self.tag


class VSlice(VStr):
    """base[lo:hi] with 0 <= lo <= hi <= base.n (bounds already clipped)."""
    __slots__ = ("base", "lo", "hi")

    def __init__(self, base, lo, hi):
        self.base, self.lo, self.hi = base, lo, hi

    def __repr__(self):
        return "VSlice(%s,%s,%s)" % (self.base.tag, self.lo, self.hi)


class VOpaque(VStr):
    def __repr__(self):
        return "VOpaque"


class VTuple(Val):
    __slots__ = ("items",)

    def __init__(self, items):
        self.items = list(items)

    def __repr__(self):
        return "VTuple(%r)" % (self.items,)


class VRef(Val):
    __slots__ = ("oid",)

    def __init__(self, oid):
        self.oid = oid

    def __repr__(self):
        return "VRef(%s)" % self.oid


class VCls(Val):
    __slots__ = ("cls",)

    def __init__(self, cls):
        self.cls = cls

    def __repr__(self):
        return "VCls(%s)" % self.cls.__name__


class VPy(Val):
    __slots__ = ("obj",)

    def __init__(self, obj):
        self.obj = obj

    def __repr__(self):
        return "VPy(%r)" % (self.obj,)


class VData(Val):
    __slots__ = ("e", "adt")

    def __init__(self, e, adt):
        self.e, self.adt = e, adt

    def __repr__(self):
        return "VData(%s)" % self.e


class VFunc(Val):
    """A closure / inner def / lambda, only callable by inlining."""
    __slots__ = ("node", "env", "name")

    def __init__(self, node, env, name="<lambda>"):
        self.node, self.env, self.name = node, env, name


class HObj:
    """Heap object: instance of `cls` with a dictionary of fields."""
    __slots__ = ("cls", "fields")

    def __init__(self, cls, fields):
        self.cls, self.fields = cls, fields

    def copy(self):
        return HObj(self.cls, dict(self.fields))


class HList:
    """Heap list.  Either concrete python list of Vals (`items`) or, for lists of strings that are
    only appended to and joined, the concatenation of the elements (`joined`, z3 Seq Int)."""
    __slots__ = ("items", "joined")
    cls = list

    def __init__(self, items=None, joined=None):
        self.items, self.joined = items, joined

    def copy(self):
        return HList(None if self.items is None else list(self.items), self.joined)


class HDict:
    """Heap dict with concrete (python str) keys in insertion order."""
    __slots__ = ("keys", "vals")
    cls = dict

    def __init__(self, keys=None, vals=None):
        self.keys = list(keys or [])
        self.vals = dict(vals or {})

    def copy(self):
        return HDict(self.keys, self.vals)


IntSeq = z3.SeqSort(z3.IntSort())


def to_seq(v):
    """z3 Seq(Int) of a string value (where representable)."""
    if isinstance(v, VSeq):
        return v.e
    if isinstance(v, VChar):
        return z3.Unit(v.code)
    if isinstance(v, VCStr):
        if not v.s:
            return z3.Empty(IntSeq)
        units = [z3.Unit(z3.IntVal(ord(c))) for c in v.s]
        return units[0] if len(units) == 1 else z3.Concat(*units)
    raise Unsupported("string value %r has no sequence form" % (v,))


def str_len(v):
    if isinstance(v, VChar):
        return z3.IntVal(1)
    if isinstance(v, VCStr):
        return z3.IntVal(len(v.s))
    if isinstance(v, VSeq):
        return z3.Length(v.e)
    if isinstance(v, VArr):
        return v.n
    if isinstance(v, VSlice):
        return v.hi - v.lo
    raise Unsupported("len of %r" % (v,))
