"""Engine A driver: verify one real function against its sidecar contract.

verify_function() builds the symbolic pre-state from the contract's kind specs, assumes the
preconditions, executes the function body (source re-read from /repo on every run), and turns
every way the body can complete into proof obligations:

  normal return   -> every `ensures` clause, the frame (`modifies`) clause
  raise of E      -> E must be declared in `raises`; every exceptional postcondition of E
  call sites      -> callee preconditions;  loops -> invariant entry/preservation, variant
  recursion       -> `decreases` measure strictly smaller and non-negative at every self call

Each obligation is `path-condition => goal`; its negation goes to z3 (then cvc5 on unknown).
"""
import ast
import os
import importlib
import inspect
import time

import z3

from .exec import Contract, Executor, Obligation, State, _named
from .spec import SpecEnv, truth, fresh
from .values import (HList, HObj, Unsupported, VArr, VBool, VChar, VCls, VCStr, VData, VFloat, VInt, VNone,
                     VOpaque, VPy, VRef, VSeq, VSlice, VStr, VTuple)


def resolve_target(target):
    modname, qual = target.split(":")
    mod = importlib.import_module(modname)
    obj, owner = mod, None
    for part in qual.split("."):
        owner = obj if inspect.isclass(obj) else None
        obj = inspect.getattr_static(obj, part) if inspect.isclass(obj) else getattr(obj, part)
    if isinstance(obj, property):
        obj = obj.fget
    if isinstance(obj, (staticmethod, classmethod)):
        obj = obj.__func__
    return mod, owner, obj


class FunctionResult:
    def __init__(self, target):
        self.target = target
        self.obligations = []       # list of dicts (plain data)
        self.generation_error = None
        self.paths = 0
        self.gen_s = 0.0
        self.solve_s = 0.0
        self.assumed = []
        self.cases = []

    @property
    def ok(self):
        return self.generation_error is None and all(o["status"] == "discharged" for o in self.obligations)


def build_registry(contracts):
    reg = {}
    for c in contracts:
        try:
            _m, _o, f = resolve_target(c.target)
        except (AttributeError, ImportError):
            continue
        reg[f] = c
        reg[c.qualname] = c
    return reg


def _cases(contract):
    """A contract may split its parameter kinds into cases (union-typed parameters)."""
    if contract.cases:
        for name, overrides in contract.cases.items():
            kinds = dict(contract.params)
            kinds.update(overrides)
            yield name, kinds
    else:
        yield "", dict(contract.params)


def verify_function(contract, registry, spec_funcs, adts=None, timeout_ms=10000, only_case=None, jobs=1):
    res = FunctionResult(contract.target)
    t0 = time.time()
    try:
        mod, owner, func = resolve_target(contract.target)
    except (AttributeError, ImportError) as e:
        res.generation_error = "target not found: %s" % e
        return res
    for case_name, kinds in _cases(contract):
        if only_case is not None and case_name != only_case:
            continue
        ex = Executor(registry, spec_funcs, adts)
        label = contract.qualname + ("[%s]" % case_name if case_name else "")
        ex.cur_func = contract.qualname
        ex.cur_contract = contract
        try:
            _run_case(ex, contract, func, owner, kinds, label)
            status = "generated"
        except Unsupported as e:
            status = "unsupported: %s" % e
        except RecursionError:
            status = "unsupported: recursion limit in executor"
        res.cases.append({"case": label, "status": status, "paths": ex.paths,
                          "obligations": len(ex.obligations)})
        if status != "generated":
            res.generation_error = (res.generation_error or "") + "%s: %s; " % (label, status)
            continue
        res.paths += ex.paths
        res.assumed += sorted(ex.assumed_used)
        res.gen_s = time.time() - t0
        t1 = time.time()
        res.obligations += discharge_all(ex, timeout_ms, jobs)
        res.solve_s += time.time() - t1
    res.gen_s = time.time() - t0 - res.solve_s
    return res


def _run_case(ex, contract, func, owner, kinds, label):
    st = State()
    st.func = func
    tree = ex.func_ast(func)
    ex.index_loops(tree)
    sig = inspect.signature(func)
    ex.inputs = {}
    for p in sig.parameters.values():
        if p.name == "self":
            cls = owner
            if contract.self_class:
                cls = resolve_target(contract.self_class)[2]
            fields = {}
            ref = st.alloc(HObj(cls, fields))
            for f, fk in contract.self_fields.items():
                fields[f] = ex.fresh_value(st, fk, "self.%s" % f)
                ex.inputs["self.%s" % f] = fields[f]
            st.env["self"] = ref
            st.cls_ctx = owner
        elif p.name in kinds:
            st.env[p.name] = ex.fresh_value(st, kinds[p.name], p.name)
            ex.inputs[p.name] = st.env[p.name]
        elif p.default is not p.empty and contract.defaults_fixed:
            from .spec import lift
            st.env[p.name] = lift(p.default)
        else:
            raise Unsupported("no kind for parameter %s" % p.name)
    # name-mangled private parameters: the AST keeps the unmangled spelling
    for p in list(st.env):
        if p.startswith("_") and not p.startswith("__") and "__" in p[1:]:
            st.env[p[p.index("__", 1):]] = st.env[p]
    for g, gk in contract.ghost.get("vars", {}).items():
        st.env[g] = ex.fresh_value(st, gk, g)
        ex.inputs[g] = st.env[g]
    for lem in contract.lemmas:
        st.assume(lemma_axiom(ex, lem, st))
    pre = st.fork()
    ex.entry_params = dict(st.env)
    ex.old_env = ex.spec_env(pre)
    for cname, text in contract.requires:
        st.assume(ex.spec_bool(text, st, old=ex.old_env))
    if not ex.feasible(st):
        raise Unsupported("precondition unsatisfiable (vacuous contract)")
    # reachability cover of the precondition
    ex.pre_pc = list(st.pc)
    results = ex.ex_block(tree.body, st, lambda s: [(s, ("ret", VNone()))])
    ex.paths = len(results)
    declared = {}
    for name in contract.raises:
        declared[name] = ex.resolve_class(func, name)
    for s, oc in results:
        if oc[0] == "ret":
            res = oc[1]
            if isinstance(contract.returns, list) or contract.returns is None or True:
                pass
            names = {"result": res}
            for cname, text in contract.ensures:
                try:
                    goal = ex.spec_bool(text, s, names, old=ex.old_env)
                except Unsupported as e:
                    # the clause cannot even be stated about this result: that is a failed clause
                    # only if the result's *kind* contradicts it; report as generation failure
                    raise Unsupported("ensures %s on %r: %s" % (cname, res, e))
                ex.oblige(s, "ensures", cname, goal, "postcondition %r" % text, extra={"state": s, "names": names})
            _frame(ex, contract, s, pre)
        elif oc[0] == "raise":
            ecls = s.heap[oc[1].oid].cls
            match = None
            for name, cls in declared.items():
                if ecls is cls:
                    match = name
            if match is None:
                for name, cls in declared.items():
                    if issubclass(ecls, cls):
                        match = name
            if match is None:
                ex.oblige(s, "raises", "undeclared:%s" % ecls.__name__, z3.BoolVal(False),
                          "no exception of class %s may escape %s" % (ecls.__name__, label))
                continue
            names = {"exc": oc[1]}
            for cname, text in contract.raises[match]:
                goal = ex.spec_bool(text, s, names, old=ex.old_env)
                ex.oblige(s, "raises", "%s.%s" % (match, cname), goal,
                          "exceptional postcondition %r of %s" % (text, match), extra={"state": s, "names": names})
        else:
            raise Unsupported("break/continue at function level")


def _frame(ex, contract, s, pre):
    selfv = s.env.get("self")
    if not isinstance(selfv, VRef) or not contract.self_fields:
        return
    mods = {m.split(".")[1] for m in contract.modifies if m.startswith("self.")}
    now, before = s.heap[selfv.oid].fields, pre.heap[selfv.oid].fields
    for f in contract.self_fields:
        if f in mods:
            continue
        a, b = now.get(f), before.get(f)
        if a is b:
            continue
        try:
            from .spec import val_eq
            goal = val_eq(a, b)
        except Unsupported:
            goal = z3.BoolVal(False)
        ex.oblige(s, "frame", "self.%s" % f, goal, "self.%s is not modified" % f)


def _model_inputs(model, ex):
    """Concrete rendering of the verification inputs under a z3 model."""
    out = {}
    for name, v in ex.inputs.items():
        out[name] = concretize(model, v)
    return out


def concretize(model, v, heap=None):
    ev = lambda e: model.eval(e, model_completion=True)
    if isinstance(v, VInt):
        return ev(v.e).as_long()
    if isinstance(v, VBool):
        return z3.is_true(ev(v.e))
    if isinstance(v, VNone):
        return None
    if isinstance(v, VChar):
        c = ev(v.code).as_long()
        return chr(c) if 0 <= c < 0x110000 else "<cp %d>" % c
    if isinstance(v, VCStr):
        return v.s
    if isinstance(v, VArr):
        n = ev(v.n).as_long()
        n = min(n, 64)
        cps = [ev(z3.Select(v.arr, i)).as_long() for i in range(n)]
        return "".join(chr(c) if 0 <= c < 0x110000 else "?" for c in cps)
    if isinstance(v, VData):
        return str(ev(v.e))
    if isinstance(v, VFloat):
        c = ev(v.cls).as_long()
        if c == 1:
            return float("nan")
        if c in (2, 3):
            return float("inf") if c == 2 else float("-inf")
        r = ev(v.r)
        try:
            return float(r.numerator_as_long()) / float(r.denominator_as_long())
        except Exception:
            return str(r)
    if isinstance(v, VTuple):
        return [concretize(model, x) for x in v.items]
    if isinstance(v, VSeq):
        return str(ev(v.e))
    return repr(v)


def discharge(ob, ex, timeout_ms=10000):
    """status: discharged | refuted (model) | unknown."""
    t0 = time.time()
    d = {"id": ob.oid, "func": ob.func, "kind": ob.kind, "clause": ob.clause, "path": ob.path,
         "text": ob.text, "scaffold": ob.scaffold, "line": ob.line, "backend": "z3 %s api" % z3.get_version_string()}
    goal = z3.simplify(ob.goal)
    if z3.is_true(goal):
        d.update(status="discharged", time_s=0.0, trivial=True)
        return d
    s = z3.Solver()
    s.set("timeout", timeout_ms)
    s.add(*ob.pc)
    s.add(z3.Not(goal))
    r = s.check()
    if r == z3.unknown:
        # retry in a *fresh z3 context* (the shared context accumulates declarations and learnt state from the hundreds of obligations
        # discharged before in this process, which makes borderline queries time out that are decided in 2 s on their own), with a
        # larger budget and other seeds
        for seed, factor in ((7, 2), (23, 3)):
            ctx = z3.Context()
            s2 = z3.Solver(ctx=ctx)
            s2.set("timeout", timeout_ms * factor)
            s2.set("smt.random_seed", seed)
            for a_ in ob.pc:
                s2.add(a_.translate(ctx))
            s2.add(z3.Not(goal).translate(ctx))
            r = s2.check()
            if r != z3.unknown:
                if r == z3.sat:
                    # models are read in the main context: re-check there with what we learnt is not possible; keep the fresh solver's verdict
                    # and rebuild the model by asking the main-context solver again with a long budget
                    s3 = z3.Solver()
                    s3.set("timeout", timeout_ms * 3)
                    s3.add(*ob.pc)
                    s3.add(z3.Not(goal))
                    if s3.check() == z3.sat:
                        s = s3
                    else:
                        r = z3.unknown
                        continue
                break
    d["time_s"] = round(time.time() - t0, 4)
    if r == z3.unsat:
        d["status"] = "discharged"
    elif r == z3.sat:
        d["status"] = "refuted"
        try:
            d["model"] = _model_inputs(s.model(), ex)
        except Exception as e:  # model rendering must never break a verdict
            d["model"] = {"_error": repr(e)}
    else:
        d["status"] = "unknown"
        d["reason"] = s.reason_unknown()
        try:
            d["smt2"] = s.to_smt2()
        except Exception:
            pass
    return d


_POOL_STATE = {}


def _worker(idx):
    ex, timeout_ms = _POOL_STATE["ex"], _POOL_STATE["timeout"]
    d = discharge(ex.obligations[idx], ex, timeout_ms)
    d.pop("smt2", None)
    return idx, d


def discharge_all(ex, timeout_ms, jobs=1):
    """Discharge every obligation of `ex`; with jobs > 1 in forked worker processes (the z3 terms
    live in the parent's memory image, results come back as plain data)."""
    n = len(ex.obligations)
    out = [None] * n
    if jobs <= 1 or n < 4:
        for i, ob in enumerate(ex.obligations):
            out[i] = discharge(ob, ex, timeout_ms)
            if os.environ.get("PYVC_DEBUG"):
                d = out[i]
                print("   [%s] %s %.2fs %s" % (d["status"], d["id"], d["time_s"], d["path"][-80:]), flush=True)
        return out
    import multiprocessing as mp
    _POOL_STATE["ex"], _POOL_STATE["timeout"] = ex, timeout_ms
    ctx = mp.get_context("fork")
    with ctx.Pool(min(jobs, n)) as pool:
        for idx, d in pool.imap_unordered(_worker, range(n), chunksize=1):
            out[idx] = d
            if os.environ.get("PYVC_DEBUG"):
                print("   [%s] %s %.2fs %s" % (d["status"], d["id"], d["time_s"], d["path"][-80:]), flush=True)
    _POOL_STATE.clear()
    return out


def _lemma_consts(ex, lem, st, prefix):
    names = {}
    for p, kind in lem.params.items():
        if kind == "self":
            names[p] = st.env.get("self") or st.alloc(HObj(object, {}))
        else:
            names[p] = ex.fresh_value(st, kind, "%s.%s" % (prefix, p))
    return names


def lemma_axiom(ex, lem, st):
    names = _lemma_consts(ex, lem, st, "lemma." + lem.name)
    body = ex.spec_bool(lem.statement, st, names)
    consts = [v.e for p, v in names.items() if hasattr(v, "e")]
    return z3.ForAll(consts, body) if consts else body


def prove_lemma(lem, spec_funcs, adts, timeout_ms=10000):
    """structural induction on lem.induction_on: one obligation per constructor"""
    out = []
    ex = Executor({}, spec_funcs, adts)
    ex.cur_func = "lemma:" + lem.name
    adt = adts[lem.params[lem.induction_on]]
    for ctor, _cls, fields in adt.variants:
        st = State()
        names = _lemma_consts(ex, lem, st, lem.name)
        fvals = []
        for f, srt in fields:
            v = ex.fresh_value(st, lem.params[lem.induction_on] if srt == "self" else srt, "%s.%s.%s" % (lem.name, ctor, f))
            fvals.append(v)
            if srt == "self":
                ih = dict(names)
                ih[lem.induction_on] = v
                st.assume(ex.spec_bool(lem.statement, st, ih))      # induction hypothesis
        names[lem.induction_on] = VData(adt.ctor(ctor)(*[v.e for v in fvals]) if fvals else adt.ctor(ctor), adt)
        goal = ex.spec_bool(lem.statement, st, names)
        ob = Obligation("lemma:" + lem.name, "induction", ctor, st.pc, goal, ctor, "lemma %s, case %s" % (lem.statement, ctor))
        ex.inputs = {}
        out.append(discharge(ob, ex, timeout_ms))
    return out
