"""Spec-mode evaluation: pure Python expressions / spec functions -> z3 terms.

Contract clauses (`requires`, `ensures`, invariants ...) are Python *expressions* and spec
functions are ordinary Python functions written in a small pure subset (if/elif/else, local
assignment, return, recursion).  The same text is executed by CPython (Engine C, replay,
co-execution) and translated here (Engine A).  Translation is total and fork-free:
`a and b` -> And, `x if c else y` -> If, `s[i]` -> Select (spec functions guard their own
index ranges; co-execution against CPython checks that they do).

Recursive spec functions become z3 RecFunctions, specialised per symbolic source text (string
parameters bound to a VArr are closed over, so signatures only mention ints/bools/datatypes).
"""
import ast
import inspect
import textwrap

import z3

from .values import (IntSeq, Unsupported, VArr, VBool, VChar, VCls, VCStr, VData, VFloat, VInt, VName, VPyInt, name_code,
                     VNone, VOpaque, VPy, VRef, VSeq, VSlice, VStr, VTuple, Val, str_len, to_seq)

_fresh = [0]


def fresh(prefix, sort=None):
    _fresh[0] += 1
    name = "%s!%d" % (prefix, _fresh[0])
    if sort is None or (isinstance(sort, str) and sort == "int"):
        return z3.Int(name)
    if isinstance(sort, str) and sort == "bool":
        return z3.Bool(name)
    return z3.Const(name, sort)


# ------------------------------------------------------------------------------------------
# character tables of the running interpreter (assumed contracts of str.isdigit & co, exact)

_TABLES = {}


def char_table(method):
    """Sorted list of inclusive code-point intervals on which chr(c).<method>() is true."""
    if method not in _TABLES:
        out, start, prev = [], None, None
        for c in range(0x110000):
            if getattr(chr(c), method)():
                if start is None:
                    start = c
                prev = c
            elif start is not None:
                out.append((start, prev))
                start = None
        if start is not None:
            out.append((start, prev))
        _TABLES[method] = out
    return _TABLES[method]


_TABLE_FUNCS = {}


def char_pred(method, code):
    """z3 Bool: chr(code).<method>()  (as a defined function over the interval table)."""
    if method not in _TABLE_FUNCS:
        f = z3.RecFunction("py_%s" % method, z3.IntSort(), z3.BoolSort())
        c = z3.Int("c")
        body = z3.Or([z3.And(c >= lo, c <= hi) if lo != hi else c == lo
                      for lo, hi in char_table(method)] or [z3.BoolVal(False)])
        z3.RecAddDefinition(f, [c], body)
        _TABLE_FUNCS[method] = f
    return _TABLE_FUNCS[method](code)


# ------------------------------------------------------------------------------------------

def merge(c, a, b):
    """If-merge of two values of the same kind."""
    if isinstance(a, VInt) and isinstance(b, VInt):
        return VInt(z3.If(c, a.e, b.e))
    if isinstance(a, VBool) and isinstance(b, VBool):
        return VBool(z3.If(c, a.e, b.e))
    if isinstance(a, VBool) and isinstance(b, VInt) or isinstance(a, VInt) and isinstance(b, VBool):
        raise Unsupported("merge of bool and int")
    if isinstance(a, VTuple) and isinstance(b, VTuple) and len(a.items) == len(b.items):
        return VTuple([merge(c, x, y) for x, y in zip(a.items, b.items)])
    if isinstance(a, VSlice) and isinstance(b, VSlice) and a.base is b.base:
        return VSlice(a.base, z3.If(c, a.lo, b.lo), z3.If(c, a.hi, b.hi))
    if isinstance(a, VChar) and isinstance(b, VChar):
        return VChar(z3.If(c, a.code, b.code))
    if isinstance(a, VStr) and isinstance(b, VStr):
        return VSeq(z3.If(c, to_seq(a), to_seq(b)))
    if isinstance(a, VData) and isinstance(b, VData) and a.adt is b.adt:
        return VData(z3.If(c, a.e, b.e), a.adt)
    if isinstance(a, VNone) and isinstance(b, VNone):
        return a
    if isinstance(a, VFloat) and isinstance(b, VFloat):
        return VFloat(z3.If(c, a.r, b.r), z3.If(c, a.cls, b.cls))
    raise Unsupported("cannot merge %r and %r" % (a, b))


def val_eq(a, b):
    """z3 Bool for Python `a == b` on spec-level values."""
    if isinstance(a, (VInt, VBool)) and isinstance(b, (VInt, VBool)):
        ae = a.e if isinstance(a, VInt) else z3.If(a.e, 1, 0)
        be = b.e if isinstance(b, VInt) else z3.If(b.e, 1, 0)
        if isinstance(a, VBool) and isinstance(b, VBool):
            return a.e == b.e
        return ae == be
    if isinstance(a, VNone) or isinstance(b, VNone):
        return z3.BoolVal(isinstance(a, VNone) and isinstance(b, VNone))
    if isinstance(a, VStr) and isinstance(b, VStr):
        return str_eq(a, b)
    if isinstance(a, VTuple) and isinstance(b, VTuple):
        if len(a.items) != len(b.items):
            return z3.BoolVal(False)
        return z3.And([val_eq(x, y) for x, y in zip(a.items, b.items)] or [z3.BoolVal(True)])
    if isinstance(a, VData) and isinstance(b, VData):
        return a.e == b.e
    if isinstance(a, VCls) and isinstance(b, VCls):
        return z3.BoolVal(a.cls is b.cls)
    if isinstance(a, VPy) and isinstance(b, VPy):
        return z3.BoolVal(a.obj == b.obj)
    if isinstance(a, VFloat) and isinstance(b, VFloat):
        return z3.And(a.cls != 1, b.cls != 1, a.cls == b.cls, z3.Or(a.cls != 0, a.r == b.r))
    if isinstance(a, VFloat) and isinstance(b, (VInt, VBool)):
        return val_eq(b, a)
    if isinstance(a, (VInt, VBool)) and isinstance(b, VFloat):
        # Python compares int and float exactly (mathematically); NaN / inf equal no int
        ae = a.e if isinstance(a, VInt) else z3.If(a.e, 1, 0)
        return z3.And(b.finite, z3.ToReal(ae) == b.r)
    if isinstance(a, VRef) and isinstance(b, VRef):
        if a.oid == b.oid:
            return z3.BoolVal(True)
        raise Unsupported("== between distinct heap objects")
    if isinstance(a, VName) and isinstance(b, VCStr):
        return a.e == name_code(b.s)
    if isinstance(b, VName) and isinstance(a, VCStr):
        return b.e == name_code(a.s)
    if (isinstance(a, VPyInt) and isinstance(b, VStr)) or (isinstance(a, VStr) and isinstance(b, VPyInt)):
        return z3.BoolVal(False)  # a genuine Python int equals no string
    if (isinstance(a, VInt) and isinstance(b, VStr)) or (isinstance(a, VStr) and isinstance(b, VInt)):
        # names of types / fields are abstracted to integers in the ADT encodings: comparing one with a string constant is NOT False.
        # (found by a seeded change that looked names up in a table of string pairs and was "proved" because the lookup evaluated to False)
        raise Unsupported("an integer (possibly an abstracted name) is compared with a string constant")
    if type(a) is not type(b) and not (isinstance(a, VStr) and isinstance(b, VStr)):
        kinds = (VInt, VBool, VStr, VNone, VTuple, VData, VFloat)
        if isinstance(a, kinds) and isinstance(b, kinds):
            return z3.BoolVal(False)
    raise Unsupported("== on %r / %r" % (a, b))


def str_eq(a, b):
    if isinstance(a, VCStr) and isinstance(b, VCStr):
        return z3.BoolVal(a.s == b.s)
    if isinstance(a, VChar) and isinstance(b, VChar):
        return a.code == b.code
    if isinstance(a, VChar) and isinstance(b, VCStr):
        return a.code == ord(b.s) if len(b.s) == 1 else z3.BoolVal(False)
    if isinstance(b, VChar) and isinstance(a, VCStr):
        return str_eq(b, a)
    if isinstance(a, VSlice) and isinstance(b, VCStr):
        return z3.And([a.hi - a.lo == len(b.s)] +
                      [z3.Select(a.base.arr, a.lo + i) == ord(ch) for i, ch in enumerate(b.s)])
    if isinstance(b, VSlice) and isinstance(a, VCStr):
        return str_eq(b, a)
    if isinstance(a, VSlice) and isinstance(b, VSlice) and a.base is b.base:
        # sufficient and, for non-empty slices, what every contract here needs: same bounds
        return z3.Or(z3.And(a.lo == b.lo, a.hi == b.hi), z3.And(a.lo == a.hi, b.lo == b.hi))
    if isinstance(a, VSlice) and isinstance(b, VChar):
        return z3.And(a.hi - a.lo == 1, z3.Select(a.base.arr, a.lo) == b.code)
    if isinstance(b, VSlice) and isinstance(a, VChar):
        return str_eq(b, a)
    if isinstance(a, (VOpaque,)) or isinstance(b, (VOpaque,)):
        raise Unsupported("== on opaque string")
    if isinstance(a, VArr):
        a = VSlice(a, z3.IntVal(0), a.n)
    if isinstance(b, VArr):
        b = VSlice(b, z3.IntVal(0), b.n)
    if isinstance(a, VSlice) and isinstance(b, VSlice):
        k = fresh("k")
        return z3.And(a.hi - a.lo == b.hi - b.lo,
                      z3.ForAll([k], z3.Implies(z3.And(0 <= k, k < a.hi - a.lo),
                                                z3.Select(a.base.arr, a.lo + k) == z3.Select(b.base.arr, b.lo + k))))
    if isinstance(b, VSlice):
        a, b = b, a
    if isinstance(a, VSlice):
        # exact: same length and element-wise equal
        sq = to_seq(b)
        k = fresh("k")
        return z3.And(z3.Length(sq) == a.hi - a.lo,
                      z3.ForAll([k], z3.Implies(z3.And(0 <= k, k < a.hi - a.lo),
                                                sq[k] == z3.Select(a.base.arr, a.lo + k))))
    return to_seq(a) == to_seq(b)


def char_of(v):
    """code point of a length-1 string value."""
    if isinstance(v, VChar):
        return v.code
    if isinstance(v, VCStr) and len(v.s) == 1:
        return z3.IntVal(ord(v.s))
    raise Unsupported("not a single character: %r" % (v,))


def str_cmp(op, a, b):
    """ordering of single characters (all the subset needs)."""
    x, y = char_of(a), char_of(b)
    return {"Lt": x < y, "LtE": x <= y, "Gt": x > y, "GtE": x >= y}[op]


def contains(container, item):
    """z3 Bool for `item in container`."""
    if isinstance(container, VCStr):
        if isinstance(item, VChar):
            return z3.Or([item.code == ord(ch) for ch in container.s] or [z3.BoolVal(False)])
        if isinstance(item, VCStr):
            return z3.BoolVal(item.s in container.s)
    if isinstance(container, VPy):
        obj = container.obj
        if isinstance(obj, str):
            return contains(VCStr(obj), item)
        if isinstance(obj, (dict, tuple, list, frozenset, set)):
            keys = list(obj)
            return z3.Or([val_eq(item, lift(k)) for k in keys] or [z3.BoolVal(False)])
    if isinstance(container, VTuple):
        return z3.Or([val_eq(item, x) for x in container.items] or [z3.BoolVal(False)])
    raise Unsupported("`in` on %r" % (container,))


def lift(obj):
    """concrete Python constant -> Val."""
    if isinstance(obj, bool):
        return VBool(obj)
    if isinstance(obj, int):
        return VInt(obj)
    if obj is None:
        return VNone()
    if isinstance(obj, str):
        return VChar(ord(obj)) if len(obj) == 1 else VCStr(obj)
    if isinstance(obj, float):
        import math as _m
        if _m.isnan(obj):
            return VFloat(z3.RealVal(0), 1)
        if _m.isinf(obj):
            return VFloat(z3.RealVal(0), 2 if obj > 0 else 3)
        from fractions import Fraction
        fr = Fraction(obj)
        return VFloat(z3.RealVal(fr.numerator) / z3.RealVal(fr.denominator), 0)
    if isinstance(obj, type):
        return VCls(obj)
    if isinstance(obj, tuple) and all(isinstance(x, (int, str, bool, type(None))) for x in obj):
        return VTuple([lift(x) for x in obj])
    return VPy(obj)


def truth(v):
    if isinstance(v, VBool):
        return v.e
    if isinstance(v, VInt):
        return v.e != 0
    if isinstance(v, VNone):
        return z3.BoolVal(False)
    if isinstance(v, VOpaque):
        raise Unsupported("truth of opaque string")
    if isinstance(v, VStr):
        return str_len(v) != 0
    if isinstance(v, VTuple):
        return z3.BoolVal(bool(v.items))
    if isinstance(v, (VData, VCls)):
        return z3.BoolVal(True)
    if isinstance(v, VPy):
        return z3.BoolVal(bool(v.obj))
    if isinstance(v, VFloat):
        return z3.Not(z3.And(v.finite, v.r == 0))
    raise Unsupported("truth of %r" % (v,))


def clip_slice(base_len, lo, hi):
    """Python's slice clipping for s[lo:hi] (either may be None) -> (lo', hi') with lo'<=hi'."""
    n = base_len
    if lo is None:
        l = z3.IntVal(0)
    else:
        l = z3.If(lo < 0, z3.If(lo + n < 0, 0, lo + n), z3.If(lo > n, n, lo))
    if hi is None:
        h = n
    else:
        h = z3.If(hi < 0, z3.If(hi + n < 0, 0, hi + n), z3.If(hi > n, n, hi))
    return l, z3.If(h < l, l, h)


# ------------------------------------------------------------------------------------------

class ADT:
    """A closed algebraic hierarchy as a z3 datatype, e.g. GraphQL wrapper types.

    variants: list of (ctor_name, python_class_name, [(field, sort)])  with sort in
    'int' | 'bool' | 'self'.
    """

    def __init__(self, name, variants, py_classes=None):
        self.name = name
        self.variants = variants
        self.py_classes = py_classes or {}
        dt = z3.Datatype(name)
        for ctor, _cls, fields in variants:
            dt.declare(ctor, *[(("%s_%s" % (ctor, f)),
                                dt if s == "self" else z3.IntSort() if s == "int" else z3.BoolSort())
                               for f, s in fields])
        self.sort = dt.create()
        self.by_class = {cls: ctor for ctor, cls, _ in variants}
        self.fields = {ctor: fields for ctor, _cls, fields in variants}

    def recognizer(self, ctor, e):
        return getattr(self.sort, "is_" + ctor)(e)

    def accessor(self, ctor, field, e):
        return getattr(self.sort, "%s_%s" % (ctor, field))(e)

    def ctor(self, ctor):
        return getattr(self.sort, ctor)

    def ctor_for_class(self, cls):
        """ctor names whose python class is `cls` or a subclass of it (by class name through MRO)."""
        out = []
        for ctor, cname, _ in self.variants:
            out.append((ctor, cname))
        return out


class SpecEnv:
    """Name resolution for spec-mode evaluation."""

    def __init__(self, names=None, funcs=None, state=None, old=None, entry=None, execu=None):
        self.names = dict(names or {})   # name -> Val
        self.funcs = funcs or {}         # spec namespace: name -> python function / constant
        self.state = state               # executor State for attribute reads on VRef
        self.old = old                   # SpecEnv of the pre-state (for old(...))
        self.entry = entry               # SpecEnv at loop entry (for entry(...))
        self.execu = execu

    def child(self, extra):
        e = SpecEnv(self.names, self.funcs, self.state, self.old, self.entry, self.execu)
        e.names.update(extra)
        return e


_RECFUNS = {}


class SpecTranslator:
    """Translates spec-Python to z3.  One instance per verification context (holds RecFunctions)."""

    def __init__(self, funcs, adts=None):
        self.funcs = funcs            # global spec namespace
        self.adts = adts or {}        # annotation name -> ADT
        self.recfuns = _RECFUNS       # key -> (list of z3 funcs, shape); z3 names are context-global
        self._asts = {}
        self._recursive = {}

    # -- function sources ---------------------------------------------------------------
    def func_ast(self, f):
        if f not in self._asts:
            src = textwrap.dedent(inspect.getsource(f))
            self._asts[f] = ast.parse(src).body[0]
        return self._asts[f]

    def is_recursive(self, f):
        if f not in self._recursive:
            seen, stack, rec = set(), [f], False
            while stack:
                g = stack.pop()
                for node in ast.walk(self.func_ast(g)):
                    if isinstance(node, ast.Call) and isinstance(node.func, ast.Name):
                        h = self.funcs.get(node.func.id)
                        if h is f:
                            rec = True
                        if inspect.isfunction(h) and h not in seen and getattr(h, "__module__", "").startswith("spec"):
                            seen.add(h)
                            stack.append(h)
            self._recursive[f] = rec
        return self._recursive[f]

    # -- expressions ------------------------------------------------------------------
    def expr(self, node, env):
        m = getattr(self, "e_" + type(node).__name__, None)
        if m is None:
            raise Unsupported("spec expression %s" % type(node).__name__)
        return m(node, env)

    def e_Constant(self, node, env):
        return lift(node.value)

    def e_Name(self, node, env):
        if node.id in env.names:
            return env.names[node.id]
        if node.id in env.funcs:
            return lift(env.funcs[node.id])
        if node.id in ("True", "False", "None"):
            return lift(eval(node.id))
        import builtins as _b
        if hasattr(_b, node.id):
            return lift(getattr(_b, node.id))
        raise Unsupported("unknown name %s in spec expression" % node.id)

    def e_Tuple(self, node, env):
        return VTuple([self.expr(x, env) for x in node.elts])

    def e_UnaryOp(self, node, env):
        v = self.expr(node.operand, env)
        if isinstance(node.op, ast.Not):
            return VBool(z3.Not(truth(v)))
        if isinstance(node.op, ast.USub) and isinstance(v, VInt):
            return VInt(-v.e)
        raise Unsupported("unary op")

    def e_BoolOp(self, node, env):
        is_and = isinstance(node.op, ast.And)
        bs = []
        for x in node.values:
            b = z3.simplify(truth(self.expr(x, env)))
            if (is_and and z3.is_false(b)) or (not is_and and z3.is_true(b)):
                return VBool(b)          # statically short-circuited: later operands need not be well-kinded
            bs.append(b)
        return VBool(z3.And(bs) if is_and else z3.Or(bs))

    def e_IfExp(self, node, env):
        c = truth(self.expr(node.test, env))
        return merge(c, self.expr(node.body, env), self.expr(node.orelse, env))

    def e_BinOp(self, node, env):
        a, b = self.expr(node.left, env), self.expr(node.right, env)
        return self.binop(type(node.op).__name__, a, b)

    def binop(self, op, a, b):
        if isinstance(a, VBool):
            a = VInt(z3.If(a.e, 1, 0))
        if isinstance(b, VBool):
            b = VInt(z3.If(b.e, 1, 0))
        if isinstance(a, VInt) and isinstance(b, VInt):
            if op == "Add":
                return VInt(a.e + b.e)
            if op == "Sub":
                return VInt(a.e - b.e)
            if op == "Mult":
                return VInt(a.e * b.e)
            if op == "FloorDiv":
                # Python floor division == SMT-LIB div for positive divisor; general form:
                return VInt(z3.If(b.e > 0, a.e / b.e, -((-a.e) / (-b.e))) if not z3.is_int_value(b.e)
                            else (a.e / b.e if b.e.as_long() > 0 else -((-a.e) / (-b.e))))
            if op == "Mod":
                return VInt(z3.If(b.e > 0, a.e % b.e, -((-a.e) % (-b.e))) if not z3.is_int_value(b.e)
                            else (a.e % b.e if b.e.as_long() > 0 else -((-a.e) % (-b.e))))
        if op == "Add" and isinstance(a, VStr) and isinstance(b, VStr):
            if isinstance(a, VCStr) and isinstance(b, VCStr):
                return lift(a.s + b.s)
            return VSeq(z3.Concat(to_seq(a), to_seq(b)))
        if op == "Add" and isinstance(a, VTuple) and isinstance(b, VTuple):
            return VTuple(a.items + b.items)
        raise Unsupported("binop %s on %r, %r" % (op, a, b))

    def e_Compare(self, node, env):
        left = self.expr(node.left, env)
        out = []
        for op, rn in zip(node.ops, node.comparators):
            right = self.expr(rn, env)
            out.append(self.compare(type(op).__name__, left, right))
            left = right
        return VBool(z3.And(out) if len(out) > 1 else out[0])

    def compare(self, op, a, b):
        if op in ("Eq", "NotEq"):
            e = val_eq(a, b)
            return e if op == "Eq" else z3.Not(e)
        if op in ("Is", "IsNot"):
            if isinstance(a, VNone) or isinstance(b, VNone):
                r = z3.BoolVal(isinstance(a, VNone) and isinstance(b, VNone))
            elif isinstance(a, VCls) and isinstance(b, VCls):
                r = z3.BoolVal(a.cls is b.cls)
            elif isinstance(a, VBool) and isinstance(b, VBool):
                r = a.e == b.e
            elif isinstance(a, VRef) and isinstance(b, VRef):
                r = z3.BoolVal(a.oid == b.oid)
            elif type(a) is not type(b):
                r = z3.BoolVal(False)
            else:
                raise Unsupported("`is` on %r, %r" % (a, b))
            return r if op == "Is" else z3.Not(r)
        if op in ("In", "NotIn"):
            r = contains(b, a)
            return r if op == "In" else z3.Not(r)
        if isinstance(a, VBool):
            a = VInt(z3.If(a.e, 1, 0))
        if isinstance(b, VBool):
            b = VInt(z3.If(b.e, 1, 0))
        if isinstance(a, VInt) and isinstance(b, VInt):
            return {"Lt": a.e < b.e, "LtE": a.e <= b.e, "Gt": a.e > b.e, "GtE": a.e >= b.e}[op]
        if isinstance(a, VStr) and isinstance(b, VStr):
            return str_cmp(op, a, b)
        if isinstance(a, (VFloat, VInt)) and isinstance(b, (VFloat, VInt)):
            # Python compares int and float exactly: through the reals, NaN compares false, infinities extreme
            def parts(v):     # (real value, cls)
                return (z3.ToReal(v.e), z3.IntVal(0)) if isinstance(v, VInt) else (v.r, v.cls)
            (ra, ca), (rb, cb) = parts(a), parts(b)
            # total order on the extended reals: -inf < finite < +inf ; NaN compares false
            ka = z3.If(ca == 3, -1, z3.If(ca == 2, 1, 0))
            kb = z3.If(cb == 3, -1, z3.If(cb == 2, 1, 0))
            lt = z3.Or(ka < kb, z3.And(ka == 0, kb == 0, ra < rb))
            eq = z3.And(ka == kb, z3.Or(ka != 0, ra == rb))
            res = {"Lt": lt, "LtE": z3.Or(lt, eq), "Gt": z3.And(z3.Not(lt), z3.Not(eq)), "GtE": z3.Not(lt)}[op]
            return z3.And(ca != 1, cb != 1, res)
        raise Unsupported("compare %s on %r, %r" % (op, a, b))

    def e_Subscript(self, node, env):
        base = self.expr(node.value, env)
        if isinstance(node.slice, ast.Slice):
            if node.slice.step is not None:
                raise Unsupported("slice step")
            lo = self.expr(node.slice.lower, env) if node.slice.lower else None
            hi = self.expr(node.slice.upper, env) if node.slice.upper else None
            return self.slice(base, lo, hi)
        idx = self.expr(node.slice, env)
        return self.index(base, idx)

    def slice(self, base, lo, hi):
        loe = lo.e if lo is not None else None
        hie = hi.e if hi is not None else None
        if isinstance(base, VArr):
            l, h = clip_slice(base.n, loe, hie)
            return VSlice(base, l, h)
        if isinstance(base, VSlice):
            l, h = clip_slice(base.hi - base.lo, loe, hie)
            return VSlice(base.base, base.lo + l, base.lo + h)
        if isinstance(base, VSeq):
            l, h = clip_slice(z3.Length(base.e), loe, hie)
            return VSeq(z3.SubSeq(base.e, l, h - l))
        if isinstance(base, VCStr) and (lo is None or z3.is_int_value(loe)) and (hi is None or z3.is_int_value(hie)):
            return lift(base.s[(loe.as_long() if lo is not None else None):(hie.as_long() if hi is not None else None)])
        if isinstance(base, VTuple) and (lo is None or z3.is_int_value(loe)) and (hi is None or z3.is_int_value(hie)):
            return VTuple(base.items[(loe.as_long() if lo is not None else None):(hie.as_long() if hi is not None else None)])
        raise Unsupported("slice of %r" % (base,))

    def index(self, base, idx):
        """spec-mode indexing: total, no bounds check (spec functions guard their ranges)."""
        if isinstance(base, VArr) and isinstance(idx, VInt):
            return VChar(z3.Select(base.arr, idx.e))
        if isinstance(base, VSlice) and isinstance(idx, VInt):
            return VChar(z3.Select(base.base.arr, base.lo + idx.e))
        if isinstance(base, VSeq) and isinstance(idx, VInt):
            return VChar(base.e[idx.e])
        if isinstance(base, VTuple) and isinstance(idx, VInt) and z3.is_int_value(idx.e):
            return base.items[idx.e.as_long()]
        if isinstance(base, VCStr) and isinstance(idx, VInt) and z3.is_int_value(idx.e):
            return lift(base.s[idx.e.as_long()])
        if isinstance(base, VPy) and isinstance(base.obj, (tuple, list, str)) and isinstance(idx, VInt):
            items = list(base.obj)
            if z3.is_int_value(idx.e):
                return lift(items[idx.e.as_long()])
            out = lift(items[-1])
            for i in range(len(items) - 2, -1, -1):
                out = merge(idx.e == i, lift(items[i]), out)
            return out
        raise Unsupported("spec index %r[%r]" % (base, idx))

    def e_Attribute(self, node, env):
        base = self.expr(node.value, env)
        return self.attr(base, node.attr, env)

    def attr(self, base, name, env):
        if isinstance(base, VRef):
            st = env.state
            if st is None:
                raise Unsupported("attribute on object without state")
            return st.getattr(base, name)
        if isinstance(base, VData):
            return data_attr(base, name)
        if isinstance(base, VPy):
            return lift(getattr(base.obj, name))
        if isinstance(base, VCls):
            return lift(getattr(base.cls, name))
        raise Unsupported("spec attribute .%s on %r" % (name, base))

    def e_Call(self, node, env):
        if isinstance(node.func, ast.Name):
            fn = node.func.id
            if fn == "old":
                if env.old is None:
                    raise Unsupported("old() without pre-state")
                return self.expr(node.args[0], env.old)
            if fn == "entry":
                if env.entry is None:
                    raise Unsupported("entry() outside a loop invariant")
                return self.expr(node.args[0], env.entry)
            if fn == "implies":
                a, b = [truth(self.expr(x, env)) for x in node.args]
                return VBool(z3.Implies(a, b))
            if fn in ("forall", "exists"):
                lo, hi = self.expr(node.args[0], env), self.expr(node.args[1], env)
                lam = node.args[2]
                k = fresh("k")
                body = truth(self.expr(lam.body, env.child({lam.args.args[0].arg: VInt(k)})))
                rng = z3.And(lo.e <= k, k < hi.e)
                if fn == "forall":
                    return VBool(z3.ForAll([k], z3.Implies(rng, body)))
                return VBool(z3.Exists([k], z3.And(rng, body)))
            if fn == "len":
                v = self.expr(node.args[0], env)
                if isinstance(v, VTuple):
                    return VInt(len(v.items))
                if isinstance(v, VRef) and env.state is not None:
                    return env.state.len_of(v)
                return VInt(str_len(v))
            if fn == "ord":
                return VInt(char_of(self.expr(node.args[0], env)))
            if fn == "chr":
                return VChar(self.expr(node.args[0], env).e)
            if fn in ("min", "max") and len(node.args) == 2:
                a, b = [self.expr(x, env) for x in node.args]
                c = a.e <= b.e if fn == "min" else a.e >= b.e
                return VInt(z3.If(c, a.e, b.e))
            if fn == "isinstance":
                v = self.expr(node.args[0], env)
                cv = self.expr(node.args[1], env)
                if isinstance(v, VRef) and env.state is not None:
                    classes = [cv.cls] if isinstance(cv, VCls) else [c.cls for c in cv.items]
                    return VBool(any(issubclass(env.state.heap[v.oid].cls, c) for c in classes))
                return VBool(isinstance_expr(v, cv))
            if fn == "type":
                v = self.expr(node.args[0], env)
                if isinstance(v, VRef) and env.state is not None:
                    return VCls(env.state.heap[v.oid].cls)
                raise Unsupported("type() of %r" % (v,))
            if fn == "bool":
                return VBool(truth(self.expr(node.args[0], env)))
            if fn == "int" and len(node.args) == 1:
                v = self.expr(node.args[0], env)
                if isinstance(v, VBool):
                    return VInt(z3.If(v.e, 1, 0))
                if isinstance(v, VInt):
                    return v
            target = env.names.get(fn)
            if target is None:
                target = env.funcs.get(fn)
                if target is None:
                    raise Unsupported("unknown spec function %s" % fn)
                target = lift(target)
            args = [self.expr(a, env) for a in node.args]
            if isinstance(target, VPy) and inspect.isfunction(target.obj):
                return self.call_spec(target.obj, args, env)
            if isinstance(target, VCls):
                adt_ctor = self.ctor_lookup(target.cls)
                if adt_ctor:
                    adt, ctor = adt_ctor
                    return VData(adt.ctor(ctor)(*[a.e for a in args]), adt)
            raise Unsupported("call of %s in spec expression" % fn)
        if isinstance(node.func, ast.Attribute):
            base = self.expr(node.func.value, env)
            name = node.func.attr
            if isinstance(base, VStr) and name in ("isdigit", "isalnum", "isalpha", "isspace") and not node.args:
                return VBool(char_pred(name, char_of(base)))
            if isinstance(base, VCStr) and name == "join" and len(node.args) == 1 and env.state is not None:
                lst = self.expr(node.args[0], env)
                if isinstance(lst, VRef):
                    ho = env.state.heap[lst.oid]
                    if getattr(ho, "joined", None) is not None and base.s == "":
                        return VSeq(ho.joined)
                    if getattr(ho, "items", None) is not None and base.s == "":
                        if not ho.items:
                            return lift("")
                        seqs = [to_seq(x) for x in ho.items]
                        return VSeq(seqs[0] if len(seqs) == 1 else z3.Concat(*seqs))
                raise Unsupported("join in spec expression")
            if isinstance(base, VPy) and inspect.ismodule(base.obj):
                f = getattr(base.obj, name)
                return self.call_spec(f, [self.expr(a, env) for a in node.args], env)
        raise Unsupported("spec call %s" % ast.dump(node.func)[:80])

    def ctor_lookup(self, cls):
        for adt in self.adts.values():
            if cls.__name__ in adt.by_class:
                return adt, adt.by_class[cls.__name__]
        return None

    # -- spec functions ---------------------------------------------------------------
    def call_spec(self, f, args, env):
        if getattr(f, "__symbolic__", None):
            return f.__symbolic__(self, args, env)
        if self.is_recursive(f):
            return self.call_rec(f, args, env)
        return self.inline(f, args, env)

    def _bind(self, f, args):
        fa = self.func_ast(f)
        params = [a.arg for a in fa.args.args]
        if len(params) != len(args):
            raise Unsupported("arity of spec function %s" % f.__name__)
        return fa, params

    def inline(self, f, args, env):
        fa, params = self._bind(f, args)
        fenv = SpecEnv(dict(zip(params, args)), self._globals_of(f, env), env.state, None, None, env.execu)
        return self.block(fa.body, fenv)

    def _globals_of(self, f, env):
        g = dict(f.__globals__)
        g.update(env.funcs)
        return g

    def block(self, stmts, env):
        for i, st in enumerate(stmts):
            if isinstance(st, ast.Expr) and isinstance(st.value, ast.Constant):
                continue  # docstring
            if isinstance(st, ast.Assign) and len(st.targets) == 1:
                v = self.expr(st.value, env)
                t = st.targets[0]
                if isinstance(t, ast.Name):
                    env.names[t.id] = v
                elif isinstance(t, ast.Tuple) and isinstance(v, VTuple):
                    for tn, tv in zip(t.elts, v.items):
                        env.names[tn.id] = tv
                else:
                    raise Unsupported("spec assignment target")
                continue
            if isinstance(st, ast.Return):
                return self.expr(st.value, env) if st.value is not None else VNone()
            if isinstance(st, ast.If):
                c = z3.simplify(truth(self.expr(st.test, env)))
                rest = stmts[i + 1:]
                if z3.is_true(c):       # statically decided (kind tests on values of definite kind)
                    return self.block(list(st.body) + rest, env.child({}))
                if z3.is_false(c):
                    return self.block(list(st.orelse) + rest, env.child({}))
                a = self.block(list(st.body) + rest, env.child({}))
                b = self.block(list(st.orelse) + rest, env.child({}))
                return merge(c, a, b)
            if isinstance(st, ast.Pass):
                continue
            raise Unsupported("spec statement %s" % type(st).__name__)
        raise Unsupported("spec function falls off its end")

    def _sort_of(self, v):
        if isinstance(v, VInt):
            return z3.IntSort()
        if isinstance(v, VBool):
            return z3.BoolSort()
        if isinstance(v, VData):
            return v.adt.sort
        if isinstance(v, (VSeq, VCStr)):
            return IntSeq
        if isinstance(v, VChar):
            return z3.IntSort()
        raise Unsupported("sort of %r" % (v,))

    def call_rec(self, f, args, env):
        # string parameters bound to a symbolic text are closed over (specialisation key)
        key_parts, zargs, shapes = [f.__name__], [], []
        for a in args:
            if isinstance(a, VArr):
                key_parts.append("@" + a.tag)
                shapes.append(("arr", a))
            elif isinstance(a, VRef):
                key_parts.append("@obj")
                shapes.append(("arr", a))        # opaque object parameter: closed over, not part of the signature
            elif isinstance(a, (VInt, VBool, VData)):
                zargs.append(a.e)
                shapes.append(("z", type(a), getattr(a, "adt", None), a.e.sort()))
            elif isinstance(a, VChar):
                zargs.append(a.code)
                shapes.append(("z", VChar, None, z3.IntSort()))
            else:
                raise Unsupported("argument %r of recursive spec function %s" % (a, f.__name__))
            if shapes[-1][0] == "z":
                key_parts.append(str(shapes[-1][3]))
        key = tuple(key_parts)
        if key not in self.recfuns:
            self._define_rec(f, key, shapes, env)
        funcs, rshape = self.recfuns[key]
        return self._rebuild(rshape, [fn(*zargs) for fn in funcs])

    def _result_shape(self, f):
        """result shape from the return annotation: int | bool | str | Tuple[...] | ADT name."""
        ann = self.func_ast(f).returns
        if ann is None:
            raise Unsupported("recursive spec function %s needs a return annotation" % f.__name__)
        return self._shape_of_ann(ann)

    def _shape_of_ann(self, ann):
        if isinstance(ann, ast.Name):
            if ann.id in ("int", "bool", "str"):
                return ann.id
            if ann.id in self.adts:
                return ("adt", self.adts[ann.id])
        if isinstance(ann, ast.Subscript) and getattr(ann.value, "id", "") == "Tuple":
            elts = ann.slice.elts if isinstance(ann.slice, ast.Tuple) else [ann.slice]
            return ("tuple", [self._shape_of_ann(e) for e in elts])
        raise Unsupported("return annotation %s" % ast.dump(ann))

    def _flat_sorts(self, shape):
        if shape == "int":
            return [z3.IntSort()]
        if shape == "bool":
            return [z3.BoolSort()]
        if shape == "str":
            return [IntSeq]
        if shape[0] == "adt":
            return [shape[1].sort]
        out = []
        for s in shape[1]:
            out += self._flat_sorts(s)
        return out

    def _rebuild(self, shape, exprs):
        exprs = list(exprs)

        def go(sh):
            if sh == "int":
                return VInt(exprs.pop(0))
            if sh == "bool":
                return VBool(exprs.pop(0))
            if sh == "str":
                return VSeq(exprs.pop(0))
            if sh[0] == "adt":
                return VData(exprs.pop(0), sh[1])
            return VTuple([go(s) for s in sh[1]])
        return go(shape)

    def _flatten(self, shape, v):
        if shape == "int":
            if isinstance(v, VBool):
                return [z3.If(v.e, 1, 0)]
            if isinstance(v, VChar):
                return [v.code]
            return [v.e]
        if shape == "bool":
            return [truth(v)]
        if shape == "str":
            return [to_seq(v)]
        if shape[0] == "adt":
            return [v.e]
        out = []
        for s, x in zip(shape[1], v.items):
            out += self._flatten(s, x)
        return out

    def _define_rec(self, f, key, shapes, env):
        fa = self.func_ast(f)
        params = [a.arg for a in fa.args.args]
        rshape = self._result_shape(f)
        arg_sorts = [s[3] for s in shapes if s[0] == "z"]
        rsorts = self._flat_sorts(rshape)
        base = "%s%s" % (f.__name__, "".join(k for k in key[1:] if k.startswith("@") and k != "@obj"))
        funcs = [z3.RecFunction("%s#%d" % (base, i) if len(rsorts) > 1 else base, *(arg_sorts + [rs]))
                 for i, rs in enumerate(rsorts)]
        self.recfuns[key] = (funcs, rshape)
        names, zparams = {}, []
        for p, sh in zip(params, shapes):
            if sh[0] == "arr":
                names[p] = sh[1]
            else:
                c = z3.Const("%s.%s" % (base, p), sh[3])
                zparams.append(c)
                names[p] = VChar(c) if sh[1] is VChar else VData(c, sh[2]) if sh[1] is VData else sh[1](c)
        fenv = SpecEnv(names, self._globals_of(f, env), None, None, None, env.execu)
        body = self.block(fa.body, fenv)
        for fn, be in zip(funcs, self._flatten(rshape, body)):
            z3.RecAddDefinition(fn, zparams, be)


def data_attr(v, name):
    """attribute read on an ADT value in spec mode (total: accessor of the unique variant owning it)."""
    owners = [(ctor, fields) for ctor, fields in v.adt.fields.items() if any(f == name for f, _ in fields)]
    if not owners:
        raise Unsupported("ADT %s has no attribute %s" % (v.adt.name, name))
    out = None
    for ctor, fields in owners:
        srt = dict(fields)[name]
        e = v.adt.accessor(ctor, name, v.e)
        val = VData(e, v.adt) if srt == "self" else (VName(e) if name == "name" else VInt(e)) if srt == "int" else VBool(e)
        out = val if out is None else merge(v.adt.recognizer(ctor, v.e), val, out)
    return out


def isinstance_expr(v, cls_val):
    classes = []
    if isinstance(cls_val, VCls):
        classes = [cls_val.cls]
    elif isinstance(cls_val, VTuple):
        classes = [c.cls for c in cls_val.items]
    elif isinstance(cls_val, VPy) and isinstance(cls_val.obj, tuple):
        classes = list(cls_val.obj)
    else:
        raise Unsupported("isinstance second argument %r" % (cls_val,))
    if isinstance(v, VData):
        hits = []
        for ctor, cname, _ in v.adt.variants:
            if any(_adt_variant_subclass(v.adt, cname, c) for c in classes):
                hits.append(v.adt.recognizer(ctor, v.e))
        return z3.Or(hits) if hits else z3.BoolVal(False)
    py = {VInt: int, VBool: bool, VNone: type(None), VFloat: float, VTuple: tuple}
    for k, t in py.items():
        if isinstance(v, k):
            return z3.BoolVal(any(issubclass(t, c) for c in classes))
    if isinstance(v, VStr):
        return z3.BoolVal(any(issubclass(str, c) for c in classes))
    raise Unsupported("isinstance on %r" % (v,))


def _adt_variant_subclass(adt, variant_cls_name, cls):
    """variant's python class is a subclass of `cls`: decided by name through the adt's class map."""
    real = adt.py_classes.get(variant_cls_name)
    if real is None:
        raise Unsupported("ADT %s: python class of variant %s unknown" % (adt.name, variant_cls_name))
    return issubclass(real, cls)
