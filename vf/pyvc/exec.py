"""Engine A executor: path-wise symbolic execution of real Python source (AST re-read on every
run) with loops cut by sidecar invariants and calls replaced by sidecar contracts.

Style: continuation passing.  `ev(node, st, k)` evaluates an expression and calls `k(st, val)`
for every feasible way it can complete normally; exceptional completions are returned directly
as `(st, ('raise', excref))` results and bypass `k`.  Statement execution likewise; block
boundaries that need to look at outcomes (try, loops, inlined calls) use an explicit marker
continuation.  All results are lists of `(State, outcome)`.
"""
import ast
import builtins
import inspect
import textwrap

import z3

from .spec import (ADT, SpecEnv, SpecTranslator, char_of, char_pred, clip_slice, contains, data_attr,
                   fresh, isinstance_expr, lift, merge, str_cmp, str_eq, truth, val_eq)
from .values import (HDict, HList, HObj, IntSeq, Unsupported, VArr, VBool, VChar, VCls, VCStr, VData,
                     VFloat, VFunc, VInt, VPyInt, VNone, VOpaque, VPy, VRef, VSeq, VSlice, VStr, VTuple, Val,
                     str_len, to_seq)

MAXCP = 0x110000


class State:
    def __init__(self):
        self.env = {}
        self.heap = {}
        self.pc = []
        self.notes = []       # branch notes: path signature
        self.frames = []      # saved (env, cls_ctx, func) of callers during inlining
        self.cls_ctx = None
        self.func = None
        self.ghost = {}       # ghost counters / traces
        self.next_oid = [1]

    def fork(self):
        s = State.__new__(State)
        s.env = dict(self.env)
        s.heap = {k: v.copy() for k, v in self.heap.items()}
        s.pc = list(self.pc)
        s.notes = list(self.notes)
        s.frames = [(dict(e), c, f) for e, c, f in self.frames]
        s.cls_ctx = self.cls_ctx
        s.func = self.func
        s.ghost = dict(self.ghost)
        s.next_oid = self.next_oid
        return s

    def alloc(self, hobj):
        oid = self.next_oid[0]
        self.next_oid[0] += 1
        self.heap[oid] = hobj
        return VRef(oid)

    def assume(self, e):
        self.pc.append(e)

    def getattr(self, ref, name):
        ho = self.heap[ref.oid]
        if isinstance(ho, HObj):
            if name in ho.fields:
                return ho.fields[name]
            if name == "__class__":
                return VCls(ho.cls)
            if hasattr(ho.cls, name):
                return lift(getattr(ho.cls, name))
        raise Unsupported("attribute %s of %s" % (name, getattr(ho.cls, "__name__", ho.cls)))

    def len_of(self, ref):
        ho = self.heap[ref.oid]
        if isinstance(ho, HList) and ho.items is not None:
            return VInt(len(ho.items))
        if isinstance(ho, HDict):
            return VInt(len(ho.keys))
        raise Unsupported("len of heap object")


class Obligation:
    __slots__ = ("func", "kind", "clause", "pc", "goal", "path", "text", "scaffold", "line", "extra")

    def __init__(self, func, kind, clause, pc, goal, path, text, scaffold=False, line=0, extra=None):
        self.func, self.kind, self.clause = func, kind, clause
        self.pc, self.goal, self.path, self.text = list(pc), goal, path, text
        self.scaffold, self.line, self.extra = scaffold, line, extra or {}

    @property
    def oid(self):
        return "%s:%s:%s" % (self.func, self.kind, self.clause)


class Contract:
    """Sidecar contract of one real function (see contracts/*.py)."""

    def __init__(self, target, params=None, self_fields=None, requires=(), ensures=(), raises=None,
                 modifies=(), loops=None, returns=None, inline=False, decreases=None, cases=None,
                 ghost=None, assumed=False, note="", fresh_result=None, pure=False, bounded=None,
                 self_class=None, defaults_fixed=True, lemmas=()):
        self.target = target                  # "module:qualname"
        self.params = params or {}            # param -> kind spec
        self.self_fields = self_fields or {}  # field -> kind spec (for methods)
        self.requires = _named(requires, "pre")
        self.ensures = _named(ensures, "post")
        self.raises = {k: _named(v, "exc") for k, v in (raises or {}).items()}
        self.modifies = list(modifies)
        self.loops = loops or {}
        self.returns = returns                # kind spec of the result / list of class names
        self.inline = inline
        self.decreases = decreases
        self.cases = cases
        self.ghost = ghost or {}
        self.assumed = assumed
        self.note = note
        self.fresh_result = fresh_result
        self.pure = pure
        self.bounded = bounded
        self.self_class = self_class
        self.defaults_fixed = defaults_fixed
        self.lemmas = list(lemmas)

    @property
    def qualname(self):
        return self.target.split(":")[1]


def _named(clauses, prefix):
    out = []
    for i, c in enumerate(clauses):
        if isinstance(c, tuple):
            out.append(c)
        else:
            out.append(("%s%d" % (prefix, i + 1), c))
    return out


class Lemma:
    """A specification-level lemma proved by structural induction on one datatype parameter and then
    available (universally quantified) to the function proofs that name it."""

    def __init__(self, name, params, statement, induction_on, note=""):
        self.name, self.params, self.statement, self.induction_on, self.note = name, params, statement, induction_on, note


class Raise(Exception):
    pass


class Executor:
    def __init__(self, registry, spec_funcs, adts=None, feas_timeout_ms=400):
        self.registry = registry          # qualname / function object -> Contract
        self.spec_funcs = spec_funcs
        self.adts = adts or {}
        self.tr = SpecTranslator(spec_funcs, self.adts)
        self.obligations = []
        self.inputs = {}
        self.feas = z3.Solver()
        self.feas.set("timeout", feas_timeout_ms)
        self.cur_func = None
        self.paths = 0
        self.assumed_used = set()
        self.sources = {}

    # -------------------------------------------------------------------------------------
    # helpers
    def feasible(self, st):
        # pruning only: quantified facts (lemmas, code-point ranges) are left out, "unknown" counts as feasible
        r = self.feas.check(*[p for p in st.pc if not z3.is_quantifier(p)])
        return r != z3.unsat

    def branch(self, st, cond, note, k_true, k_false):
        """fork on z3 Bool `cond`."""
        cond = z3.simplify(cond)
        if z3.is_true(cond):
            return k_true(st)
        if z3.is_false(cond):
            return k_false(st)
        out = []
        s1 = st.fork()
        s1.assume(cond)
        s1.notes.append(note + "+")
        if self.feasible(s1):
            out += k_true(s1)
        s2 = st
        s2.assume(z3.Not(cond))
        s2.notes.append(note + "-")
        if self.feasible(s2):
            out += k_false(s2)
        return out

    def oblige(self, st, kind, clause, goal, text, scaffold=False, line=0, extra=None):
        self.obligations.append(Obligation(self.cur_func, kind, clause, st.pc, goal,
                                           "/".join(st.notes), text, scaffold, line, extra))

    def raise_(self, st, cls, fields=None, line=0):
        ref = st.alloc(HObj(cls, dict(fields or {})))
        st.notes.append("raise:%s@%d" % (cls.__name__, line))
        return [(st, ("raise", ref))]

    def spec_env(self, st, names=None, old=None, entry=None):
        nm = dict(st.env)
        if names:
            nm.update(names)
        return SpecEnv(nm, self._funcs_for(st), st, old, entry, self)

    def _funcs_for(self, st):
        g = {}
        if st.func is not None:
            g.update(st.func.__globals__)
        g.update(self.spec_funcs)
        return g

    def spec_bool(self, text, st, names=None, old=None, entry=None):
        node = ast.parse(text.strip(), mode="eval").body
        return truth(self.tr.expr(node, self.spec_env(st, names, old, entry)))

    def spec_val(self, text, st, names=None, old=None, entry=None):
        node = ast.parse(text.strip(), mode="eval").body
        return self.tr.expr(node, self.spec_env(st, names, old, entry))

    # -------------------------------------------------------------------------------------
    # fresh values by kind spec
    def fresh_value(self, st, kind, name):
        """kind spec -> fresh symbolic value (+ assumptions of its type invariant)."""
        if isinstance(kind, Val):
            return kind
        if kind == "int":
            return VPyInt(fresh(name))
        if kind == "nat":
            v = fresh(name)
            st.assume(v >= 0)
            return VInt(v)
        if kind == "bool":
            return VBool(fresh(name, "bool"))
        if kind == "none":
            return VNone()
        if kind == "char":
            c = fresh(name)
            st.assume(z3.And(c >= 0, c < MAXCP))
            return VChar(c)
        if kind == "float":
            r, c = fresh(name, z3.RealSort()), fresh(name + ".cls")
            st.assume(z3.And(c >= 0, c <= 3))
            return VFloat(r, c)
        if kind == "text":
            arr = z3.Array("%s.cp" % name, z3.IntSort(), z3.IntSort())
            n = z3.Int("%s.len" % name)
            st.assume(n >= 0)
            k = z3.Int("k!cp")
            st.assume(z3.ForAll([k], z3.And(z3.Select(arr, k) >= 0, z3.Select(arr, k) < MAXCP)))
            return VArr(arr, n, name)
        if kind == "seqstr":
            s = fresh(name, IntSeq)
            return VSeq(s)
        if kind == "opaque":
            return VOpaque()
        if isinstance(kind, str) and kind in self.adts:
            return VData(fresh(name, self.adts[kind].sort), self.adts[kind])
        if isinstance(kind, str) and kind.startswith("const:"):
            return lift(eval(kind[6:]))
        if isinstance(kind, tuple) and kind[0] == "tokobj":
            import py_gql.lang.token as T
            cls = getattr(T, kind[1])
            fv = {f: self.fresh_value(st, fk, "%s.%s" % (name, f)) for f, fk in kind[2].items()}
            return st.alloc(HObj(cls, fv))
        if isinstance(kind, tuple) and kind[0] == "slice":
            base = self.spec_val(kind[1], st)
            lo, hi = fresh(name + ".lo"), fresh(name + ".hi")
            st.assume(z3.And(0 <= lo, lo <= hi, hi <= base.n))
            return VSlice(base, lo, hi)
        if isinstance(kind, tuple) and kind[0] == "obj":
            cls, fields = kind[1], kind[2]
            fv = {f: self.fresh_value(st, fk, "%s.%s" % (name, f)) for f, fk in fields.items()}
            return st.alloc(HObj(cls, fv))
        if isinstance(kind, tuple) and kind[0] == "strlist":
            return st.alloc(HList(None, fresh(name, IntSeq)))
        if isinstance(kind, tuple) and kind[0] == "tuple":
            return VTuple([self.fresh_value(st, k, "%s.%d" % (name, i)) for i, k in enumerate(kind[1])])
        raise Unsupported("kind spec %r" % (kind,))

    def havoc_like(self, st, v, name):
        if isinstance(v, VInt):
            return VInt(fresh(name))
        if isinstance(v, VBool):
            return VBool(fresh(name, "bool"))
        if isinstance(v, (VChar,)):
            return self.fresh_value(st, "char", name)
        if isinstance(v, VCStr) and len(v.s) == 1:
            return self.fresh_value(st, "char", name)
        if isinstance(v, VSeq):
            return VSeq(fresh(name, IntSeq))
        if isinstance(v, VData):
            return VData(fresh(name, v.adt.sort), v.adt)
        if isinstance(v, VRef):
            ho = st.heap[v.oid]
            if isinstance(ho, HList):
                if ho.items is not None and not all(isinstance(x, VStr) for x in ho.items):
                    raise Unsupported("havoc of non-string list %s" % name)
                ho.items, ho.joined = None, fresh(name, IntSeq)
                return v
        if isinstance(v, VNone):
            return v
        raise Unsupported("havoc of %s = %r" % (name, v))

    # -------------------------------------------------------------------------------------
    # expressions
    def ev(self, node, st, k):
        m = getattr(self, "x_" + type(node).__name__, None)
        if m is None:
            raise Unsupported("expression %s (line %s)" % (type(node).__name__, getattr(node, "lineno", "?")))
        return m(node, st, k)

    def ev_list(self, nodes, st, k, acc=None):
        acc = acc or []
        if not nodes:
            return k(st, acc)
        return self.ev(nodes[0], st, lambda s, v: self.ev_list(nodes[1:], s, k, acc + [v]))

    def x_Constant(self, node, st, k):
        return k(st, lift(node.value))

    def x_Name(self, node, st, k):
        if node.id in st.env:
            return k(st, st.env[node.id])
        g = st.func.__globals__ if st.func is not None else {}
        if node.id in g:
            return k(st, lift(g[node.id]))
        if hasattr(builtins, node.id):
            return k(st, lift(getattr(builtins, node.id)))
        raise Unsupported("unbound name %s (line %d)" % (node.id, node.lineno))

    def x_Tuple(self, node, st, k):
        return self.ev_list(node.elts, st, lambda s, vs: k(s, VTuple(vs)))

    def x_List(self, node, st, k):
        return self.ev_list(node.elts, st, lambda s, vs: k(s, s.alloc(HList(list(vs)))))

    def x_Dict(self, node, st, k):
        keys = []
        for kn in node.keys:
            if not (isinstance(kn, ast.Constant) and isinstance(kn.value, str)):
                raise Unsupported("dict display with non-constant key")
            keys.append(kn.value)

        def done(s, vs):
            return k(s, s.alloc(HDict(keys, dict(zip(keys, vs)))))
        return self.ev_list(node.values, st, done)

    def x_JoinedStr(self, node, st, k):
        return k(st, VOpaque())

    def x_UnaryOp(self, node, st, k):
        def go(s, v):
            if isinstance(node.op, ast.Not):
                return k(s, VBool(z3.Not(truth(v))))
            if isinstance(node.op, ast.USub) and isinstance(v, VInt):
                return k(s, VInt(-v.e))
            raise Unsupported("unary op %s" % type(node.op).__name__)
        return self.ev(node.operand, st, go)

    def x_BoolOp(self, node, st, k):
        is_and = isinstance(node.op, ast.And)

        def step(i, s, v):
            if i == len(node.values) - 1:
                return k(s, v)
            t = truth(v)
            cont = lambda s2: self.ev(node.values[i + 1], s2, lambda s3, v3: step(i + 1, s3, v3))
            stop = lambda s2: k(s2, v)
            note = "L%d.%s%d" % (node.lineno, "and" if is_and else "or", i)
            if is_and:
                return self.branch(s, t, note, cont, stop)
            return self.branch(s, t, note, stop, cont)
        return self.ev(node.values[0], st, lambda s, v: step(0, s, v))

    def x_IfExp(self, node, st, k):
        def go(s, c):
            return self.branch(s, truth(c), "L%d.ifexp" % node.lineno,
                               lambda s2: self.ev(node.body, s2, k),
                               lambda s2: self.ev(node.orelse, s2, k))
        return self.ev(node.test, st, go)

    def x_BinOp(self, node, st, k):
        def go(s, vs):
            a, b = vs
            op = type(node.op).__name__
            if op == "Mod" and isinstance(a, VStr):
                return k(s, VOpaque())          # %-formatting: opaque string producer
            if op in ("FloorDiv", "Mod") and isinstance(b, VInt):
                return self.branch(s, b.e == 0, "L%d.div0" % node.lineno,
                                   lambda s2: self.raise_(s2, ZeroDivisionError, line=node.lineno),
                                   lambda s2: k(s2, self.tr.binop(op, a, b)))
            if op == "Add" and isinstance(a, VRef) and isinstance(b, VRef):
                la, lb = s.heap[a.oid], s.heap[b.oid]
                if isinstance(la, HList) and isinstance(lb, HList) and la.items is not None and lb.items is not None:
                    return k(s, s.alloc(HList(la.items + lb.items)))
            return k(s, self.tr.binop(op, a, b))
        return self.ev_list([node.left, node.right], st, go)

    def x_Compare(self, node, st, k):
        def go(s, vs):
            left, out = vs[0], []
            for op, right in zip(node.ops, vs[1:]):
                out.append(self.tr.compare(type(op).__name__, left, right))
                left = right
            return k(s, VBool(z3.And(out) if len(out) > 1 else out[0]))
        # (chained comparisons evaluate every operand eagerly here; operands in the subset are pure)
        return self.ev_list([node.left] + list(node.comparators), st, go)

    def x_Attribute(self, node, st, k):
        def go(s, base):
            return self.getattr(s, base, node.attr, node.lineno, k)
        return self.ev(node.value, st, go)

    def getattr(self, s, base, name, line, k):
        if isinstance(base, VRef):
            ho = s.heap[base.oid]
            if isinstance(ho, HObj):
                if name in ho.fields:
                    return k(s, ho.fields[name])
                if name == "__class__":
                    return k(s, VCls(ho.cls))
                cattr = inspect.getattr_static(ho.cls, name, None) if isinstance(ho.cls, type) else None
                if isinstance(cattr, property):
                    return self.call_function(s, cattr.fget, [base], {}, line, k, cls_ctx=_defining_class(ho.cls, name))
                if cattr is not None:
                    if inspect.isfunction(cattr):
                        return k(s, VPy(("method", base, cattr, _defining_class(ho.cls, name))))
                    if isinstance(cattr, (staticmethod, classmethod)):
                        raise Unsupported("static/class method %s" % name)
                    if type(cattr).__name__ == "member_descriptor":
                        return self.raise_(s, AttributeError, line=line)
                    return k(s, lift(getattr(ho.cls, name)))
                return self.raise_(s, AttributeError, line=line)
            return k(s, VPy(("method", base, name, None)))
        if isinstance(base, VData):
            owners = [c for c, fields in base.adt.fields.items() if any(f == name for f, _ in fields)]
            if not owners:
                return self.raise_(s, AttributeError, line=line)
            ok = z3.Or([base.adt.recognizer(c, base.e) for c in owners])
            return self.branch(s, ok, "L%d.attr" % line,
                               lambda s2: k(s2, data_attr(base, name)),
                               lambda s2: self.raise_(s2, AttributeError, line=line))
        if isinstance(base, VPy):
            return k(s, lift(getattr(base.obj, name)))
        if isinstance(base, VCls):
            return k(s, lift(getattr(base.cls, name)))
        if isinstance(base, (VStr, VTuple, VInt, VFloat)):
            return k(s, VPy(("method", base, name, None)))
        if isinstance(base, VNone):
            return self.raise_(s, AttributeError, line=line)
        raise Unsupported("attribute .%s on %r (line %d)" % (name, base, line))

    def x_Subscript(self, node, st, k):
        if isinstance(node.slice, ast.Slice):
            parts = [node.value] + [p for p in (node.slice.lower, node.slice.upper) if p is not None]
            if node.slice.step is not None:
                parts.append(node.slice.step)

            def go(s, vs):
                base, rest = vs[0], list(vs[1:])
                lo = rest.pop(0) if node.slice.lower is not None else None
                hi = rest.pop(0) if node.slice.upper is not None else None
                if node.slice.step is not None:
                    step = rest.pop(0)
                    return k(s, self.slice_step(s, base, lo, hi, step))
                if isinstance(base, VRef):
                    ho = s.heap[base.oid]
                    if isinstance(ho, HList) and ho.items is not None and all(
                            x is None or (isinstance(x, VInt) and z3.is_int_value(x.e)) for x in (lo, hi)):
                        sl = slice(lo.e.as_long() if lo else None, hi.e.as_long() if hi else None)
                        return k(s, s.alloc(HList(ho.items[sl])))
                    raise Unsupported("slice of heap object")
                return k(s, self.tr.slice(base, lo, hi))
            return self.ev_list(parts, st, go)

        def go(s, vs):
            return self.index(s, vs[0], vs[1], node.lineno, k)
        return self.ev_list([node.value, node.slice], st, go)

    def slice_step(self, s, base, lo, hi, step):
        if isinstance(base, VRef) and lo is None and hi is None and isinstance(step, VInt) and z3.is_int_value(step.e):
            ho = s.heap[base.oid]
            if isinstance(ho, HList) and ho.items is not None:
                return s.alloc(HList(ho.items[::step.e.as_long()]))
        if isinstance(base, VTuple) and lo is None and hi is None and z3.is_int_value(step.e):
            return VTuple(base.items[::step.e.as_long()])
        raise Unsupported("extended slice")

    def index(self, s, base, idx, line, k):
        if isinstance(base, (VArr, VSlice, VSeq)) and isinstance(idx, VInt):
            n = str_len(base)
            i = idx.e

            def sel_in(st_, j):
                v = self.tr.index(base, VInt(j))
                if isinstance(base, (VArr, VSlice)):
                    st_.assume(z3.And(v.code >= 0, v.code < MAXCP))   # instance of the text's code-point range
                return v

            def neg(s2):
                return self.branch(s2, z3.And(i < 0, i >= -n), "L%d.negidx" % line,
                                   lambda s3: k(s3, sel_in(s3, i + n)),
                                   lambda s3: self.raise_(s3, IndexError, line=line))
            return self.branch(s, z3.And(i >= 0, i < n), "L%d.idx" % line, lambda s2: k(s2, sel_in(s2, i)), neg)
        if isinstance(base, (VCStr, VTuple)) or (isinstance(base, VPy) and isinstance(base.obj, (tuple, list, str))):
            items = (list(base.s) if isinstance(base, VCStr) else base.items if isinstance(base, VTuple)
                     else list(base.obj))
            as_val = (lambda x: x) if isinstance(base, VTuple) else lift
            if isinstance(idx, VInt) and z3.is_int_value(idx.e):
                j = idx.e.as_long()
                if -len(items) <= j < len(items):
                    return k(s, as_val(items[j]))
                return self.raise_(s, IndexError, line=line)
            if isinstance(idx, VInt):
                out = []
                for j in range(-len(items), len(items)):
                    s2 = s.fork()
                    s2.assume(idx.e == j)
                    s2.notes.append("L%d.i=%d" % (line, j))
                    if self.feasible(s2):
                        out += k(s2, as_val(items[j]))
                s.assume(z3.Or(idx.e < -len(items), idx.e >= len(items)))
                if self.feasible(s):
                    out += self.raise_(s, IndexError, line=line)
                return out
        if isinstance(base, VPy) and isinstance(base.obj, dict):
            out = []
            misses = []
            for key, val in base.obj.items():
                kv = lift(key)
                eq = val_eq(idx, kv)
                s2 = s.fork()
                s2.assume(eq)
                s2.notes.append("L%d.key=%r" % (line, key))
                if self.feasible(s2):
                    out += k(s2, lift(val))
                misses.append(z3.Not(eq))
            s.assume(z3.And(misses) if misses else z3.BoolVal(True))
            s.notes.append("L%d.keymiss" % line)
            if self.feasible(s):
                out += self.raise_(s, KeyError, line=line)
            return out
        if isinstance(base, VRef):
            ho = s.heap[base.oid]
            if isinstance(ho, HList) and ho.items is not None and isinstance(idx, VInt):
                items = ho.items
                if z3.is_int_value(idx.e):
                    j = idx.e.as_long()
                    if -len(items) <= j < len(items):
                        return k(s, items[j])
                    return self.raise_(s, IndexError, line=line)
            if isinstance(ho, HDict) and isinstance(idx, (VCStr, VChar)):
                key = idx.s if isinstance(idx, VCStr) else None
                if key is None and z3.is_int_value(idx.code):
                    key = chr(idx.code.as_long())
                if key is not None:
                    if key in ho.vals:
                        return k(s, ho.vals[key])
                    return self.raise_(s, KeyError, line=line)
        raise Unsupported("index %r[%r] (line %d)" % (base, idx, line))

    def x_Lambda(self, node, st, k):
        return k(st, VFunc(node, dict(st.env)))

    def x_ListComp(self, node, st, k):
        return self._comp(node, st, k, "list")

    def x_GeneratorExp(self, node, st, k):
        return self._comp(node, st, k, "list")

    def _comp(self, node, st, k, kind):
        if len(node.generators) != 1:
            raise Unsupported("nested comprehension")
        gen = node.generators[0]

        def have_iter(s, itv):
            items = self.concrete_items(s, itv)
            if items is None:
                raise Unsupported("comprehension over symbolic-length iterable (line %d)" % node.lineno)
            saved = dict(s.env)

            def step(i, s2, acc):
                if i == len(items):
                    s2.env = {**s2.env, **{n: v for n, v in saved.items()}}
                    return k(s2, s2.alloc(HList(acc)))
                self.bind_target(s2, gen.target, items[i])

                def conds(j, s3):
                    if j == len(gen.ifs):
                        return self.ev(node.elt, s3, lambda s4, v: step(i + 1, s4, acc + [v]))
                    return self.ev(gen.ifs[j], s3, lambda s4, c: self.branch(
                        s4, truth(c), "L%d.compif%d.%d" % (node.lineno, i, j),
                        lambda s5: conds(j + 1, s5), lambda s5: step(i + 1, s5, acc)))
                return conds(0, s2)
            return step(0, s, [])
        return self.ev(gen.iter, st, have_iter)

    def concrete_items(self, s, v):
        if isinstance(v, VTuple):
            return list(v.items)
        if isinstance(v, VCStr):
            return [lift(c) for c in v.s]
        if isinstance(v, VRef):
            ho = s.heap[v.oid]
            if isinstance(ho, HList) and ho.items is not None:
                return list(ho.items)
            if isinstance(ho, HDict):
                return [lift(x) for x in ho.keys]
        if isinstance(v, VPy):
            if isinstance(v.obj, (tuple, list, str)):
                return [lift(x) for x in v.obj]
            if isinstance(v.obj, range):
                return [VInt(x) for x in v.obj]
            if isinstance(v.obj, tuple) and v.obj and v.obj[0] == "items":
                return v.obj[1]
        return None

    # -------------------------------------------------------------------------------------
    # calls
    def x_Call(self, node, st, k):
        if any(isinstance(a, ast.Starred) for a in node.args) or any(kw.arg is None for kw in node.keywords):
            raise Unsupported("star-args call (line %d)" % node.lineno)
        # super().__init__(...) and friends
        if (isinstance(node.func, ast.Attribute) and isinstance(node.func.value, ast.Call)
                and isinstance(node.func.value.func, ast.Name) and node.func.value.func.id == "super"):
            return self.call_super(node, st, k)

        def have_func(s, f):
            argn = list(node.args) + [kw.value for kw in node.keywords]

            def have_args(s2, vs):
                pos = vs[:len(node.args)]
                kws = {kw.arg: v for kw, v in zip(node.keywords, vs[len(node.args):])}
                return self.call(s2, f, pos, kws, node.lineno, k)
            return self.ev_list(argn, s, have_args)
        return self.ev(node.func, st, have_func)

    def call_super(self, node, st, k):
        name = node.func.attr
        selfv = st.env.get("self")
        if st.cls_ctx is None or selfv is None:
            raise Unsupported("super() outside an inlined method")
        ho = st.heap[selfv.oid]
        mro = ho.cls.__mro__
        start = mro.index(st.cls_ctx) + 1
        target, owner = None, None
        for c in mro[start:]:
            if name in c.__dict__:
                target, owner = c.__dict__[name], c
                break
        argn = list(node.args) + [kw.value for kw in node.keywords]

        def have_args(s2, vs):
            pos = vs[:len(node.args)]
            kws = {kw.arg: v for kw, v in zip(node.keywords, vs[len(node.args):])}
            if inspect.isfunction(target):
                return self.call_function(s2, target, [selfv] + pos, kws, node.lineno, k, cls_ctx=owner)
            if name == "__init__":
                if owner is not None and issubclass(owner, BaseException):
                    s2.heap[selfv.oid].fields.setdefault("args", VTuple(pos))
                return k(s2, VNone())      # builtin initialiser (object / Exception): no user-visible fields
            raise Unsupported("super().%s resolves to a builtin" % name)
        return self.ev_list(argn, st, have_args)

    def call(self, s, f, pos, kws, line, k):
        if isinstance(f, VFunc):
            return self.call_closure(s, f, pos, kws, line, k)
        if isinstance(f, VCls):
            return self.construct(s, f.cls, pos, kws, line, k)
        if isinstance(f, VPy):
            obj = f.obj
            if isinstance(obj, tuple) and obj and obj[0] == "method":
                _, base, meth, owner = obj
                if isinstance(meth, str):
                    return self.call_builtin_method(s, base, meth, pos, kws, line, k)
                return self.call_function(s, meth, [base] + pos, kws, line, k, cls_ctx=owner)
            if inspect.isfunction(obj):
                return self.call_function(s, obj, pos, kws, line, k)
            if isinstance(obj, type) and issubclass(obj, BaseException):
                return self.construct(s, obj, pos, kws, line, k)
            if inspect.isbuiltin(obj) or isinstance(obj, type):
                return self.call_builtin(s, obj, pos, kws, line, k)
        raise Unsupported("call of %r (line %d)" % (f, line))

    def contract_for(self, func, cls_ctx=None):
        c = self.registry.get(func)
        if c is None:
            c = self.registry.get(getattr(func, "__qualname__", None))
        return c

    def call_function(self, s, func, pos, kws, line, k, cls_ctx=None):
        c = self.contract_for(func)
        if c is not None and not c.inline:
            return self.call_by_contract(s, func, c, pos, kws, line, k)
        if c is None and not getattr(func, "__module__", "").startswith(("py_gql", "spec")):
            raise Unsupported("call of uncontracted external function %s (line %d)" % (getattr(func, "__qualname__", func), line))
        if c is None and func.__name__ != "__init__" and not _small(func):
            raise Unsupported("call of %s without contract (line %d)" % (func.__qualname__, line))
        return self.inline_function(s, func, pos, kws, line, k, cls_ctx)

    def bind_args(self, func, pos, kws):
        sig = inspect.signature(func)
        params = list(sig.parameters.values())
        bound, pos = {}, list(pos)
        for p in params:
            if p.kind in (p.POSITIONAL_ONLY, p.POSITIONAL_OR_KEYWORD):
                if pos:
                    bound[p.name] = pos.pop(0)
                elif p.name in kws:
                    bound[p.name] = kws.pop(p.name)
                elif p.default is not p.empty:
                    bound[p.name] = lift(p.default)
                else:
                    raise Unsupported("missing argument %s of %s" % (p.name, func.__qualname__))
            elif p.kind == p.KEYWORD_ONLY:
                if p.name in kws:
                    bound[p.name] = kws.pop(p.name)
                elif p.default is not p.empty:
                    bound[p.name] = lift(p.default)
                else:
                    raise Unsupported("missing kw argument %s" % p.name)
            elif p.kind == p.VAR_POSITIONAL:
                bound[p.name] = VTuple(pos)
                pos = []
            else:
                raise Unsupported("**kwargs parameter")
        if pos or kws:
            raise Unsupported("too many arguments for %s" % func.__qualname__)
        return bound

    def func_ast(self, func):
        if func not in self.sources:
            src = textwrap.dedent(inspect.getsource(func))
            tree = ast.parse(src).body[0]
            first = func.__code__.co_firstlineno
            ast.increment_lineno(tree, first - tree.lineno if not tree.decorator_list else first - tree.decorator_list[0].lineno)
            self.sources[func] = tree
        return self.sources[func]

    def inline_function(self, s, func, pos, kws, line, k, cls_ctx=None):
        bound = self.bind_args(func, pos, dict(kws))
        tree = self.func_ast(func)
        if len(s.frames) > 12:
            raise Unsupported("inlining depth")
        s.frames.append((s.env, s.cls_ctx, s.func))
        s.env, s.cls_ctx, s.func = dict(bound), cls_ctx, func
        # name-mangled private parameter names (class bodies): AST names are unmangled; map both
        for p in list(bound):
            if p.startswith("_") and "__" in p[1:]:
                s.env[p[p.index("__", 1):]] = bound[p]
        res = self.ex_block(tree.body, s, lambda s2: [(s2, ("fell",))])
        out = []
        for s2, oc in res:
            if oc[0] in ("fell", "ret"):
                env, cc, fn = s2.frames.pop()
                s2.env, s2.cls_ctx, s2.func = env, cc, fn
                out += k(s2, oc[1] if oc[0] == "ret" else VNone())
            elif oc[0] == "raise":
                env, cc, fn = s2.frames.pop()
                s2.env, s2.cls_ctx, s2.func = env, cc, fn
                out.append((s2, oc))
            else:
                raise Unsupported("break/continue escaping a function")
        return out

    def call_closure(self, s, f, pos, kws, line, k):
        node = f.node
        if isinstance(node, ast.Lambda):
            names = [a.arg for a in node.args.args]
            if len(names) != len(pos) or kws:
                raise Unsupported("lambda arity")
            saved = s.env
            s.env = {**f.env, **dict(zip(names, pos))}

            def back(s2, v):
                s2.env = saved
                return k(s2, v)
            return self.ev(node.body, s, back)
        raise Unsupported("inner def call")

    def construct(self, s, cls, pos, kws, line, k):
        adt_ctor = self.tr.ctor_lookup(cls)
        if adt_ctor:
            adt, ctor = adt_ctor
            return k(s, VData(adt.ctor(ctor)(*[a.e for a in pos]), adt))
        if cls.__module__ == "builtins" and not issubclass(cls, BaseException):
            return self.call_builtin(s, cls, pos, kws, line, k)
        ref = s.alloc(HObj(cls, {}))
        init, owner = None, None
        for c in cls.__mro__:
            if "__init__" in c.__dict__:
                init, owner = c.__dict__["__init__"], c
                break
        if inspect.isfunction(init):
            return self.call_function(s, init, [ref] + list(pos), kws, line, lambda s2, _v: k(s2, ref), cls_ctx=owner)
        if issubclass(cls, BaseException):
            s.heap[ref.oid].fields["args"] = VTuple(pos)
            return k(s, ref)
        if pos or kws:
            raise Unsupported("constructor of %s with builtin __init__" % cls.__name__)
        return k(s, ref)

    # -- builtins (assumed contracts; exercised against CPython by co-execution) -------------
    def call_builtin(self, s, f, pos, kws, line, k):
        name = getattr(f, "__name__", str(f))
        if name == "len" and len(pos) == 1:
            v = pos[0]
            if isinstance(v, VRef):
                ho = s.heap[v.oid]
                if isinstance(ho, HList) and ho.items is not None:
                    return k(s, VInt(len(ho.items)))
                if isinstance(ho, HDict):
                    return k(s, VInt(len(ho.keys)))
                raise Unsupported("len of symbolic list")
            if isinstance(v, VTuple):
                return k(s, VInt(len(v.items)))
            if isinstance(v, VPy) and hasattr(v.obj, "__len__"):
                return k(s, VInt(len(v.obj)))
            return k(s, VInt(str_len(v)))
        if name == "isinstance" and len(pos) == 2:
            v = pos[0]
            if isinstance(v, VRef):
                ho = s.heap[v.oid]
                classes = [pos[1].cls] if isinstance(pos[1], VCls) else [c.cls for c in pos[1].items]
                return k(s, VBool(any(issubclass(ho.cls, c) for c in classes)))
            return k(s, VBool(isinstance_expr(v, pos[1])))
        if name == "bool" and len(pos) == 1:
            return k(s, VBool(truth(pos[0])))
        if name == "str" and len(pos) == 1:
            if isinstance(pos[0], VStr):
                return k(s, pos[0])
            return k(s, VOpaque())
        if name == "repr":
            return k(s, VOpaque())
        if name == "ord" and len(pos) == 1:
            return k(s, VInt(char_of(pos[0])))
        if name == "chr" and len(pos) == 1 and isinstance(pos[0], VInt):
            c = pos[0].e
            return self.branch(s, z3.And(c >= 0, c < MAXCP), "L%d.chr" % line,
                               lambda s2: k(s2, VChar(c)),
                               lambda s2: self.raise_(s2, ValueError, line=line))
        if name == "int":
            return self.builtin_int(s, pos, kws, line, k)
        if name == "type" and len(pos) == 1:
            v = pos[0]
            if isinstance(v, VRef):
                return k(s, VCls(s.heap[v.oid].cls))
            py = {VInt: int, VBool: bool, VNone: type(None), VFloat: float, VTuple: tuple}
            for kk, t in py.items():
                if isinstance(v, kk):
                    return k(s, VCls(t))
            if isinstance(v, VStr):
                return k(s, VCls(str))
            if isinstance(v, VData):
                # class of an ADT value as an integer tag (only comparable with other such tags)
                tag = z3.IntVal(len(v.adt.variants))
                for i, (ctor, _c, _f) in enumerate(v.adt.variants):
                    tag = z3.If(v.adt.recognizer(ctor, v.e), z3.IntVal(i), tag)
                return k(s, VInt(tag))
        if name in ("min", "max") and len(pos) == 2 and all(isinstance(p, VInt) for p in pos):
            a, b = pos
            c = a.e <= b.e if name == "min" else a.e >= b.e
            return k(s, VInt(z3.If(c, a.e, b.e)))
        if name == "range":
            if all(isinstance(p, VInt) and z3.is_int_value(p.e) for p in pos):
                return k(s, VPy(range(*[p.e.as_long() for p in pos])))
            return k(s, VPy(("range", pos)))
        if name == "enumerate" and len(pos) == 1:
            return k(s, VPy(("enumerate", pos[0])))
        if name == "list" and len(pos) <= 1:
            if not pos:
                return k(s, s.alloc(HList([])))
            items = self.concrete_items(s, pos[0])
            if items is not None:
                return k(s, s.alloc(HList(items)))
        if name == "tuple" and len(pos) == 1:
            items = self.concrete_items(s, pos[0])
            if items is not None:
                return k(s, VTuple(items))
        if name == "dict" and len(pos) == 1 and isinstance(pos[0], VRef) and isinstance(s.heap[pos[0].oid], HDict):
            return k(s, s.alloc(s.heap[pos[0].oid].copy()))
        if name == "float" and len(pos) == 1:
            v = pos[0]
            if isinstance(v, VCStr) and v.s.strip().lower() in ("inf", "+inf", "infinity", "+infinity", "-inf", "-infinity", "nan", "+nan", "-nan"):
                # float() of a literal naming a non-finite value (CPython: case-insensitive, surrounding blanks ignored)
                t = v.s.strip().lower()
                return k(s, VFloat(z3.RealVal(0), 1 if "nan" in t else (3 if t.startswith("-") else 2)))
            if isinstance(v, VFloat):
                return k(s, v)
            if isinstance(v, VBool):
                return k(s, VFloat(z3.If(v.e, z3.RealVal(1), z3.RealVal(0)), 0))
            if isinstance(v, VInt):
                # int -> float: rounding is not modelled (a real stands for the double); OverflowError beyond 2**1024
                lim = z3.IntVal(2 ** 1024)
                return self.branch(s, z3.And(v.e < lim, v.e > -lim), "L%d.float" % line,
                                   lambda s2: k(s2, VFloat(fresh("float.of.int", z3.RealSort()), 0)),
                                   lambda s2: self.raise_(s2, OverflowError, line=line))
        raise Unsupported("builtin %s%r (line %d)" % (name, tuple(pos), line))

    def builtin_int(self, s, pos, kws, line, k):
        if len(pos) == 1:
            v = pos[0]
            if isinstance(v, VBool):
                return k(s, VInt(z3.If(v.e, 1, 0)))
            if isinstance(v, VInt):
                return k(s, v)
            if isinstance(v, VFloat):
                # int(float): ValueError on NaN, OverflowError on +-inf, else truncation toward zero
                def finite(s2):
                    r = v.r
                    fl = z3.ToInt(r)
                    tr = z3.If(r >= 0, fl, z3.If(z3.ToReal(fl) == r, fl, fl + 1))
                    t = fresh("trunc")
                    s2.assume(t == tr)
                    return k(s2, VInt(t))
                return self.branch(s, v.nan, "L%d.nan" % line,
                                   lambda s2: self.raise_(s2, ValueError, line=line),
                                   lambda s2: self.branch(s2, v.inf, "L%d.inf" % line,
                                                          lambda s3: self.raise_(s3, OverflowError, line=line), finite))
        if len(pos) == 2 and isinstance(pos[1], VInt) and z3.is_int_value(pos[1].e) and pos[1].e.as_long() == 16:
            v = pos[0]
            if isinstance(v, VSlice):
                # assumed contract of int(s, 16), exact only on ASCII hex-digit strings of known small
                # length; on every other string the outcome is left unspecified (ValueError or any int)
                ln = v.hi - v.lo
                out = []
                for L in range(1, 9):
                    s2 = s.fork()
                    cs = [z3.Select(v.base.arr, v.lo + i) for i in range(L)]
                    allhex = z3.And([_is_hex(c) for c in cs])
                    s2.assume(z3.And(ln == L, allhex))
                    s2.notes.append("L%d.hex%d" % (line, L))
                    if self.feasible(s2):
                        val = z3.IntVal(0)
                        for c in cs:
                            val = val * 16 + _hex_val(c)
                        out += k(s2, VInt(val))
                    s3 = s.fork()
                    s3.assume(z3.And(ln == L, z3.Not(allhex)))
                    s3.notes.append("L%d.nonhex%d" % (line, L))
                    if self.feasible(s3):
                        s4 = s3.fork()
                        out += self.raise_(s4, ValueError, line=line)
                        any_int = fresh("int16")
                        s3.notes.append("unspecified-int")
                        out += k(s3, VInt(any_int))
                s.assume(z3.Or(ln < 1, ln > 8))
                if self.feasible(s):
                    raise Unsupported("int(s,16) on a slice of unbounded length")
                return out
        raise Unsupported("int%r (line %d)" % (tuple(pos), line))

    def call_builtin_method(self, s, base, meth, pos, kws, line, k):
        if isinstance(base, VStr):
            if meth in ("isdigit", "isalnum", "isalpha", "isspace") and not pos:
                if isinstance(base, (VChar,)) or (isinstance(base, VCStr) and len(base.s) == 1):
                    return k(s, VBool(char_pred(meth, char_of(base))))
            if meth == "join" and len(pos) == 1 and isinstance(pos[0], VRef):
                ho = s.heap[pos[0].oid]
                if isinstance(ho, HList):
                    sep = base
                    if ho.joined is not None:
                        if not (isinstance(sep, VCStr) and sep.s == ""):
                            raise Unsupported("join of symbolic list with a separator")
                        return k(s, VSeq(ho.joined))
                    if any(isinstance(x, VOpaque) for x in ho.items) or isinstance(sep, VOpaque):
                        return k(s, VOpaque())
                    parts = []
                    for i, x in enumerate(ho.items):
                        if i:
                            parts.append(sep)
                        parts.append(x)
                    if all(isinstance(x, VCStr) for x in parts):
                        return k(s, lift("".join(x.s for x in parts)))
                    if not parts:
                        return k(s, lift(""))
                    seqs = [to_seq(x) for x in parts]
                    return k(s, VSeq(seqs[0] if len(seqs) == 1 else z3.Concat(*seqs)))
            if meth == "is_integer":
                pass
        if isinstance(base, VFloat) and meth == "is_integer" and not pos:
            return k(s, VBool(z3.And(base.finite, z3.IsInt(base.r))))
        if isinstance(base, VRef):
            ho = s.heap[base.oid]
            if isinstance(ho, HList):
                if meth == "append" and len(pos) == 1:
                    if ho.items is not None:
                        ho.items = ho.items + [pos[0]]
                    else:
                        ho.joined = z3.Concat(ho.joined, to_seq(pos[0]))
                    return k(s, VNone())
                if meth == "extend" and len(pos) == 1 and ho.items is not None:
                    items = self.concrete_items(s, pos[0])
                    if items is not None:
                        ho.items = ho.items + items
                        return k(s, VNone())
                if meth == "pop" and ho.items is not None:
                    if not ho.items:
                        return self.raise_(s, IndexError, line=line)
                    idx = pos[0].e.as_long() if pos else -1
                    items = list(ho.items)
                    v = items.pop(idx)
                    ho.items = items
                    return k(s, v)
            if isinstance(ho, HDict):
                if meth == "items" and not pos:
                    return k(s, VPy(("items", [VTuple([lift(x), ho.vals[x]]) for x in ho.keys])))
                if meth == "get" and pos and isinstance(pos[0], VCStr):
                    return k(s, ho.vals.get(pos[0].s, pos[1] if len(pos) > 1 else VNone()))
        raise Unsupported("method .%s on %r (line %d)" % (meth, base, line))

    # -- call by contract ----------------------------------------------------------------
    def call_by_contract(self, s, func, c, pos, kws, line, k):
        bound = self.bind_args(func, pos, dict(kws))
        if c.assumed:
            self.assumed_used.add(c.target)
        # pre-state snapshot (values are immutable; heap objects copied)
        pre = s.fork()
        pre.env = dict(bound)
        pre.func = func
        old_env = self.spec_env(pre)
        # preconditions are obligations of the caller
        for cname, text in c.requires:
            self.oblige(s, "call-pre", "%s.%s@L%d" % (c.qualname, cname, line),
                        truth(self.tr.expr(ast.parse(text, mode="eval").body, old_env)),
                        "precondition %r of %s at line %d" % (text, c.qualname, line), line=line)
        if c is getattr(self, "cur_contract", None) and c.decreases:
            self.oblige(s, "decreases", "%s@L%d" % (c.qualname, line), self.decreases_goal(c, bound),
                        "recursive call at line %d decreases %r" % (line, c.decreases), line=line)
        elif c is getattr(self, "cur_contract", None):
            raise Unsupported("recursive call without decreases clause")
        # frame: havoc what the callee may modify
        post = s
        saved_env, saved_func = post.env, post.func
        post.env = dict(bound)
        post.func = func
        for m in c.modifies:
            self.havoc_path(post, m, "%s.%s" % (c.qualname, m.replace(".", "_")))
        out = []
        # exceptional outcomes
        for ecls_name, clauses in c.raises.items():
            ecls = self.resolve_class(func, ecls_name)
            s2 = post.fork()
            ref = s2.alloc(HObj(ecls, {}))
            for fld, kind in c.ghost.get("exc_fields", {}).get(ecls_name, {"position": "int"}).items():
                s2.heap[ref.oid].fields[fld] = self.fresh_value(s2, kind, "%s.exc.%s" % (c.qualname, fld))
            env2 = self.spec_env(s2, {"exc": ref}, old=old_env)
            for cname, text in clauses:
                s2.assume(truth(self.tr.expr(ast.parse(text, mode="eval").body, env2)))
            s2.env, s2.func = dict(saved_env), saved_func
            s2.notes.append("L%d.%s!%s" % (line, c.qualname, ecls_name))
            if self.feasible(s2):
                out.append((s2, ("raise", ref)))
        # normal outcomes (one per possible result class)
        options = c.returns if isinstance(c.returns, list) else [c.returns]
        for opt in options:
            s2 = post.fork() if (len(options) > 1 or True) else post
            res = self.fresh_value(s2, opt, "%s.result" % c.qualname) if opt is not None else VNone()
            env2 = self.spec_env(s2, {"result": res}, old=old_env)
            for cname, text in c.ensures:
                s2.assume(truth(self.tr.expr(ast.parse(text, mode="eval").body, env2)))
            s2.env, s2.func = dict(saved_env), saved_func
            s2.notes.append("L%d.%s" % (line, c.qualname))
            if self.feasible(s2):
                out += k(s2, res)
        return out

    def decreases_goal(self, c, bound):
        """('structural', [params]): every argument is the parameter or a direct sub-term of it, one
        of them strictly (well-founded on finite datatype values);  ('int', expr): measure in the
        callee binding is >= 0 and < the caller's."""
        kind, what = c.decreases
        if kind == "structural":
            eqs, stricts = [], []
            for p in what:
                param = self.entry_params[p]
                arg = bound[p]
                if not (isinstance(param, VData) and isinstance(arg, VData)):
                    raise Unsupported("structural decreases on non-datatype")
                adt = param.adt
                strict = []
                for ctor, fields in adt.fields.items():
                    for f, srt in fields:
                        if srt == "self":
                            strict.append(z3.And(adt.recognizer(ctor, param.e), arg.e == adt.accessor(ctor, f, param.e)))
                stricts.append(z3.Or(strict) if strict else z3.BoolVal(False))
                eqs.append(arg.e == param.e)
            return z3.And(z3.And([z3.Or(e, st_) for e, st_ in zip(eqs, stricts)]), z3.Or(stricts))
        raise Unsupported("decreases kind %s" % kind)

    def resolve_class(self, func, name):
        g = func.__globals__
        if name in g:
            return g[name]
        if hasattr(builtins, name):
            return getattr(builtins, name)
        import py_gql.exc as E
        return getattr(E, name)

    def havoc_path(self, st, path, name):
        parts = path.split(".")
        if len(parts) == 1:
            st.env[parts[0]] = self.havoc_like(st, st.env[parts[0]], name)
            return
        ref = st.env[parts[0]]
        for p in parts[1:-1]:
            ref = st.heap[ref.oid].fields[p]
        ho = st.heap[ref.oid]
        ho.fields[parts[-1]] = self.havoc_like(st, ho.fields[parts[-1]], name)

    # -------------------------------------------------------------------------------------
    # statements
    def ex_block(self, stmts, st, k):
        if not stmts:
            return k(st)
        return self.ex(stmts[0], st, lambda s: self.ex_block(stmts[1:], s, k))

    def ex(self, node, st, k):
        m = getattr(self, "s_" + type(node).__name__, None)
        if m is None:
            raise Unsupported("statement %s (line %d)" % (type(node).__name__, node.lineno))
        return m(node, st, k)

    def s_Pass(self, node, st, k):
        return k(st)

    def s_Expr(self, node, st, k):
        if isinstance(node.value, ast.Constant):
            return k(st)
        return self.ev(node.value, st, lambda s, v: k(s))

    def s_Assign(self, node, st, k):
        def go(s, v):
            for t in node.targets:
                r = self.assign(s, t, v, node.lineno)
                if r is not None:
                    return r
            return k(s)
        return self.ev(node.value, st, go)

    def s_AnnAssign(self, node, st, k):
        if node.value is None:
            return k(st)

        def go(s, v):
            self.assign(s, node.target, v, node.lineno)
            return k(s)
        return self.ev(node.value, st, go)

    def bind_target(self, s, t, v):
        r = self.assign(s, t, v, getattr(t, "lineno", 0))
        if r is not None:
            raise Unsupported("raising assignment target")

    def assign(self, s, t, v, line):
        if isinstance(t, ast.Name):
            s.env[t.id] = v
            return None
        if isinstance(t, ast.Attribute) and isinstance(t.value, ast.Name):
            base = s.env.get(t.value.id)
            if isinstance(base, VRef) and isinstance(s.heap[base.oid], HObj):
                ho = s.heap[base.oid]
                slots = _all_slots(ho.cls)
                if slots is not None and t.attr not in slots and not _has_dict(ho.cls):
                    return self.raise_(s, AttributeError, line=line)
                ho.fields[t.attr] = v
                return None
        if isinstance(t, (ast.Tuple, ast.List)):
            items = v.items if isinstance(v, VTuple) else self.concrete_items(s, v)
            if items is None or len(items) != len(t.elts):
                raise Unsupported("unpacking (line %d)" % line)
            for tn, tv in zip(t.elts, items):
                self.assign(s, tn, tv, line)
            return None
        if isinstance(t, ast.Subscript) and isinstance(t.value, ast.Name):
            base = s.env.get(t.value.id)
            if isinstance(base, VRef) and isinstance(s.heap[base.oid], HDict) and isinstance(t.slice, ast.Constant):
                hd = s.heap[base.oid]
                key = t.slice.value
                if key not in hd.vals:
                    hd.keys.append(key)
                hd.vals[key] = v
                return None
        raise Unsupported("assignment target (line %d)" % line)

    def s_AugAssign(self, node, st, k):
        load = ast.copy_location(ast.BinOp(left=_as_load(node.target), op=node.op, right=node.value), node)
        ast.fix_missing_locations(load)

        def go(s, v):
            self.assign(s, node.target, v, node.lineno)
            return k(s)
        return self.ev(load, st, go)

    def s_Return(self, node, st, k):
        if node.value is None:
            return [(st, ("ret", VNone()))]
        return self.ev(node.value, st, lambda s, v: [(s, ("ret", v))])

    def s_Break(self, node, st, k):
        return [(st, ("brk",))]

    def s_Continue(self, node, st, k):
        return [(st, ("cont",))]

    def s_Raise(self, node, st, k):
        if node.exc is None:
            cur = st.ghost.get("handling")
            if cur is None:
                raise Unsupported("bare raise outside handler")
            return [(st, ("raise", cur))]

        def go(s, v):
            if isinstance(v, VCls):
                return self.construct(s, v.cls, [], {}, node.lineno, lambda s2, r: self._do_raise(s2, r, node.lineno))
            return self._do_raise(s, v, node.lineno)
        return self.ev(node.exc, st, go)

    def _do_raise(self, s, ref, line):
        if not isinstance(ref, VRef):
            raise Unsupported("raise of non-object")
        s.notes.append("raise:%s@%d" % (s.heap[ref.oid].cls.__name__, line))
        return [(s, ("raise", ref))]

    def s_Assert(self, node, st, k):
        def go(s, v):
            self.oblige(s, "assert", "L%d" % node.lineno, truth(v), "assert at line %d" % node.lineno, line=node.lineno)
            s.assume(truth(v))
            return k(s)
        return self.ev(node.test, st, go)

    def s_If(self, node, st, k):
        def go(s, c):
            return self.branch(s, truth(c), "L%d" % node.lineno,
                               lambda s2: self.ex_block(node.body, s2, k),
                               lambda s2: self.ex_block(node.orelse, s2, k))
        return self.ev(node.test, st, go)

    def s_FunctionDef(self, node, st, k):
        st.env[node.name] = VFunc(node, st.env, node.name)
        return k(st)

    def s_Try(self, node, st, k):
        marker = ("tryok", id(node))
        res = self.ex_block(node.body, st, lambda s: [(s, marker)])
        out = []
        for s, oc in res:
            if oc is marker:
                # else clause then finally then continue
                r2 = self.ex_block(node.orelse, s, lambda s2: [(s2, marker)])
                for s2, oc2 in r2:
                    out += self._finally(node, s2, oc2, marker, k)
            elif oc[0] == "raise":
                ecls = s.heap[oc[1].oid].cls
                handled = False
                for h in node.handlers:
                    if self._handler_matches(s, h, ecls):
                        handled = True
                        if h.name:
                            s.env[h.name] = oc[1]
                        prev = s.ghost.get("handling")
                        s.ghost["handling"] = oc[1]
                        s.notes.append("except:%s@%d" % (ecls.__name__, h.lineno))
                        r2 = self.ex_block(h.body, s, lambda s2: [(s2, marker)])
                        for s2, oc2 in r2:
                            s2.ghost["handling"] = prev
                            out += self._finally(node, s2, oc2, marker, k)
                        break
                if not handled:
                    out += self._finally(node, s, oc, marker, k)
            else:
                out += self._finally(node, s, oc, marker, k)
        return out

    def _handler_matches(self, s, h, ecls):
        if h.type is None:
            return True
        names = [h.type] if not isinstance(h.type, ast.Tuple) else list(h.type.elts)
        for n in names:
            if not isinstance(n, ast.Name):
                raise Unsupported("exception handler expression")
            g = s.func.__globals__ if s.func else {}
            hc = g.get(n.id, getattr(builtins, n.id, None))
            if hc is None:
                raise Unsupported("unknown exception class %s" % n.id)
            if issubclass(ecls, hc):
                return True
        return False

    def _finally(self, node, s, oc, marker, k):
        if not node.finalbody:
            return k(s) if oc is marker else [(s, oc)]
        r = self.ex_block(node.finalbody, s, lambda s2: [(s2, marker)])
        out = []
        for s2, oc2 in r:
            if oc2 is marker:
                out += k(s2) if oc is marker else [(s2, oc)]
            else:
                out.append((s2, oc2))    # finally's own control flow wins
        return out

    # -- loops ------------------------------------------------------------------------------
    def loop_spec(self, node):
        c = self.cur_contract
        if c is None:
            return None
        idx = self.loop_index.get(id(node))
        return c.loops.get(idx)

    def s_While(self, node, st, k):
        spec = self.loop_spec(node)
        if spec is None:
            raise Unsupported("while loop without invariant (line %d)" % node.lineno)
        if node.orelse:
            raise Unsupported("while/else")
        return self.cut_loop(node, st, k, spec, test=node.test, body=node.body, pre_body=None)

    def s_For(self, node, st, k):
        if node.orelse:
            raise Unsupported("for/else")

        def have_iter(s, itv):
            items = self.concrete_items(s, itv)
            if items is not None and len(items) <= 8 and self.loop_spec(node) is None:
                return self.unroll(node, s, items, 0, k)
            spec = self.loop_spec(node)
            if spec is None:
                raise Unsupported("for loop over symbolic iterable without invariant (line %d)" % node.lineno)
            return self.for_indexed(node, s, itv, spec, k)
        return self.ev(node.iter, st, have_iter)

    def unroll(self, node, s, items, i, k):
        if i == len(items):
            return k(s)
        self.bind_target(s, node.target, items[i])
        res = self.ex_block(node.body, s, lambda s2: [(s2, ("fell",))])
        out = []
        for s2, oc in res:
            if oc[0] in ("fell", "cont"):
                out += self.unroll(node, s2, items, i + 1, k)
            elif oc[0] == "brk":
                out += k(s2)
            else:
                out.append((s2, oc))
        return out

    def for_indexed(self, node, s, itv, spec, k):
        """for x in seq / for i, x in enumerate(seq): cut loop over a ghost index `__i`."""
        enum = False
        seq = itv
        if isinstance(itv, VPy) and isinstance(itv.obj, tuple) and itv.obj[0] == "enumerate":
            enum, seq = True, itv.obj[1]
        if not isinstance(seq, (VArr, VSlice, VSeq)):
            raise Unsupported("for over %r" % (seq,))
        gi = "__i%d" % self.loop_index.get(id(node), 0)
        s.env[gi] = VInt(0)
        n = str_len(seq)

        def pre_body(s2):
            i = s2.env[gi]
            item = self.tr.index(seq, i)
            self.bind_target(s2, node.target, VTuple([i, item]) if enum else item)
            s2.env[gi] = VInt(i.e + 1)
        spec = dict(spec)
        spec["_ghost_index"] = gi
        spec["inv"] = list(spec.get("inv", [])) + [("idxrange", "0 <= %s <= __n" % gi)]
        s.env["__n"] = VInt(n)
        return self.cut_loop(node, s, k, spec, test=None, body=node.body, pre_body=pre_body,
                             test_z3=lambda s2: s2.env[gi].e < n, extra_mod={gi} | _assigned_names([node.target]))

    def cut_loop(self, node, st, k, spec, test, body, pre_body, test_z3=None, extra_mod=()):
        line = node.lineno
        inv = _named(spec.get("inv", []), "inv")
        entry_state = st.fork()
        entry_env = self.spec_env(entry_state)
        old = self.old_env
        # 1. invariant holds on entry
        for cname, text in inv:
            self.oblige(st, "inv-entry", "L%d.%s" % (line, cname),
                        truth(self.tr.expr(ast.parse(text, mode="eval").body, self.spec_env(st, old=old, entry=entry_env))),
                        "loop invariant %r holds on entry (line %d)" % (text, line), scaffold=True, line=line)
        # 2. havoc everything the loop may modify
        names, fields, lists, callee_mods = _loop_targets(body, self, st)
        names |= set(extra_mod)
        kinds = spec.get("kinds", {})
        for nm in sorted(names):
            if nm in kinds:
                st.env[nm] = self.fresh_value(st, kinds[nm], "%s@L%d" % (nm, line))
            elif nm in st.env:
                st.env[nm] = self.havoc_like(st, st.env[nm], "%s@L%d" % (nm, line))
        selfv = st.env.get("self")
        for fld in sorted(fields | callee_mods):
            if isinstance(selfv, VRef) and fld in st.heap[selfv.oid].fields:
                ho = st.heap[selfv.oid]
                ho.fields[fld] = self.havoc_like(st, ho.fields[fld], "self.%s@L%d" % (fld, line))
        for nm in sorted(lists):
            if nm in st.env and isinstance(st.env[nm], VRef):
                self.havoc_like(st, st.env[nm], "%s@L%d" % (nm, line))
        # loop-assigned names that were unbound on entry stay unbound (definitely assigned before use inside)
        for cname, text in inv:
            st.assume(truth(self.tr.expr(ast.parse(text, mode="eval").body, self.spec_env(st, old=old, entry=entry_env))))
        variant0 = None
        if spec.get("variant"):
            variant0 = self.spec_val(spec["variant"], st, old=old, entry=entry_env).e
        st.notes.append("loop@%d" % line)
        head = st

        def iteration(s):
            if pre_body:
                pre_body(s)
            res = self.ex_block(body, s, lambda s2: [(s2, ("fell",))])
            out = []
            for s2, oc in res:
                if oc[0] in ("fell", "cont"):
                    for cname, text in inv:
                        self.oblige(s2, "inv-preserve", "L%d.%s" % (line, cname),
                                    truth(self.tr.expr(ast.parse(text, mode="eval").body,
                                                       self.spec_env(s2, old=old, entry=entry_env))),
                                    "loop invariant %r is preserved (line %d)" % (text, line), scaffold=True, line=line)
                    if variant0 is not None:
                        v1 = self.spec_val(spec["variant"], s2, old=old, entry=entry_env).e
                        self.oblige(s2, "variant", "L%d" % line, z3.And(variant0 >= 0, v1 < variant0),
                                    "loop variant %r decreases and is bounded (line %d)" % (spec["variant"], line),
                                    scaffold=True, line=line)
                    # path ends at the cut point
                elif oc[0] == "brk":
                    out += k(s2)
                else:
                    out.append((s2, oc))
            return out

        if test is None and test_z3 is None:
            return iteration(head)
        if test is not None and isinstance(test, ast.Constant) and test.value is True:
            return iteration(head)
        if test_z3 is not None:
            return self.branch(head, test_z3(head), "L%d.for" % line, iteration, k)
        return self.ev(test, head, lambda s, c: self.branch(s, truth(c), "L%d.while" % line, iteration, k))

    # -------------------------------------------------------------------------------------
    def index_loops(self, tree):
        """ordinal of every loop in source order (1-based), the key used by sidecar loop specs."""
        self.loop_index = {}
        n = 0
        for node in ast.walk(tree):
            pass
        for node in _walk_in_order(tree):
            if isinstance(node, (ast.While, ast.For)):
                n += 1
                self.loop_index[id(node)] = n
        return n


def _walk_in_order(node):
    yield node
    for child in ast.iter_child_nodes(node):
        yield from _walk_in_order(child)


def _as_load(t):
    t2 = ast.parse(ast.unparse(t), mode="eval").body
    return ast.copy_location(t2, t)


def _assigned_names(targets):
    out = set()
    for t in targets:
        for n in ast.walk(t):
            if isinstance(n, ast.Name):
                out.add(n.id)
    return out


def _loop_targets(body, ex, st):
    names, fields, lists, callee = set(), set(), set(), set()
    for stmt in body:
        for n in ast.walk(stmt):
            if isinstance(n, (ast.Assign, ast.AugAssign, ast.AnnAssign)):
                tgts = n.targets if isinstance(n, ast.Assign) else [n.target]
                for t in tgts:
                    for x in ast.walk(t):
                        if isinstance(x, ast.Name) and isinstance(x.ctx, ast.Store):
                            names.add(x.id)
                        if isinstance(x, ast.Name) and isinstance(n, ast.AugAssign) and x is n.target:
                            names.add(x.id)
                        if isinstance(x, ast.Attribute) and isinstance(x.value, ast.Name) and x.value.id == "self":
                            fields.add(x.attr)
                        if isinstance(x, ast.Subscript) and isinstance(x.value, ast.Name):
                            lists.add(x.value.id)
            if isinstance(n, (ast.For, ast.comprehension)):
                names |= _assigned_names([n.target])
            if isinstance(n, ast.ExceptHandler) and n.name:
                names.add(n.name)
            if isinstance(n, ast.Call) and isinstance(n.func, ast.Attribute):
                if isinstance(n.func.value, ast.Name) and n.func.attr in ("append", "extend", "pop", "insert"):
                    lists.add(n.func.value.id)
                if isinstance(n.func.value, ast.Name) and n.func.value.id == "self":
                    selfv = st.env.get("self")
                    if isinstance(selfv, VRef):
                        cls = st.heap[selfv.oid].cls
                        f = inspect.getattr_static(cls, n.func.attr, None)
                        c = ex.contract_for(f) if f is not None else None
                        if c is not None:
                            for m in c.modifies:
                                if m.startswith("self."):
                                    callee.add(m.split(".")[1])
                        elif inspect.isfunction(f):
                            # uncontracted (inlined) helper: conservatively, everything it assigns on self
                            for y in ast.walk(ex.func_ast(f)):
                                if isinstance(y, ast.Attribute) and isinstance(y.ctx, ast.Store) and \
                                        isinstance(y.value, ast.Name) and y.value.id == "self":
                                    callee.add(y.attr)
    return names, fields, lists, callee


def _small(func):
    try:
        return len(inspect.getsource(func).splitlines()) <= 40
    except (OSError, TypeError):
        return False


def _defining_class(cls, name):
    for c in cls.__mro__:
        if name in c.__dict__:
            return c
    return None


def _all_slots(cls):
    out = set()
    for c in cls.__mro__:
        if c is object:
            continue
        sl = c.__dict__.get("__slots__")
        if sl is None:
            return None
        out |= {sl} if isinstance(sl, str) else set(sl)
    return out


def _has_dict(cls):
    return any("__dict__" in c.__dict__ for c in cls.__mro__ if c is not object) or _all_slots(cls) is None


def _is_hex(c):
    return z3.Or(z3.And(c >= 48, c <= 57), z3.And(c >= 65, c <= 70), z3.And(c >= 97, c <= 102))


def _hex_val(c):
    return z3.If(c <= 57, c - 48, z3.If(c <= 70, c - 55, c - 87))
