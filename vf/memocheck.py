"""Memoisation contracts of the execution context (C04): a per-request memo may only replace the computation it caches when the key it is
looked up and stored under determines every input of that computation.

For every method of the listed classes with the shape

    try:
        return <cache>[<key>]
    except KeyError:
        <miss branch: computes v, stores <cache>[<key>] = v, returns v>

obligations, generated from the method's current source on every run (all inputs: they are statements about the method's data flow):

  memo:<Class.method>:key-covers:<name>       every parameter / local the miss branch reads flows into the key expression
                                               (through the single-assignment locals that spell the key)
  memo:<Class.method>:stores-under-lookup-key every store into the cache in the miss branch uses the looked-up key expression
  memo:<Class.method>:returns-what-it-stores  the miss branch returns the value it stored (or a constant, uncached)
  memo:<Class.method>:reads-fixed-state:<attr> every self.<attr> the miss branch reads is assigned only in __init__ by the classes of the
                                               execution package (so it is constant for the life of the memo)

What is assumed (reported): objects used as key components are compared the way the memo needs (a type's name identifies it within one
schema; AST nodes and Field objects hash by identity); the key-covers obligation is syntactic - a read value counts as determined by the key when it
is a component of the key (v, v.name, tuple(v)) or is computed before the lookup from such components only; a key that merely *depends* on v
(key = f(v, w)) does not determine v.
"""
import ast
import glob
import inspect
import os
import textwrap

SITES = [("py_gql.execution.wrappers", "ResolutionContext"), ("py_gql.execution.wrappers", "ResolveInfo"), ("py_gql.execution.executor", "Executor")]
BACKEND = "syntactic data-flow (memo keys)"


def _names(e):
    return {n.id for n in ast.walk(e) if isinstance(n, ast.Name)}


def _memo_shape(fn):
    """-> (try node, cache expr text, key expr) for the first `try: return C[k] except KeyError` of the function, or None"""
    for node in ast.walk(fn):
        if isinstance(node, ast.Try) and len(node.body) == 1 and isinstance(node.body[0], ast.Return) and isinstance(node.body[0].value, ast.Subscript):
            hs = [h for h in node.handlers if isinstance(h.type, ast.Name) and h.type.id == "KeyError"]
            if hs:
                sub = node.body[0].value
                return node, hs[0], ast.unparse(sub.value), sub.slice
    return None


def obligations():
    import importlib
    out = []
    assigned_outside_init = {}
    import py_gql.execution as E
    for path in glob.glob(os.path.join(os.path.dirname(E.__file__), "*.py")):
        tree = ast.parse(open(path).read())
        for cls in [n for n in ast.walk(tree) if isinstance(n, ast.ClassDef)]:
            for fn in [n for n in cls.body if isinstance(n, (ast.FunctionDef, ast.AsyncFunctionDef))]:
                if fn.name == "__init__":
                    continue
                for n in ast.walk(fn):
                    targets = n.targets if isinstance(n, ast.Assign) else [n.target] if isinstance(n, (ast.AugAssign, ast.AnnAssign)) else []
                    for t in targets:
                        for x in ast.walk(t):
                            if isinstance(x, ast.Attribute) and isinstance(x.value, ast.Name) and x.value.id == "self" and isinstance(x.ctx, ast.Store):
                                assigned_outside_init.setdefault(x.attr, []).append("%s.%s:%d" % (cls.name, fn.name, x.lineno))
    found = 0
    for modname, clsname in SITES:
        mod = importlib.import_module(modname)
        cls = getattr(mod, clsname)
        for mname, f in sorted(vars(cls).items()):
            if not inspect.isfunction(f):
                continue
            fn = ast.parse(textwrap.dedent(inspect.getsource(f))).body[0]
            shape = _memo_shape(fn)
            if shape is None:
                continue
            found += 1
            _try, handler, cache_text, key = shape
            q = "%s.%s" % (clsname, mname)
            params = {a.arg for a in fn.args.args + fn.args.kwonlyargs} - {"self"}
            # single-assignment locals before the try (cache alias, key, values derived from parameters)
            assigns = {}
            for n in ast.walk(fn):
                if isinstance(n, ast.Assign) and n.lineno < _try.lineno:
                    for t in n.targets:
                        if isinstance(t, ast.Name):
                            assigns.setdefault(t.id, []).append(n.value)
            aliases = {k for k, v in assigns.items() if len(v) == 1 and ast.unparse(v[0]) == cache_text} | {cache_text}

            def components(e, seen=()):
                """the key as a tuple of components: tuples and single-assignment locals that merely name / group other values are expanded"""
                if isinstance(e, ast.Tuple):
                    return [c for x in e.elts for c in components(x, seen)]
                if isinstance(e, ast.Name) and e.id in assigns and len(assigns[e.id]) == 1 and e.id not in seen and isinstance(assigns[e.id][0], (ast.Tuple, ast.Name, ast.Attribute, ast.Call)):
                    return [e] + components(assigns[e.id][0], seen + (e.id,))
                return [e]

            def root(e):
                """the variable a component is (an injective view of): v, v.name (a type's name identifies it within one schema), tuple(v) / frozenset(v), id(v) (identity, for objects
                that outlive the memo).
                Any other attribute (v.__class__, v.kind ...) does not determine v."""
                if isinstance(e, ast.Attribute):
                    if e.attr != "name":
                        return None
                    e = e.value
                if isinstance(e, ast.Call) and isinstance(e.func, ast.Name) and e.func.id in ("tuple", "frozenset", "id") and len(e.args) == 1 and not e.keywords:
                    return root(e.args[0])
                return e.id if isinstance(e, ast.Name) else None
            comp_roots = {root(c) for c in components(key)} - {None}
            key_text = ast.unparse(key)

            def determined(v, seen=()):
                """v is a component of the key, or a single-assignment local computed from determined values only"""
                if v in comp_roots:
                    return True
                if v in assigns and len(assigns[v]) == 1 and v not in seen:
                    deps = _names(assigns[v][0]) & (params | set(assigns))
                    return all(determined(d, seen + (v,)) for d in deps)
                return False
            # what the miss branch reads
            local_in_handler = set()
            for n in ast.walk(ast.Module(body=handler.body, type_ignores=[])):
                if isinstance(n, ast.Name) and isinstance(n.ctx, ast.Store):
                    local_in_handler.add(n.id)
            reads, self_attrs = set(), set()
            for n in ast.walk(ast.Module(body=handler.body, type_ignores=[])):
                if isinstance(n, ast.Name) and isinstance(n.ctx, ast.Load) and (n.id in params or n.id in assigns) and n.id not in local_in_handler:
                    reads.add(n.id)
                if isinstance(n, ast.Attribute) and isinstance(n.value, ast.Name) and n.value.id == "self" and isinstance(n.ctx, ast.Load):
                    self_attrs.add(n.attr)
            for v in sorted(reads - aliases):
                if isinstance(key, ast.Name) and v == key.id:
                    continue
                out.append({"id": "memo:%s:key-covers:%s" % (q, v), "holds": determined(v),
                            "detail": "the miss branch of %s reads %s, which is not a component of the memo key `%s` (nor computed from its components alone): a cached "
                                      "value computed for one %s is returned for another" % (q, v, key_text, v)})
            stores = []
            for n in ast.walk(ast.Module(body=handler.body, type_ignores=[])):
                if isinstance(n, ast.Assign):
                    for t in n.targets:
                        if isinstance(t, ast.Subscript) and ast.unparse(t.value) in aliases:
                            names = {x.id for x in n.targets if isinstance(x, ast.Name)} | ({n.value.id} if isinstance(n.value, ast.Name) else set())
                            stores.append((ast.unparse(t.slice), names, n.lineno))
            out.append({"id": "memo:%s:stores-under-lookup-key" % q, "holds": bool(stores) and all(k == key_text for k, _n, _l in stores),
                        "detail": "%s looks `%s` up but stores under %s" % (q, key_text, sorted({k for k, _n, _l in stores}) or "nothing")})
            stored_names = set().union(*[n for _k, n, _l in stores]) if stores else set()
            bad_ret = []
            for n in ast.walk(ast.Module(body=handler.body, type_ignores=[])):
                if isinstance(n, ast.Return):
                    if n.value is None or isinstance(n.value, ast.Constant):
                        continue
                    if not (isinstance(n.value, ast.Name) and n.value.id in stored_names):
                        bad_ret.append("line %d: return %s" % (n.lineno, ast.unparse(n.value)))
            out.append({"id": "memo:%s:returns-what-it-stores" % q, "holds": not bad_ret,
                        "detail": "%s returns a value other than the one it stored in the memo (%s)" % (q, "; ".join(bad_ret))})
            for a in sorted(self_attrs - {cache_text.replace("self.", "")}):
                where = assigned_outside_init.get(a, [])
                out.append({"id": "memo:%s:reads-fixed-state:%s" % (q, a), "holds": not where,
                            "detail": "the miss branch of %s reads self.%s, which is also assigned outside __init__ (%s): memoised results may go stale"
                                      % (q, a, ", ".join(where[:3]))})
    return out, found


def run(run, only=None):
    """only: qualified method names whose obligations are generated for this property (None: all)"""
    obs, found = obligations()
    if only is not None:
        obs = [o for o in obs if o["id"].split(":")[1] in only]
        found = len({o["id"].split(":")[1] for o in obs})
    if found == 0:
        run.assume("memocheck: no method of the execution context has the memo shape any more (nothing to prove; the bounded comparison decides)")
    cov = run.cov
    for o in obs:
        cov["obligations"] += 1
        cov["backends"][BACKEND] = cov["backends"].get(BACKEND, 0) + 1
        if o["holds"]:
            cov["discharged"] += 1
        else:
            run.violation(o["id"], o["detail"], {"obligation": o["id"]}, False, extra={"obligation": o["id"], "solver": BACKEND, "solver_status": "refuted"})
    cov["functions_under_contract"] += sorted({"%s (memo)" % o["id"].split(":")[1] for o in obs})
    cov["parts"]["memo"] = {"methods": found, "obligations": len(obs)}
    run.assume("memo keys: a type's name identifies it within one schema; AST nodes and Field objects are hashed by identity; the key-covers obligation is "
               "syntactic (of the attributes of a value only its `name` is taken to determine it)")
