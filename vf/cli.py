import argparse
import importlib
import json
import os
import sys

from .report import main_wrapper


def main():
    import warnings
    warnings.simplefilter("ignore", RuntimeWarning)
    import logging
    logging.getLogger("concurrent.futures").setLevel(logging.CRITICAL)
    logging.getLogger("asyncio").setLevel(logging.CRITICAL)      # un-awaited coroutines of deliberately failed requests
    ap = argparse.ArgumentParser()
    ap.add_argument("prop")
    ap.add_argument("path", nargs="?")
    ap.add_argument("--tier", default=os.environ.get("VERIF_TIER", "quick"))
    a = ap.parse_args()
    seed = int(os.environ.get("VERIF_SEED", "0") or 0)
    if a.prop == "replay":
        from . import replay
        return main_wrapper(lambda: replay.main(a.path))
    mod = importlib.import_module("vf.props.%s" % a.prop.lower())
    main_wrapper(lambda: mod.check(a.tier, seed))


if __name__ == "__main__":
    main()
