"""Engine P - trace contracts over every syntactic path of a real function.

The function's source is re-read on every run (inspect.getsource) and executed *abstractly*: values are unknown except for
what decides control flow locally (boolean / None constants, local closures, tuples of them, the None-ness of a local after
an `is None` test); every call that is not declared `nothrow` may raise; every branch whose test is not decided is taken
both ways; a `try` statement dispatches raised exceptions to its handlers by the real classes (resolved in the function's
globals, `issubclass`), an exception of unknown class may or may not be caught by any handler; `finally` runs on every
outcome.  Local `def`s and lambdas are inlined where they are called; callees that take callbacks get an *effect contract*
(config `callbacks`) saying when they invoke which callback - a caller is checked against that contract, never the callee's
body; other callees are opaque (an optional event, an optional raise).

The result is the set of all paths, each with its *event word* (ghost trace: the labelled calls in execution order) and
its outcome (return / raise of a class).  A trace contract is a predicate over (event word, outcome) that every path must
satisfy; each (function, clause) pair is one obligation, discharged when no path violates it.  The set of syntactic paths
is a superset of the feasible ones (values are abstracted away), so a discharged obligation holds for all inputs; a
violated one comes with the offending path, which may be infeasible - it is then replayed by the property's bounded
stand-in before it is reported as a violation with a failing input.

Subset: assignments, expression statements, if / for (zero iterations, or one abstract iteration that stands for any iteration - the
locals the body assigns are unknown at its start -, events bracketed by loop markers) /
try / return / raise / with / local def / pass / assert; expressions evaluated in Python's order.  `while`, generators
(`yield`), `async` constructs, `nonlocal` make generation fail (Unsupported) - reported as degraded, never as a violation.
"""
import ast
import inspect
import re
import textwrap


class Unsupported(Exception):
    pass


# ----------------------------------------------------------------------------------------------------------------------
# abstract values

class AV:
    pass


class Unknown(AV):
    def __init__(self, text="?", null=None):
        self.text, self.null = text, null      # null: True / False / None (unknown)

    def __repr__(self):
        return "?%s" % self.text


class Const(AV):
    def __init__(self, value):
        self.value = value

    def __repr__(self):
        return "Const(%r)" % (self.value,)


class TupleV(AV):
    def __init__(self, items):
        self.items = list(items)

    def __repr__(self):
        return "Tuple%r" % (self.items,)


class Closure(AV):
    def __init__(self, node, depth, name):
        self.node, self.depth, self.name = node, depth, name     # depth: index of the defining frame

    def __repr__(self):
        return "Closure(%s)" % self.name


class ExcV(AV):
    """an exception value: classes = tuple of real classes it is known to be an instance of one of; () = unknown class"""

    def __init__(self, classes=(), label=None):
        self.classes = tuple(classes)
        self.label = label or ("|".join(c.__name__ for c in self.classes) if self.classes else "*")

    def __repr__(self):
        return "Exc(%s)" % self.label


class State:
    __slots__ = ("frames", "events", "trail", "handling", "facts", "inlining")

    def __init__(self, frames, events=(), trail=(), handling=(), facts=(), inlining=()):
        self.frames, self.events, self.trail, self.handling, self.facts, self.inlining = frames, events, trail, handling, facts, inlining

    def fork(self, note=None):
        return State([dict(f) for f in self.frames], self.events, self.trail + ((note,) if note else ()), self.handling, self.facts, self.inlining)

    def emit(self, label):
        self.events = self.events + (label,)
        return self

    def lookup(self, name):
        for f in reversed(self.frames):
            if name in f:
                return f[name]
        return None

    def bind(self, name, av):
        self.frames[-1][name] = av


class Path:
    def __init__(self, events, outcome, payload, trail, facts=()):
        self.events, self.outcome, self.payload, self.trail, self.facts = events, outcome, payload, trail, facts

    def assumed(self, test_text):
        """True / False when the path took that outcome of a branch whose test unparses to test_text, else None"""
        for t, o in self.facts:
            if t == test_text:
                return o
        return None

    def word(self):
        return " ".join(self.events)

    def __repr__(self):
        return "<%s | %s %r | %s>" % (self.word(), self.outcome, self.payload, "/".join(self.trail))


# ----------------------------------------------------------------------------------------------------------------------

class Config:
    """
    events     : list of (regex over the unparsed callee expression, label or function(call_node) -> label)
    nothrow    : list of regexes over the callee expression: calls assumed not to raise
    raises     : list of (regex, [exception class, ...]) declared may-raise sets of callees (default: unknown class)
    callbacks  : list of (regex, handler(engine, call_node, state, callee_text, args, kwargs) -> [(state, kind, payload)])
    stmt_events: list of (regex over the unparsed assignment target, label)
    """

    def __init__(self, events=(), nothrow=(), raises=(), callbacks=(), stmt_events=(), max_paths=20000):
        self.events = [(re.compile(p), l) for p, l in events]
        self.nothrow = [re.compile(p) for p in nothrow]
        self.raises = [(re.compile(p), c) for p, c in raises]
        self.callbacks = [(re.compile(p), h) for p, h in callbacks]
        self.stmt_events = [(re.compile(p), l) for p, l in stmt_events]
        self.max_paths = max_paths


ALWAYS_NOTHROW = [r"^(isinstance|cast|callable|len|bool|id|type|repr|str|list|tuple|dict|set|iter|OrderedDict|reversed|enumerate|zip|hasattr|getattr)$"]


class Engine:
    def __init__(self, func, config, inner=None):
        """func: real function object; inner: name of a local def inside it to analyse instead (e.g. the wrapper a decorator builds)"""
        self.func, self.cfg = func, config
        src = textwrap.dedent(inspect.getsource(func))
        tree = ast.parse(src).body[0]
        try:
            ast.increment_lineno(tree, func.__code__.co_firstlineno - tree.lineno)
        except Exception:
            pass
        self.tree = tree
        self.globals = getattr(func, "__globals__", {})
        if inner:
            found = [n for n in ast.walk(tree) if isinstance(n, (ast.FunctionDef, ast.AsyncFunctionDef)) and n.name == inner]
            if not found:
                raise Unsupported("inner function %s not found" % inner)
            self.tree = found[0]
        self.npaths = 0

    # -- public ----------------------------------------------------------------------------------------------------
    def paths(self, preset=None):
        frame = {}
        a = self.tree.args
        for p in a.posonlyargs + a.args + a.kwonlyargs:
            frame[p.arg] = Unknown(p.arg)
        if a.vararg:
            frame[a.vararg.arg] = Unknown(a.vararg.arg)
        if a.kwarg:
            frame[a.kwarg.arg] = Unknown(a.kwarg.arg)
        frame.update(preset or {})
        out = []
        for st, kind, payload in self.block(self.tree.body, State([frame])):
            if kind == "next":
                kind, payload = "return", Const(None)
            if kind in ("break", "continue"):
                raise Unsupported("loop control outside a loop")
            out.append(Path(st.events, kind, payload, st.trail, st.facts))
        if not out:
            raise Unsupported("no path")
        return out

    # -- statements --------------------------------------------------------------------------------------------------
    def block(self, stmts, st):
        """-> list of (state, kind, payload); kind in next / return / raise / break / continue"""
        cur = [st]
        done = []
        for s in stmts:
            nxt = []
            for c in cur:
                for r in self.stmt(s, c):
                    if r[1] == "next":
                        nxt.append(r[0])
                    else:
                        done.append(r)
            cur = nxt
            self.npaths = len(cur) + len(done)
            if self.npaths > self.cfg.max_paths:
                raise Unsupported("more than %d paths" % self.cfg.max_paths)
        return done + [(c, "next", None) for c in cur]

    def stmt(self, s, st):
        if isinstance(s, ast.Expr):
            if isinstance(s.value, (ast.Yield, ast.YieldFrom, ast.Await)):
                raise Unsupported(type(s.value).__name__)
            return [(a, "next", None) if k == "val" else (a, "raise", v) for a, k, v in self.ev(s.value, st)]
        if isinstance(s, (ast.Assign, ast.AnnAssign, ast.AugAssign)):
            if isinstance(s, ast.AnnAssign) and s.value is None:
                return [(st, "next", None)]
            targets = s.targets if isinstance(s, ast.Assign) else [s.target]
            res = []
            for a, k, v in self.ev(s.value, st):
                if k != "val":
                    res.append((a, "raise", v))
                    continue
                for t in targets:
                    self.assign(t, v if not isinstance(s, ast.AugAssign) else Unknown(), a)
                res.append((a, "next", None))
            return res
        if isinstance(s, ast.If):
            return self.branch(s.test, st, lambda a: self.block(s.body, a), lambda a: self.block(s.orelse, a), "L%d" % s.lineno)
        if isinstance(s, ast.Return):
            if s.value is None:
                return [(st, "return", Const(None))]
            return [(a, "return", v) if k == "val" else (a, "raise", v) for a, k, v in self.ev(s.value, st)]
        if isinstance(s, ast.Raise):
            return self.do_raise(s, st)
        if isinstance(s, ast.Try):
            return self.do_try(s, st)
        if isinstance(s, ast.For):
            return self.do_for(s, st)
        if isinstance(s, ast.While):
            return self.do_while(s, st)
        if isinstance(s, (ast.FunctionDef, ast.AsyncFunctionDef)):
            # a local coroutine function is analysed as if its body ran when it is called: the *sequentialised* behaviour (what happens, in
            # which order, once the awaited values arrive) is what trace contracts speak about
            if any(isinstance(n, (ast.Yield, ast.YieldFrom)) for n in ast.walk(s)):
                st.bind(s.name, Unknown(s.name))
            else:
                st.bind(s.name, Closure(s, len(st.frames) - 1, s.name))
            return [(st, "next", None)]
        if isinstance(s, ast.With):
            cur = [st]
            for item in s.items:
                nxt = []
                for c in cur:
                    for a, k, v in self.ev(item.context_expr, c):
                        if k != "val":
                            return [(a, "raise", v)]
                        if item.optional_vars is not None:
                            self.assign(item.optional_vars, Unknown(), a)
                        nxt.append(a)
                cur = nxt
            out = []
            for c in cur:
                out += self.block(s.body, c)
            return out
        if isinstance(s, (ast.Pass, ast.Import, ast.ImportFrom, ast.Global, ast.Nonlocal, ast.Delete)):
            return [(st, "next", None)]
        if isinstance(s, ast.Assert):
            return [(a, "next", None) if k == "val" else (a, "raise", v) for a, k, v in self.ev(s.test, st)]
        if isinstance(s, ast.Break):
            return [(st, "break", None)]
        if isinstance(s, ast.Continue):
            return [(st, "continue", None)]
        raise Unsupported("statement %s at line %s" % (type(s).__name__, getattr(s, "lineno", "?")))

    def assign(self, target, av, st):
        if isinstance(target, ast.Name):
            st.bind(target.id, av)
        elif isinstance(target, (ast.Tuple, ast.List)):
            items = av.items if isinstance(av, TupleV) and len(av.items) == len(target.elts) else [Unknown() for _ in target.elts]
            for t, v in zip(target.elts, items):
                self.assign(t, v, st)
        else:
            text = ast.unparse(target)
            through = None
            if isinstance(target, ast.Subscript) and isinstance(target.slice, ast.Name):
                # a key held in a local that merely names another expression (k = field.python_name; d[k] = ...) may also be matched read through
                cur = st.lookup(target.slice.id)
                if isinstance(cur, Unknown) and cur.text and cur.text != target.slice.id:
                    through = "%s[%s]" % (ast.unparse(target.value), cur.text)
            for rx, label in self.cfg.stmt_events:
                m = rx.search(text) or (through is not None and rx.search(through))
                if m:
                    if callable(label):
                        try:
                            st.emit(label(m, av))
                        except TypeError:
                            st.emit(label(m))
                    else:
                        st.emit(label)

    def truth(self, av):
        if isinstance(av, Const):
            return bool(av.value)
        if isinstance(av, (Closure, ExcV)):
            return True
        if isinstance(av, TupleV):
            return bool(av.items)
        if isinstance(av, Unknown) and av.null is True:
            return False
        return None

    def refine(self, test, st, outcome):
        """record what the branch outcome says about the None-ness of a local"""
        neg = False
        while isinstance(test, ast.UnaryOp) and isinstance(test.op, ast.Not):
            neg, test = not neg, test.operand
        if isinstance(test, ast.Compare) and len(test.ops) == 1 and isinstance(test.left, ast.Name) \
                and isinstance(test.comparators[0], ast.Constant) and test.comparators[0].value is None:
            is_none = isinstance(test.ops[0], ast.Is)
            if isinstance(test.ops[0], (ast.Is, ast.IsNot)):
                null = (outcome != neg) == is_none
                cur = st.lookup(test.left.id)
                if isinstance(cur, Unknown):
                    st.bind(test.left.id, Unknown(cur.text, null=null))
                elif cur is None:
                    st.bind(test.left.id, Unknown(test.left.id, null=null))

    def branch(self, test, st, then, orelse, tag):
        out = []
        for a, k, v in self.ev(test, st):
            if k != "val":
                out.append((a, "raise", v))
                continue
            t = self.truth(v)
            if t is not False:
                b = a.fork(tag + "+") if t is None else a
                self.refine(test, b, True)
                b.facts = b.facts + ((ast.unparse(test), True),)
                out += then(b)
            if t is not True:
                b = a.fork(tag + "-") if t is None else a
                self.refine(test, b, False)
                b.facts = b.facts + ((ast.unparse(test), False),)
                out += orelse(b)
        return out

    def do_raise(self, s, st):
        if s.exc is None:
            if not st.handling:
                raise Unsupported("bare raise outside a handler")
            return [(st, "raise", st.handling[-1])]
        node = s.exc
        out = []
        if isinstance(node, ast.Call):
            # evaluate the arguments for their events, then raise the named class
            cls = self.resolve_class(node.func)
            for a, k, v in self.ev_args(node, st):
                if k != "val":
                    out.append((a, "raise", v))
                else:
                    out.append((a, "raise", ExcV((cls,) if cls else (), label=None if cls else ast.unparse(node.func))))
            return out
        for a, k, v in self.ev(node, st):
            if k != "val":
                out.append((a, "raise", v))
            elif isinstance(v, ExcV):
                out.append((a, "raise", v))
            else:
                cls = self.resolve_class(node)
                out.append((a, "raise", ExcV((cls,) if cls else (), label=None if cls else ast.unparse(node))))
        return out

    def resolve_class(self, node):
        try:
            obj = eval(compile(ast.Expression(node), "<cls>", "eval"), dict(self.globals), {})  # names only: Name / Attribute chains
        except Exception:
            return None
        return obj if isinstance(obj, type) and issubclass(obj, BaseException) else None

    def handler_classes(self, h):
        """list of real classes, or None when the handler's type cannot be resolved statically; [] = bare except"""
        if h.type is None:
            return [BaseException]
        nodes = h.type.elts if isinstance(h.type, ast.Tuple) else [h.type]
        out = []
        for n in nodes:
            if not all(isinstance(x, (ast.Name, ast.Attribute, ast.Load)) for x in ast.walk(n)):
                return None
            c = self.resolve_class(n)
            if c is None:
                return None
            out.append(c)
        return out

    def do_try(self, s, st):
        results = []
        body = self.block(s.body, st)
        after = []
        for a, k, v in body:
            if k == "next" and s.orelse:
                after += self.block(s.orelse, a)
            elif k != "raise":
                after.append((a, k, v))
            else:
                after += self.dispatch(s.handlers, a, v)
        if not s.finalbody:
            return after
        for a, k, v in after:
            for b, k2, v2 in self.block(s.finalbody, a):
                if k2 == "next":
                    results.append((b, k, v))      # the pending outcome resumes
                else:
                    results.append((b, k2, v2))    # finally overrides
        return results

    def dispatch(self, handlers, st, exc):
        out = []
        pending = [st]          # states in which the exception is still unhandled
        for h in handlers:
            classes = self.handler_classes(h)
            nxt = []
            for a in pending:
                verdict = None      # True caught / False not / None maybe
                if classes is None:
                    verdict = None
                elif not exc.classes:
                    verdict = True if any(c in (BaseException, Exception) for c in classes) else None
                elif all(any(issubclass(r, c) for c in classes) for r in exc.classes):
                    verdict = True
                elif any(issubclass(r, c) or issubclass(c, r) for r in exc.classes for c in classes):
                    verdict = None
                else:
                    verdict = False
                if verdict is not False:
                    b = a.fork("L%d.caught" % h.lineno) if verdict is None else a
                    if verdict is True:
                        b.trail = b.trail + ("L%d.caught" % h.lineno,)
                    narrowed = exc
                    if classes and (not exc.classes or verdict is None):
                        narrowed = ExcV(tuple(c for c in classes if c not in (BaseException, Exception)) or exc.classes, label=None)
                    if h.name:
                        b.bind(h.name, narrowed)
                    b.handling = b.handling + (narrowed,)
                    for c, k, v in self.block(h.body, b):
                        c.handling = c.handling[:-1]
                        out.append((c, k, v))
                if verdict is not True:
                    nxt.append(a.fork("L%d.not-caught" % h.lineno) if verdict is None else a)
            pending = nxt
        out += [(a, "raise", exc) for a in pending]
        return out

    def havoc_assigned(self, body, st):
        """the abstract iteration stands for *any* iteration: locals the body assigns are unknown at its start"""
        for n_ in ast.walk(ast.Module(body=list(body), type_ignores=[])):
            targets = []
            if isinstance(n_, ast.Assign):
                targets = n_.targets
            elif isinstance(n_, (ast.AugAssign, ast.AnnAssign, ast.NamedExpr)):
                targets = [n_.target]
            elif isinstance(n_, ast.For):
                targets = [n_.target]
            for t_ in targets:
                for x_ in ast.walk(t_):
                    if isinstance(x_, ast.Name) and st.lookup(x_.id) is not None:
                        st.bind(x_.id, Unknown(x_.id))

    def do_while(self, s, st):
        """zero iterations (the test fails in the entry state), or one abstract iteration from a state in which every loop-assigned local is
        unknown (test true, body), after which the loop is left (by break, or with the test false)"""
        tag = "L%d" % s.lineno
        text = ast.unparse(s.test)
        after = lambda a: self.block(s.orelse, a) if s.orelse else [(a, "next", None)]     # noqa: E731
        out = self.branch(s.test, st.fork(tag + ".none"), lambda a: [], after, tag + ".entry")
        b = st.fork(tag + ".iter")
        self.havoc_assigned(s.body, b)

        def iteration(a):
            a.emit("while[%s]{" % text)
            res = []
            for c, k2, v2 in self.block(s.body, a):
                if k2 == "break":
                    c.emit("}")
                    res.append((c, "next", None))
                elif k2 in ("next", "continue"):
                    c.emit("}")
                    res += self.branch(s.test, c, lambda x: [], after, tag + ".exit")
                else:
                    c.emit("}!")
                    res.append((c, k2, v2))
            return res
        out += self.branch(s.test, b, iteration, lambda a: [], tag + ".test")
        return out

    def do_for(self, s, st):
        out = []
        text = ast.unparse(s.iter)
        for a, k, v in self.ev(s.iter, st):
            if k != "val":
                out.append((a, "raise", v))
                continue
            skip = a.fork("L%d.none" % s.lineno)
            out += self.block(s.orelse, skip) if s.orelse else [(skip, "next", None)]
            b = a.fork("L%d.iter" % s.lineno)
            b.emit("for[%s]{" % text)
            # the abstract iteration stands for *any* iteration: locals the body assigns are unknown at its start
            for n_ in ast.walk(ast.Module(body=list(s.body), type_ignores=[])):
                targets = []
                if isinstance(n_, ast.Assign):
                    targets = n_.targets
                elif isinstance(n_, (ast.AugAssign, ast.AnnAssign, ast.NamedExpr)):
                    targets = [n_.target]
                elif isinstance(n_, ast.For):
                    targets = [n_.target]
                for t_ in targets:
                    for x_ in ast.walk(t_):
                        if isinstance(x_, ast.Name) and b.lookup(x_.id) is not None:
                            b.bind(x_.id, Unknown(x_.id))
            self.assign(s.target, Unknown(), b)
            for c, k2, v2 in self.block(s.body, b):
                if k2 in ("next", "continue", "break"):
                    c.emit("}")
                    out.append((c, "next", None))
                else:
                    c.emit("}!")
                    out.append((c, k2, v2))
        return out

    # -- expressions ---------------------------------------------------------------------------------------------------
    def ev(self, e, st):
        """-> list of (state, 'val', AV) | (state, 'raise', ExcV)"""
        if isinstance(e, ast.Constant):
            return [(st, "val", Const(e.value))]
        if isinstance(e, ast.Name):
            v = st.lookup(e.id)
            return [(st, "val", v if v is not None else Unknown(e.id))]
        if isinstance(e, ast.Lambda):
            return [(st, "val", Closure(e, len(st.frames) - 1, "<lambda>"))]
        if isinstance(e, (ast.Tuple, ast.List)):
            return self.ev_seq(e.elts, st, lambda items: TupleV(items) if isinstance(e, ast.Tuple) else Unknown("[...]" if e.elts else "[]", null=False))
        if isinstance(e, ast.Attribute):
            return [(a, k, Unknown(ast.unparse(e)) if k == "val" else v) for a, k, v in self.ev(e.value, st)]
        if isinstance(e, ast.Subscript):
            def sub(items):
                base, idx = items
                if isinstance(base, TupleV) and isinstance(idx, Const) and isinstance(idx.value, int) and -len(base.items) <= idx.value < len(base.items):
                    return base.items[idx.value]
                return Unknown(ast.unparse(e))
            return self.ev_seq([e.value, e.slice], st, sub)
        if isinstance(e, ast.Slice):
            return self.ev_seq([x for x in (e.lower, e.upper, e.step) if x is not None], st, lambda items: Unknown("slice"))
        if isinstance(e, ast.Call):
            return self.ev_call(e, st)
        if isinstance(e, ast.BoolOp):
            return self.ev_boolop(e, e.values, st)
        if isinstance(e, ast.UnaryOp):
            def un(items):
                t = self.truth(items[0])
                return Const(not t) if isinstance(e.op, ast.Not) and t is not None else Unknown(ast.unparse(e))
            return self.ev_seq([e.operand], st, un)
        if isinstance(e, ast.Compare):
            def cmp(items):
                if len(e.ops) == 1 and isinstance(e.ops[0], (ast.Is, ast.IsNot)) and isinstance(items[1], Const) and items[1].value is None:
                    left = items[0]
                    null = None
                    if isinstance(left, Const):
                        null = left.value is None
                    elif isinstance(left, (Closure, TupleV, ExcV)):
                        null = False
                    elif isinstance(left, Unknown):
                        null = left.null
                    if null is not None:
                        return Const(null if isinstance(e.ops[0], ast.Is) else not null)
                if len(e.ops) == 1 and isinstance(e.ops[0], (ast.Eq, ast.NotEq)) and all(isinstance(i, Const) for i in items):
                    eq = items[0].value == items[1].value
                    return Const(eq if isinstance(e.ops[0], ast.Eq) else not eq)
                return Unknown(ast.unparse(e))
            return self.ev_seq([e.left] + list(e.comparators), st, cmp)
        if isinstance(e, ast.Await):
            out = []
            for a, k, v in self.ev(e.value, st):
                if k != "val":
                    out.append((a, k, v))
                    continue
                out.append((a.fork(), "val", Unknown("await " + (v.text if isinstance(v, Unknown) else "?"))))
                out.append((a.fork("L%d.await-raises" % e.lineno), "raise", ExcV((), label="*")))     # the awaited value failed
            return out
        if isinstance(e, ast.IfExp):
            return self.branch(e.test, st, lambda a: self.ev(e.body, a), lambda a: self.ev(e.orelse, a), "L%d.ifexp" % e.lineno)
        if isinstance(e, (ast.BinOp,)):
            return self.ev_seq([e.left, e.right], st, lambda items: Unknown(ast.unparse(e), null=False))
        if isinstance(e, ast.JoinedStr):
            return self.ev_seq([v.value for v in e.values if isinstance(v, ast.FormattedValue)], st, lambda items: Unknown("str", null=False))
        if isinstance(e, ast.Dict):
            return self.ev_seq([x for x in list(e.keys) + list(e.values) if x is not None], st, lambda items: Unknown("{...}", null=False))
        if isinstance(e, ast.Set):
            return self.ev_seq(e.elts, st, lambda items: Unknown("{...}", null=False))
        if isinstance(e, ast.Starred):
            return self.ev(e.value, st)
        if isinstance(e, (ast.ListComp, ast.SetComp, ast.GeneratorExp, ast.DictComp)):
            return self.ev_comp(e, st)
        if isinstance(e, ast.NamedExpr):
            out = []
            for a, k, v in self.ev(e.value, st):
                if k == "val":
                    a.bind(e.target.id, v)
                out.append((a, k, v))
            return out
        raise Unsupported("expression %s at line %s" % (type(e).__name__, getattr(e, "lineno", "?")))

    def ev_seq(self, exprs, st, build):
        cur = [(st, [])]
        out = []
        for x in exprs:
            nxt = []
            for a, items in cur:
                for b, k, v in self.ev(x, a):
                    if k == "val":
                        nxt.append((b, items + [v]))
                    else:
                        out.append((b, "raise", v))
            cur = nxt
        return out + [(a, "val", build(items)) for a, items in cur]

    def ev_boolop(self, e, values, st):
        out = []
        is_or = isinstance(e.op, ast.Or)
        for a, k, v in self.ev(values[0], st):
            if k != "val":
                out.append((a, k, v))
                continue
            if len(values) == 1:
                out.append((a, "val", v))
                continue
            t = self.truth(v)
            short = (t is True) if is_or else (t is False)
            cont = (t is False) if is_or else (t is True)
            if short or t is None:
                b = a.fork("L%d.short" % e.lineno) if t is None else a
                out.append((b, "val", v if t is not None else Unknown(ast.unparse(values[0]), null=(False if is_or else None))))
            if cont or t is None:
                b = a.fork("L%d.cont" % e.lineno) if t is None else a
                out += self.ev_boolop(e, values[1:], b)
        return out

    def ev_comp(self, e, st):
        """comprehension: the element expression is evaluated zero or once, bracketed by loop markers"""
        gens = e.generators
        out = []
        cur = [st]
        for g in gens[:1]:
            nxt = []
            for c in cur:
                for a, k, v in self.ev(g.iter, c):
                    if k != "val":
                        out.append((a, k, v))
                    else:
                        nxt.append(a)
            cur = nxt
        text = ast.unparse(gens[0].iter)
        for a in cur:
            out.append((a.fork("L%d.comp-none" % e.lineno), "val", Unknown("comp", null=False)))
            b = a.fork("L%d.comp-iter" % e.lineno)
            b.frames = b.frames + [{}]
            b.emit("for[%s]{" % text)
            for g in gens:
                self.assign(g.target, Unknown(), b)
            parts = []
            for g in gens[1:]:
                parts.append(g.iter)
            for g in gens:
                parts += g.ifs
            parts += [e.key, e.value] if isinstance(e, ast.DictComp) else [e.elt]
            for c, k, v in self.ev_seq(parts, b, lambda items: Unknown("comp", null=False)):
                c.frames = c.frames[:-1]
                c.emit("}" if k == "val" else "}!")
                out.append((c, k, v))
        return out

    # -- calls -------------------------------------------------------------------------------------------------------
    def ev_args(self, call, st):
        """evaluate positional and keyword argument expressions in order -> (state, 'val', (args, kwargs)) | raise;
        `*args` / `**kwargs` of an inlined local function are expanded when their content is known"""
        exprs = list(call.args) + [k.value for k in call.keywords]
        names = [None] * len(call.args) + [k.arg if k.arg is not None else "**" for k in call.keywords]
        starred = [isinstance(x, ast.Starred) for x in call.args] + [False] * len(call.keywords)

        def build(items):
            args, kwargs = [], {}
            for n, v, star, x in zip(names, items, starred, exprs):
                if n is None:
                    if star and isinstance(v, TupleV):
                        args += v.items
                    else:
                        args.append(v)
                elif n == "**":
                    known = st.lookup("__kwargs__") if isinstance(x, ast.Name) and isinstance(v, Unknown) and v.text == "**" + x.id else None
                    if isinstance(known, dict):
                        kwargs.update(known)
                    else:
                        kwargs["**"] = v
                else:
                    kwargs[n] = v
            return (args, kwargs)
        return self.ev_seq(exprs, st, build)

    def ev_call(self, call, st):
        out = []
        for a, k, fv in self.ev(call.func, st):
            if k != "val":
                out.append((a, k, fv))
                continue
            # a local alias of a callee (`exe_fn = executor.execute_fields`) is matched under the aliased expression
            text = fv.text if isinstance(fv, Unknown) and isinstance(call.func, ast.Name) and re.fullmatch(r"[\w.]+", fv.text or "") else ast.unparse(call.func)
            for b, k2, packed in self.ev_args(call, a):
                if k2 != "val":
                    out.append((b, k2, packed))
                    continue
                args, kwargs = packed
                out += self.apply(fv, text, call, args, kwargs, b)
        return out

    def apply(self, fv, text, call, args, kwargs, st):
        """invoke an abstract callable -> list of (state, 'val' | 'raise', payload)"""
        if isinstance(fv, Closure):
            return self.inline(fv, args, kwargs, st)
        for rx, handler in self.cfg.callbacks:
            if rx.search(text):
                return handler(self, call, st, text, args, kwargs)
        for rx, label in self.cfg.events:
            if rx.search(text):
                st.emit(label(call, args, kwargs) if callable(label) else label)
                break
        if any(rx.search(text) for rx in self.cfg.nothrow) or any(re.search(p, text) for p in ALWAYS_NOTHROW):
            return [(st, "val", Unknown(text + "(...)"))]
        declared = None
        for rx, classes in self.cfg.raises:
            if rx.search(text):
                declared = classes
                break
        ok = st.fork()
        bad = st.fork("L%d.%s-raises" % (getattr(call, "lineno", 0), text.split(".")[-1] if text else "call"))
        res = [(ok, "val", Unknown(text + "(...)"))]
        if declared is None:
            res.append((bad, "raise", ExcV((), label="*")))
        else:
            for c in declared:
                res.append((bad.fork(c.__name__), "raise", ExcV((c,))))
        return res

    def invoke(self, fv, args, st, label=None, text="<callback>"):
        """for effect contracts: call a callback value (closure inlined; unknown callable = optional event + may raise)"""
        if isinstance(fv, Closure):
            return self.inline(fv, args, {}, st)
        if label:
            st.emit(label)
        ok = st.fork()
        bad = st.fork("%s-raises" % text)
        return [(ok, "val", Unknown(text + "(...)")), (bad, "raise", ExcV((), label="*"))]

    def inline(self, clo, args, kwargs, st):
        node = clo.node
        if id(node) in st.inlining:
            # recursive use of a local function: one unfolding is analysed, the recursive call is an event
            st.emit("rec:%s" % clo.name)
            return [(st, "val", Unknown("rec:%s(...)" % clo.name))]
        st.inlining = st.inlining + (id(node),)
        a = node.args
        params = [p.arg for p in a.posonlyargs + a.args]
        frame = {}
        for p, v in zip(params, args):
            frame[p] = v
        for p in params[len(args):] + [p.arg for p in a.kwonlyargs]:
            frame[p] = kwargs.get(p, Unknown(p))
        if a.vararg:
            frame[a.vararg.arg] = TupleV(args[len(params):]) if len(args) >= len(params) else Unknown()
        if a.kwarg:
            frame[a.kwarg.arg] = Unknown("**" + a.kwarg.arg)
            frame["__kwargs__"] = dict(kwargs)
        outer = st.frames
        st.frames = outer[:clo.depth + 1] + [frame]
        tail = outer[clo.depth + 1:]
        out = []
        if isinstance(node, ast.Lambda):
            results = [(s, "return" if k == "val" else "raise", v) for s, k, v in self.ev(node.body, st)]
        else:
            results = self.block(node.body, st)
        for s_, k, v in results:
            s = s_
            s.frames = s.frames[:clo.depth + 1] + [dict(f) for f in tail]
            s.inlining = tuple(i for i in s.inlining if i != id(node))
            if k == "next":
                out.append((s, "val", Const(None)))
            elif k == "return":
                out.append((s, "val", v))
            elif k == "raise":
                out.append((s, "raise", v))
            else:
                raise Unsupported("loop control escaping a local function")
        return out


# ----------------------------------------------------------------------------------------------------------------------
# helpers for trace contracts

def count(word, label):
    return sum(1 for e in word if e == label)


def index(word, label):
    for i, e in enumerate(word):
        if e == label:
            return i
    return -1


def properly_nested(word, pairs):
    """pairs: {start label: end label}; every end matches the most recent unmatched start; returns (ok, open stack)"""
    stack = []
    ends = {v: k for k, v in pairs.items()}
    for e in word:
        if e in pairs:
            stack.append(e)
        elif e in ends:
            if not stack or stack[-1] != ends[e]:
                return False, stack
            stack.pop()
    return True, stack


def exc_is(payload, *classes):
    return isinstance(payload, ExcV) and payload.classes and all(any(issubclass(r, c) for c in classes) for r in payload.classes)


def check(paths, clauses):
    """clauses: list of (id, text, predicate(path) -> True (holds) | False (violated) | None (clause does not apply to this path)).
    -> list of dicts {id, text, holds, covered (number of paths the clause applied to and held on), witness}"""
    res = []
    for cid, text, pred in clauses:
        if hasattr(pred, "prepare"):
            pred.prepare(paths)            # clauses that must see the whole path set first (may raise Unsupported)
        bad = None
        covered = 0
        for p in paths:
            v = pred(p)
            if v is False:
                bad = bad or p
            elif v is True:
                covered += 1
        res.append({"id": cid, "text": text, "holds": bad is None, "covered": covered,
                    "witness": None if bad is None else {"events": list(bad.events), "outcome": bad.outcome, "payload": repr(bad.payload),
                                                         "path": "/".join(bad.trail), "facts": [list(f) for f in bad.facts]}})
    return res
