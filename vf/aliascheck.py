"""Frame obligations against in-place mutation of argument state (C12 printing, C14 extending).

One obligation per function: no in-place mutation (augmented assignment, mutating method call, subscript / attribute store or delete) of a local that
ALIASES state reachable from an argument.  A local is an alias when one of its assignments binds it to an attribute / subscript / conditional of
such expressions, or to `cast(T, x)` of one, rather than to a freshly built value (other call results, displays, comprehensions, operator results);
parameters (except self) and loop variables over them are aliases.  `x += y` on a list alias extends the caller's own list.
Syntactic, per function, for all inputs; a function that builds its result from fresh containers carries a discharged obligation.
"""
import ast
import inspect
import textwrap

MUTATORS = ("append", "extend", "insert", "remove", "pop", "clear", "sort", "reverse", "update", "setdefault", "add", "discard", "popitem")
BACKEND = "syntactic alias / mutation analysis"


def is_alias_expr(e):
    if isinstance(e, ast.Subscript) and isinstance(e.slice, ast.Slice):
        return False             # a slice of a list / tuple / str is a new object
    if isinstance(e, (ast.Attribute, ast.Subscript)):
        return True
    if isinstance(e, ast.IfExp):
        return is_alias_expr(e.body) or is_alias_expr(e.orelse)
    if isinstance(e, ast.BoolOp):
        return any(is_alias_expr(v) for v in e.values)
    if isinstance(e, ast.Call) and isinstance(e.func, ast.Name) and e.func.id == "cast" and len(e.args) == 2:
        return isinstance(e.args[1], ast.Name) or is_alias_expr(e.args[1])
    return False


def _root(t):
    while isinstance(t, (ast.Attribute, ast.Subscript)):
        t = t.value
    return t.id if isinstance(t, ast.Name) else None


def obligations(funcs, prefix, what, protected=None):
    """funcs: [(qualified name, function)] -> [{id, holds, detail}].  protected(param name) -> bool restricts the parameters whose state must not be modified
    (default: every parameter but self / cls); accumulator parameters of helper functions are then left alone."""
    out = []
    for name, f in funcs:
        try:
            tree = ast.parse(textwrap.dedent(inspect.getsource(f))).body[0]
        except (OSError, TypeError, IndentationError, SyntaxError):
            continue
        params = {a.arg for a in tree.args.args + tree.args.kwonlyargs}
        aliases = set(params) - {"self", "cls"}
        if protected is not None:
            aliases = {a for a in aliases if protected(a)}
        changed = True
        while changed:
            changed = False
            for n in ast.walk(tree):
                new = set()
                if isinstance(n, ast.Assign) and (is_alias_expr(n.value) or (isinstance(n.value, ast.Name) and n.value.id in aliases)):
                    self_rooted = _root(n.value) == "self" and (protected is None or any(isinstance(x, ast.Attribute) and protected(x.attr) for x in ast.walk(n.value)))
                    if isinstance(n.value, ast.Name) or _root(n.value) in aliases or self_rooted or (isinstance(n.value, (ast.IfExp, ast.BoolOp, ast.Call)) and protected is None):
                        new = {t.id for t in n.targets if isinstance(t, ast.Name)}
                if isinstance(n, (ast.For, ast.comprehension)) and isinstance(n.target, ast.Name):
                    new = {n.target.id}
                if new - aliases:
                    aliases |= new
                    changed = True
        # a parameter / alias that the function later REBINDS to a freshly built value stops being an alias from that statement on (straight-line reading)
        fresh_from = {}
        for n in ast.walk(tree):
            if isinstance(n, ast.Assign) and not is_alias_expr(n.value) and not isinstance(n.value, ast.Name):
                for t in n.targets:
                    if isinstance(t, ast.Name) and t.id in aliases:
                        fresh_from[t.id] = min(fresh_from.get(t.id, n.lineno), n.lineno)

        def live(name, lineno):
            return name in aliases and not (name in fresh_from and lineno > fresh_from[name])
        bad = []
        if protected is not None:
            def through_protected(t):
                return _root(t) == "self" and any(isinstance(x, ast.Attribute) and protected(x.attr) for x in ast.walk(t))
            for n in ast.walk(tree):
                tg = []
                if isinstance(n, (ast.Assign, ast.Delete)):
                    tg = [t for t in n.targets if isinstance(t, (ast.Attribute, ast.Subscript))]
                elif isinstance(n, ast.AugAssign) and isinstance(n.target, (ast.Attribute, ast.Subscript)):
                    tg = [n.target]
                elif isinstance(n, ast.Call) and isinstance(n.func, ast.Attribute) and n.func.attr in MUTATORS:
                    tg = [n.func.value]
                for t in tg:
                    # `self.schema = schema` in a constructor binds, it does not modify: only stores THROUGH a protected attribute count
                    inner = t.value if isinstance(t, (ast.Attribute, ast.Subscript)) and not isinstance(n, ast.Call) else t
                    if through_protected(inner):
                        bad.append("line %d: %s" % (n.lineno, ast.unparse(n)[:60]))
        for n in ast.walk(tree):
            if isinstance(n, ast.AugAssign):
                if isinstance(n.target, ast.Name) and live(n.target.id, n.lineno) and isinstance(n.op, (ast.Add, ast.BitOr)):
                    bad.append("line %d: %s" % (n.lineno, ast.unparse(n)))
                elif isinstance(n.target, (ast.Attribute, ast.Subscript)) and live(_root(n.target), n.lineno):
                    bad.append("line %d: %s" % (n.lineno, ast.unparse(n)))
            if isinstance(n, ast.Call) and isinstance(n.func, ast.Attribute) and n.func.attr in MUTATORS and isinstance(n.func.value, ast.Name) and live(n.func.value.id, n.lineno):
                bad.append("line %d: %s" % (n.lineno, ast.unparse(n)[:60]))
            if isinstance(n, ast.Call) and isinstance(n.func, ast.Attribute) and n.func.attr in MUTATORS and isinstance(n.func.value, (ast.Attribute, ast.Subscript)) \
                    and _root(n.func.value) is not None and live(_root(n.func.value), n.lineno):
                bad.append("line %d: %s" % (n.lineno, ast.unparse(n)[:60]))       # x.attr.append(...) on state reachable from an argument
            if isinstance(n, ast.Call) and isinstance(n.func, ast.Name) and n.func.id in ("setattr", "delattr") and n.args and _root(n.args[0]) is not None \
                    and live(_root(n.args[0]), n.lineno):
                bad.append("line %d: %s" % (n.lineno, ast.unparse(n)[:60]))
            if isinstance(n, (ast.Assign, ast.Delete)):
                for t in n.targets:
                    if isinstance(t, (ast.Attribute, ast.Subscript)) and live(_root(t), n.lineno):
                        bad.append("line %d: %s" % (n.lineno, ast.unparse(n)[:60]))
        out.append({"id": "%s:%s:mutates-nothing-it-was-given" % (prefix, name), "holds": not bad,
                    "detail": "%s modifies state reachable from its arguments in place (%s): %s" % (name, "; ".join(bad[:3]), what)})
    return out


def account(run, obs):
    for o in obs:
        run.cov["obligations"] += 1
        run.cov["backends"][BACKEND] = run.cov["backends"].get(BACKEND, 0) + 1
        if o["holds"]:
            run.cov["discharged"] += 1
        else:
            run.violation(o["id"], o["detail"], {"obligation": o["id"]}, False, extra={"obligation": o["id"], "solver": BACKEND, "solver_status": "refuted"})


# modules whose functions must leave what they are given untouched, for the properties that say the answer is a function of the input / can be asked again
FRAME_MODULES = {
    "C03": (["py_gql.lang.printer"], "printing changes the tree it prints, so printing it again (or re-parsing and comparing) sees another tree", None),
    "C15": (["py_gql.schema.introspection", "py_gql.utilities.ast_node_from_value"], "answering an introspection request changes the schema it reports on", None),
    "C19": (["py_gql.utilities.max_depth"], "measuring the depth changes the document it measures", None),
    "C20": (["py_gql.schema.differ"], "diffing changes one of the schemas it compares", None),
}


def run(run, pid):
    import importlib
    if pid not in FRAME_MODULES:
        return
    modules, what, protected = FRAME_MODULES[pid]
    funcs = []
    for m in modules:
        M = importlib.import_module(m)
        short = m.split("py_gql.")[-1]
        for n, o in vars(M).items():
            if inspect.isfunction(o) and o.__module__ == M.__name__:
                funcs.append(("%s.%s" % (short, n), o))
            if inspect.isclass(o) and o.__module__ == M.__name__:
                funcs += [("%s.%s.%s" % (short, n, k), f) for k, f in vars(o).items() if inspect.isfunction(f)]
    account(run, obligations(funcs, "frame", what, protected=protected))
    run.cov["functions_under_contract"].append("%s (frame: arguments are not modified in place; %d functions)" % (", ".join(modules), len(funcs)))
