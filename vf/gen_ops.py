"""G3: operation generator over a schema - executable documents that are valid by construction
(and re-checked with validate_ast), exercising aliases, same-key merging with different
sub-selections, inline / typed / named fragments at every placement (the same fragment spread
several times), @skip/@include with literals and variables, arguments through literals and
variables, abstract types, lists and deep nesting.  Deterministic for a given seed."""
import random
import zlib

from py_gql.schema import (EnumType, InputObjectType, InterfaceType, ListType, NonNullType, ObjectType, ScalarType, UnionType)


def named(t):
    while isinstance(t, (ListType, NonNullType)):
        t = t.type
    return t


class OpGen:
    def __init__(self, schema, seed=0, max_depth=3):
        self.schema = schema
        self.rnd = random.Random(seed)
        self.max_depth = max_depth

    # -- pieces -------------------------------------------------------------------------------------
    def directive(self):
        r = self.rnd.random()
        if r < 0.62:
            return ""
        kind = self.rnd.choice(["skip", "include"])
        val = self.rnd.choice(["true", "false", "$b0", "$b1", "$b0", "$b1"])
        if val.startswith("$"):
            self.used_vars.add(val[1:])
        return " @%s(if: %s)" % (kind, val)

    def arg_text(self, field):
        parts = []
        for a in field.arguments:
            r = self.rnd.random()
            nt = named(a.type)
            if r < 0.4 and not isinstance(a.type, NonNullType):
                continue
            if nt.name == "Int":
                v = self.rnd.choice(["1", "2", "$n"])
            elif nt.name == "String":
                v = self.rnd.choice(['"x"', '"y"', "$s", "null"])
            elif isinstance(nt, EnumType):
                v = self.rnd.choice([nt.values[0].name, nt.values[-1].name, "$c"])
            elif isinstance(nt, InputObjectType):
                v = self.rnd.choice(["{min: 2}", '{tags: ["t"], color: GREEN}', "{}"])
            else:
                continue
            if v.startswith("$"):
                if isinstance(a.type, (ListType,)):
                    continue
                self.used_vars.add(v[1:])
            if v == "null" and isinstance(a.type, NonNullType):
                v = '"x"'
            parts.append("%s: %s" % (a.name, v))
        return ("(%s)" % ", ".join(parts)) if parts else "", parts

    def possible(self, t):
        if isinstance(t, ObjectType):
            return [t]
        return sorted(self.schema.get_possible_types(t), key=lambda x: x.name)

    def conditions_for(self, t):
        """type conditions that apply to (some runtime type of) a parent of type t"""
        out = set()
        for o in self.possible(t):
            out.add(o.name)
            for i in o.interfaces:
                out.add(i.name)
            for u in self.schema.types.values():
                if isinstance(u, UnionType) and o in u.types:
                    out.add(u.name)
        return sorted(out)

    def fields_of(self, t):
        if isinstance(t, (ObjectType, InterfaceType)):
            return [f for f in t.fields]
        return []

    # -- selection sets ---------------------------------------------------------------------------------
    def selection_set(self, t, depth, allow_spread=True):
        """text of a non-empty selection set on composite type t"""
        items = []
        fields = self.fields_of(t)
        k = self.rnd.randint(1, 3) if fields else 0
        for _ in range(k):
            items.append(self.field(self.rnd.choice(fields), depth))
        if self.rnd.random() < 0.25 or not fields:
            items.append("__typename")
        # fragments
        n_frag = self.rnd.choice([0, 0, 1, 1, 2]) if depth < self.max_depth else self.rnd.choice([0, 0, 1])
        for _ in range(n_frag):
            r = self.rnd.random()
            conds = self.conditions_for(t)
            if r < 0.45:
                cond = self.rnd.choice(conds)
                inner = self.selection_set(self.schema.types[cond], depth + 1, allow_spread)
                items.append("... on %s%s { %s }" % (cond, self.directive(), inner))
            elif r < 0.6:
                if fields:
                    inner = self.selection_set(t, depth + 1, allow_spread)
                    items.append("...%s { %s }" % (self.directive(), inner))
            elif allow_spread:
                cond = self.rnd.choice(conds)
                name = self.fragment(cond, depth + 1)
                items.append("...%s%s" % (name, self.directive()))
                if self.rnd.random() < 0.35:      # the same fragment spread twice in one selection set
                    if fields and self.rnd.random() < 0.5:
                        items.append(self.field(self.rnd.choice(fields), depth))
                    items.append("...%s%s" % (name, self.directive()))
        # same response key selected twice with different sub-selections (merging)
        if fields and self.rnd.random() < 0.3:
            comp = [f for f in fields if isinstance(named(f.type), (ObjectType, InterfaceType, UnionType)) and not any(
                isinstance(a.type, NonNullType) for a in f.arguments)]
            if comp and depth < self.max_depth:
                f = self.rnd.choice(comp)
                a = self.selection_set(named(f.type), depth + 1, allow_spread)
                b = self.selection_set(named(f.type), depth + 1, allow_spread)
                items.append("%s { %s }" % (f.name, a))
                conds = self.conditions_for(t)
                if self.rnd.random() < 0.6 and conds:
                    c = self.rnd.choice(conds)
                    if f.name in {x.name for x in self.fields_of(self.schema.types[c])}:
                        items.append("... on %s { %s { %s } }" % (c, f.name, b))
                    else:
                        items.append("%s { %s }" % (f.name, b))
                else:
                    items.append("%s { %s }" % (f.name, b))
        self.rnd.shuffle(items)
        return " ".join(items)

    def field(self, f, depth):
        args, parts = self.arg_text(f)
        nt = named(f.type)
        alias = ""
        if self.rnd.random() < 0.3:
            # alias determined by (field, arguments): equal keys always denote identical fields
            alias = "%s_%s: " % (f.name, (zlib.crc32(repr(parts).encode()) % 97) if parts else "p")
        elif parts:
            alias = "%s_%s: " % (f.name, zlib.crc32(repr(parts).encode()) % 97)
        d = self.directive()
        if isinstance(nt, (ObjectType, InterfaceType, UnionType)):
            if depth >= self.max_depth:
                inner = "__typename" if not self.fields_of(nt) else self.leaf_selection(nt)
            else:
                inner = self.selection_set(nt, depth + 1)
            return "%s%s%s%s { %s }" % (alias, f.name, args, d, inner)
        return "%s%s%s%s" % (alias, f.name, args, d)

    def leaf_selection(self, t):
        leaves = [f for f in self.fields_of(t) if isinstance(named(f.type), (ScalarType, EnumType)) and not any(
            isinstance(a.type, NonNullType) for a in f.arguments)]
        if not leaves:
            return "__typename"
        return " ".join(sorted({self.rnd.choice(leaves).name for _ in range(2)}))

    def fragment(self, cond, depth):
        if self.fragments and self.rnd.random() < 0.4:
            same = [n for n, (c, _b) in self.fragments.items() if c == cond]
            if same:
                return self.rnd.choice(same)
        name = "F%d" % len(self.fragments)
        self.fragments[name] = (cond, None)
        body = self.selection_set(self.schema.types[cond], depth, allow_spread=depth < self.max_depth)
        self.fragments[name] = (cond, body)
        return name

    # -- documents ----------------------------------------------------------------------------------------
    def operation(self, kind="query"):
        self.fragments = {}
        self.used_vars = set()
        root = {"query": self.schema.query_type, "mutation": self.schema.mutation_type}[kind]
        body = self.selection_set(root, 1)
        decl = {"b0": "$b0: Boolean!", "b1": "$b1: Boolean = true", "n": "$n: Int", "s": "$s: String", "c": "$c: Color = BLUE"}
        vs = ", ".join(decl[v] for v in sorted(self.used_vars))
        head = "%s%s" % (kind if (vs or kind != "query") else "", (" (%s)" % vs) if vs else "")
        text = "%s { %s }" % (head, body)
        for name, (cond, fb) in self.fragments.items():
            text += " fragment %s on %s { %s }" % (name, cond, fb)
        variables = {}
        if "b0" in self.used_vars:
            variables["b0"] = self.rnd.random() < 0.5
        if "b1" in self.used_vars and self.rnd.random() < 0.5:
            variables["b1"] = self.rnd.random() < 0.5
        if "n" in self.used_vars and self.rnd.random() < 0.7:
            variables["n"] = self.rnd.choice([1, 5, None])
        if "s" in self.used_vars and self.rnd.random() < 0.7:
            variables["s"] = self.rnd.choice(["v", None])
        if "c" in self.used_vars and self.rnd.random() < 0.5:
            variables["c"] = self.rnd.choice(["RED", "GREEN"])
        return text.strip(), variables


def generate(schema, count, seed=0, kinds=("query", "query", "query", "mutation")):
    """`count` distinct documents that validate against `schema`: list of (text, variables)"""
    from py_gql.lang import parse
    from py_gql.validation import validate_ast
    g = OpGen(schema, seed)
    out, seen, tries, rejected = [], set(), 0, 0
    while len(out) < count and tries < count * 30:
        tries += 1
        text, variables = g.operation(g.rnd.choice(kinds))
        if text in seen:
            continue
        seen.add(text)
        try:
            doc = parse(text)
        except Exception:
            rejected += 1
            continue
        try:
            invalid = bool(validate_ast(schema, doc).errors)
        except Exception:
            invalid = False      # the library's validator crashed on a generated operation: keep it - the check that uses the corpus reports the crash
        if invalid:
            rejected += 1
            continue
        out.append((text, variables))
    return out, rejected
