"""Path-wise "must" obligations over the real source of a function (AST re-read on every run).

Used for invariants of the form: on every normal-return path on which the function has performed
a write of kind W, it has (afterwards) performed an action of kind A.  Paths are the *syntactic*
paths of the function body (both arms of every `if`, every handler of every `try`, loop bodies
zero or one time), a superset of the feasible ones, so a discharged obligation holds for all
executions; each (function, path) pair is one obligation.
"""
import ast
import inspect
import textwrap


class PathState:
    def __init__(self, wrote=False, done_after=False, trail=(), acted=False, consts=None):
        self.wrote, self.done_after, self.trail, self.acted = wrote, done_after, trail, acted
        self.consts = dict(consts or {})      # local name -> True / False (known boolean constants on this path)

    def step(self, note, wrote=None, done=None, consts=None):
        w = self.wrote if wrote is None else wrote
        d = self.done_after if done is None else done
        return PathState(w, d, self.trail + (note,), self.acted or bool(done), self.consts if consts is None else consts)


def _const_of(expr, consts):
    """True / False when `expr` is a boolean constant on this path, else None"""
    if isinstance(expr, ast.Constant) and isinstance(expr.value, bool):
        return expr.value
    if isinstance(expr, ast.Name):
        return consts.get(expr.id)
    if isinstance(expr, ast.UnaryOp) and isinstance(expr.op, ast.Not):
        v = _const_of(expr.operand, consts)
        return None if v is None else (not v)
    if isinstance(expr, ast.BoolOp):
        vals = [_const_of(v, consts) for v in expr.values]
        if isinstance(expr.op, ast.Or):
            if any(v is True for v in vals):
                return True
            if all(v is False for v in vals):
                return False
        else:
            if any(v is False for v in vals):
                return False
            if all(v is True for v in vals):
                return True
    return None


def _stores(node, is_write, is_action):
    """classify the attribute stores / deletions performed by a simple statement"""
    w = a = False
    for n in ast.walk(node):
        if isinstance(n, (ast.Attribute, ast.Subscript)) and isinstance(getattr(n, "ctx", None), (ast.Store, ast.Del)):
            text = ast.unparse(n)
            if is_write(text):
                w = True
            if is_action(text, node):
                a = True
    return w, a


def paths(stmts, st, is_write, is_action, out, action_calls=()):
    """returns list of states that fall through the block; appends (kind, state, line) terminal paths to out"""
    states = [st]
    for s in stmts:
        nxt = []
        for cur in states:
            if isinstance(s, ast.If):
                known = _const_of(s.test, cur.consts)     # prune arms decided by constants assigned on this path
                if known is not False:
                    nxt += paths(s.body, cur.step("L%d+" % s.lineno), is_write, is_action, out, action_calls)
                if known is not True:
                    nxt += paths(s.orelse, cur.step("L%d-" % s.lineno), is_write, is_action, out, action_calls)
            elif isinstance(s, (ast.For, ast.While)):
                nxt.append(cur.step("L%d.skip" % s.lineno))
                once = paths(s.body, cur.step("L%d.iter" % s.lineno), is_write, is_action, out, action_calls)
                nxt += once
            elif isinstance(s, ast.Try):
                body_end = paths(s.body, cur.step("L%d.try" % s.lineno), is_write, is_action, out, action_calls)
                ends = []
                ends += paths(s.orelse, body_end[0], is_write, is_action, out, action_calls) if (s.orelse and body_end) else body_end
                for h in s.handlers:
                    # an exception may be raised anywhere in the body: conservatively from the state before it
                    ends += paths(h.body, cur.step("L%d.except" % h.lineno), is_write, is_action, out, action_calls)
                    for be in body_end:
                        ends += paths(h.body, be.step("L%d.except-late" % h.lineno), is_write, is_action, out, action_calls)
                if s.finalbody:
                    fin = []
                    for e in ends:
                        fin += paths(s.finalbody, e, is_write, is_action, out, action_calls)
                    ends = fin
                nxt += ends
            elif isinstance(s, ast.Return):
                w, a = _stores(s, is_write, is_action)
                out.append(("return", cur.step("L%d.return" % s.lineno), s.lineno))
            elif isinstance(s, ast.Raise):
                out.append(("raise", cur, s.lineno))
            elif isinstance(s, (ast.With,)):
                nxt += paths(s.body, cur, is_write, is_action, out, action_calls)
            else:
                w, a = _stores(s, is_write, is_action)
                if action_calls and isinstance(s, ast.Expr) and isinstance(s.value, ast.Call) and ast.unparse(s.value.func) in action_calls:
                    a = True
                c = cur
                if isinstance(s, ast.Assign) and len(s.targets) == 1 and isinstance(s.targets[0], ast.Name):
                    consts = dict(c.consts)
                    v = _const_of(s.value, c.consts)
                    if v is None:
                        consts.pop(s.targets[0].id, None)
                    else:
                        consts[s.targets[0].id] = v
                    c = c.step("L%d.const" % s.lineno if v is not None else "L%d" % s.lineno, consts=consts)
                if w:
                    c = c.step("L%d.write" % s.lineno, wrote=True, done=False)
                if a:
                    c = c.step("L%d.action" % s.lineno, done=True)
                nxt.append(c)
        states = nxt
    return states


def must_follow(func, is_write, is_action, action_calls=()):
    """obligations: list of dicts {path, line, holds} for every normal-return path"""
    src = textwrap.dedent(inspect.getsource(func))
    tree = ast.parse(src).body[0]
    first = func.__code__.co_firstlineno
    ast.increment_lineno(tree, first - tree.lineno)
    out = []
    fall = paths(tree.body, PathState(), is_write, is_action, out, action_calls)
    for st in fall:
        out.append(("return", st.step("end"), tree.end_lineno))
    obs = []
    for kind, st, line in out:
        if kind != "return":
            continue
        obs.append({"path": "/".join(st.trail), "line": line, "wrote": st.wrote, "acted": st.acted,
                    "holds": (not st.wrote) or st.done_after})
    return obs
