"""Static slot-coverage obligations on ASTVisitor (C18), from the real source of the `_visit_*` methods (re-read on every run).

For every node class K dispatched by ASTVisitor.visit to a traversal method M, and every child slot s that holds non-Name nodes
(contracts/visitor_map.NODE_SLOTS):
  visited      M contains exactly one statement `node.s = map_and_filter(self._visit_X, node.s)` / `node.s = self._visit_X(node.s)`
               (possibly under a guard on node.s itself or on isinstance(node, K)) - the child is traversed once and the result is
               stored back into the same slot (edits stay local and are not lost)
  order        the slots of K are traversed in source order
and M traverses nothing that is not a child slot of K.  A statement shape the extractor does not recognise makes the method
`degraded` (no verdict), never a violation.
"""
import ast
import inspect
import textwrap


class Unsupported(Exception):
    pass


def dispatch_table(visitor_cls):
    """class name -> traversal method name, from the dict literal in ASTVisitor.visit"""
    tree = ast.parse(textwrap.dedent(inspect.getsource(visitor_cls.visit)))
    out = {}
    for n in ast.walk(tree):
        if isinstance(n, ast.Dict):
            for k, v in zip(n.keys, n.values):
                if isinstance(k, ast.Attribute) and isinstance(k.value, ast.Name) and k.value.id == "_ast" and isinstance(v, ast.Attribute):
                    out[k.attr] = v.attr
    if not out:
        raise Unsupported("dispatch table of ASTVisitor.visit not found")
    return out


def traversal(visitor_cls, method):
    """-> list of {"stored", "read", "via", "only_for": set of class names or None, "line"} in statement order"""
    f = visitor_cls.__dict__[method]
    f = getattr(f, "__wrapped__", f)
    tree = ast.parse(textwrap.dedent(inspect.getsource(f))).body[0]
    param = tree.args.args[1].arg
    out = []

    def slot_of(e):
        if isinstance(e, ast.Attribute) and isinstance(e.value, ast.Name) and e.value.id == param:
            return e.attr
        return None

    def visit_call(e):
        """(visitor method, slot read) for map_and_filter(self._visit_X, p.s) / list(map_and_filter(...)) / self._visit_X(p.s)"""
        if isinstance(e, ast.Call) and isinstance(e.func, ast.Name) and e.func.id == "list" and len(e.args) == 1:
            return visit_call(e.args[0])
        if isinstance(e, ast.Call) and isinstance(e.func, ast.Name) and e.func.id == "map_and_filter" and len(e.args) == 2:
            fn, arg = e.args
            if isinstance(fn, ast.Attribute) and isinstance(fn.value, ast.Name) and fn.value.id == "self" and slot_of(arg):
                return fn.attr, slot_of(arg)
        if isinstance(e, ast.Call) and isinstance(e.func, ast.Attribute) and isinstance(e.func.value, ast.Name) and e.func.value.id == "self" and len(e.args) == 1 \
                and slot_of(e.args[0]):
            return e.func.attr, slot_of(e.args[0])
        return None

    def classes_of_test(test):
        """isinstance(param, _ast.K) / (_ast.K1, _ast.K2) -> set of names; a test on a slot's own truthiness / None-ness -> 'slot'; else None"""
        if isinstance(test, ast.Call) and isinstance(test.func, ast.Name) and test.func.id == "isinstance" and isinstance(test.args[0], ast.Name) and test.args[0].id == param:
            t = test.args[1]
            items = t.elts if isinstance(t, ast.Tuple) else [t]
            return {i.attr for i in items if isinstance(i, ast.Attribute)}
        if slot_of(test):
            return "slot"
        if isinstance(test, ast.Compare) and slot_of(test.left) and len(test.comparators) == 1 and isinstance(test.comparators[0], ast.Constant) and test.comparators[0].value is None:
            return "slot"
        return None

    def walk(stmts, only_for):
        for s in stmts:
            if isinstance(s, ast.Expr) and isinstance(s.value, ast.Constant):
                continue
            if isinstance(s, ast.Return):
                if not (isinstance(s.value, ast.Name) and s.value.id == param):
                    raise Unsupported("%s returns something other than its node at line %d" % (method, s.lineno))
                continue
            if isinstance(s, ast.Assign) and len(s.targets) == 1 and slot_of(s.targets[0]):
                vc = visit_call(s.value)
                if vc is None:
                    raise Unsupported("%s: unrecognised traversal statement at line %d" % (method, s.lineno))
                out.append({"stored": slot_of(s.targets[0]), "read": vc[1], "via": vc[0], "only_for": only_for, "line": s.lineno})
                continue
            if isinstance(s, ast.Expr) and visit_call(s.value) is not None:
                vc = visit_call(s.value)          # traversed, but the result is thrown away
                out.append({"stored": None, "read": vc[1], "via": vc[0], "only_for": only_for, "line": s.lineno})
                continue
            if isinstance(s, ast.If):
                c = classes_of_test(s.test)
                if c is None:
                    raise Unsupported("%s: unrecognised guard at line %d" % (method, s.lineno))
                walk(s.body, only_for if c == "slot" else (set(c) if only_for is None else only_for & set(c)))
                if s.orelse:
                    if c == "slot":
                        raise Unsupported("%s: else branch of a slot guard at line %d" % (method, s.lineno))
                    walk(s.orelse, only_for)       # elif isinstance(...) chains: each arm carries its own test
                continue
            raise Unsupported("%s: statement %s at line %d" % (method, type(s).__name__, s.lineno))
    walk(tree.body, None)
    return out


def obligations(visitor_cls, node_slots):
    """-> (list of dicts {id, holds, detail, cls, slot, kind}, list of (method, reason) that could not be analysed)"""
    table = dispatch_table(visitor_cls)
    obs, degraded = [], []
    cache = {}
    for cls, method in sorted(table.items()):
        if cls not in node_slots:
            obs.append({"id": "ASTVisitor:slots:%s:known-kind" % cls, "holds": False, "cls": cls, "slot": None, "kind": "table",
                        "detail": "node kind %s is dispatched but has no entry in the slot table" % cls})
            continue
        if method not in cache:
            try:
                cache[method] = traversal(visitor_cls, method)
            except Unsupported as e:
                cache[method] = e
        tr = cache[method]
        if isinstance(tr, Unsupported):
            degraded.append((method, str(tr)))
            continue
        mine = [t for t in tr if t["only_for"] is None or cls in t["only_for"]]
        want = node_slots[cls]
        for slot in want:
            hits = [t for t in mine if t["read"] == slot]
            ok = len(hits) == 1 and hits[0]["stored"] == slot
            detail = "traversed once and stored back" if ok else (
                "%s never traverses %s.%s" % (method, cls, slot) if not hits else
                "%s.%s is traversed %d times" % (cls, slot, len(hits)) if len(hits) > 1 else
                "the result of traversing %s.%s is discarded: a replacement or removal made by the visitor is lost" % (cls, slot) if hits[0]["stored"] is None else
                "the result of traversing %s.%s is stored into .%s" % (cls, slot, hits[0]["stored"]))
            obs.append({"id": "ASTVisitor:slot:%s.%s:visited" % (cls, slot), "holds": ok, "detail": detail, "cls": cls, "slot": slot, "kind": "visited"})
        extra = [t for t in mine if t["read"] not in want]
        obs.append({"id": "ASTVisitor:slots:%s:nothing-else" % cls, "holds": not extra, "cls": cls, "slot": None, "kind": "extra",
                    "detail": "ok" if not extra else "%s traverses %s which is not a child slot of %s" % (method, [t["read"] for t in extra], cls)})
        seq = [t["read"] for t in mine if t["read"] in want]
        order_ok = seq == [s for s in want if s in seq]
        obs.append({"id": "ASTVisitor:slots:%s:source-order" % cls, "holds": order_ok, "cls": cls, "slot": None, "kind": "order",
                    "detail": "ok" if order_ok else "%s traverses %s in the order %s; source order is %s" % (method, cls, seq, [s for s in want if s in seq])})
    missing = sorted(set(node_slots) - set(table))
    obs.append({"id": "ASTVisitor:dispatch:every-node-kind", "holds": not missing, "cls": None, "slot": None, "kind": "dispatch",
                "detail": "ok" if not missing else "node kinds without a traversal method: %s" % missing})
    return obs, degraded
