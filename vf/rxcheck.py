"""Regular-expression contracts: the language a compiled pattern accepts at each of its use sites against a specification language.

Several functions the properties depend on delegate their whole decision to a module-level `re` pattern (`_is_valid_name` -> VALID_NAME_RE,
the literal classification of printed default values -> _INT_RE / _FLOAT_RE / _NAME_RE, line splitting of block strings and of the
error rendering -> LINE_SEPARATOR).  Engine A cannot look through `pattern.match`, so these get their own obligations, for ALL strings:

  for every use site `NAME.<method>(x)` of a pattern under contract, found in the module's source on every run:
      { s | bool(NAME.<method>(s)) }  ==  the specification language of NAME                      (<site>:language)
  for a pattern used with `.split`: its language is the specification's set of separators (…:separators) and, alternation in `re` being
  leftmost-first, no alternative's word is a proper prefix of a later alternative's word, so that the longest separator is taken (…:longest-first).

How: the live pattern object's `.pattern` / `.flags` are parsed with the interpreter's own `re._parser`; every character-set item is turned into an
exact set of code points by asking the interpreter's `re` engine about each of the 0x110000 code points under the pattern's flags (so IGNORECASE,
ASCII / UNICODE categories, negation are whatever CPython makes of them); the structure (concatenation, alternation, repetition, the anchors
`^ \\A $ \\Z` at the ends, one leading look-ahead) becomes an NFA over the partition of the code points that all sets of both sides induce; the method adds
the implicit context (`match`: any suffix unless end-anchored, `$`: an optional final newline, `search`: any prefix unless start-anchored).  Language
equality is decided by a breadth-first product of the subset constructions, which yields a SHORTEST distinguishing string; that string is replayed on the
real pattern method and judged by an independent Python reading of the specification (spec/lexical.py).  Constructs outside this subset make the use site
*undecided* (function listed degraded), never a violation.

Guard against an unsound translation: on every run the automaton of every pattern is co-executed with the real `re` method on all strings up to length
4 over one representative per partition class (disagreement = machinery defect, exit 3).
"""
import ast
import importlib
import inspect
import itertools
import re
import time

from vf.report import MachineryDefect

BACKEND = "regular-language equivalence (product of subset constructions over code-point classes; sets read from the interpreter's re engine)"
MAXCP = 0x110000
P = re._parser
C = re._constants


class Unsupported(Exception):
    pass


# ---------------------------------------------------------------------------------------------------------------------------
# regular expressions over sets of code points:  ("set", ranges) | ("cat", [r]) | ("alt", [r]) | ("star", r) | ("eps",) | ("empty",)
def rset(*ranges):
    return ("set", tuple(sorted(ranges)))


def lit(text):
    return ("cat", [rset((ord(c), ord(c))) for c in text])


def chars(text):
    return rset(*[(ord(c), ord(c)) for c in text])


ANY = rset((0, MAXCP - 1))
EPS = ("eps",)


def cat(*rs):
    return ("cat", list(rs))


def alt(*rs):
    return ("alt", list(rs))


def star(r):
    return ("star", r)


def opt(r):
    return alt(EPS, r)


def plus(r):
    return cat(r, star(r))


_SET_CACHE = {}


def _ranges_of(pred):
    out, start = [], None
    for cp in range(MAXCP):
        if pred(cp):
            if start is None:
                start = cp
        elif start is not None:
            out.append((start, cp - 1))
            start = None
    if start is not None:
        out.append((start, MAXCP - 1))
    return tuple(out)


def item_set(item, flags):
    """exact set of code points a single-character item (LITERAL / NOT_LITERAL / IN / ANY / CATEGORY) matches under `flags`, read off the interpreter's engine"""
    key = (repr(item), flags)
    if key not in _SET_CACHE:
        state = P.State()
        state.flags = flags
        state.str = ""
        sub = P.SubPattern(state, [item])
        try:
            compiled = re._compiler.compile(sub, flags)
        except Exception as e:  # the private constructor changed: undecided, not wrong
            raise Unsupported("cannot compile a single item through re._compiler: %r" % (e,))
        m = compiled.fullmatch
        _SET_CACHE[key] = _ranges_of(lambda cp: m(chr(cp)) is not None)
    return ("set", _SET_CACHE[key])


def translate(items, flags):
    """sre item list (no anchors / look-around inside) -> regex"""
    out = []
    for op, av in items:
        if op in (C.LITERAL, C.NOT_LITERAL, C.IN, C.ANY, C.CATEGORY):
            out.append(item_set((op, av), flags))
        elif op is C.BRANCH:
            out.append(alt(*[translate(list(b), flags) for b in av[1]]))
        elif op is C.SUBPATTERN:
            group, add, delete, p = av
            if add or delete:
                raise Unsupported("inline flag group")
            out.append(translate(list(p), flags))
        elif op in (C.MAX_REPEAT, C.MIN_REPEAT) or (hasattr(C, "POSSESSIVE_REPEAT") and op is C.POSSESSIVE_REPEAT):
            if hasattr(C, "POSSESSIVE_REPEAT") and op is C.POSSESSIVE_REPEAT:
                raise Unsupported("possessive repeat")
            lo, hi, p = av
            body = translate(list(p), flags)
            if lo > 16 or (hi is not C.MAXREPEAT and hi > 16):
                raise Unsupported("repeat bound above 16")
            parts = [body] * lo
            if hi is C.MAXREPEAT:
                parts.append(star(body))
            else:
                parts += [opt(body)] * (hi - lo)
            out.append(cat(*parts))
        else:
            raise Unsupported("regex construct %s" % (op,))
    return cat(*out)


class Lang:
    """main ∩ ⋂ must ∩ ⋂ ¬mustnot (all regexes over code-point sets)"""

    def __init__(self, main, must=(), mustnot=()):
        self.main, self.must, self.mustnot = main, list(must), list(mustnot)


def language_of(pattern, method):
    """{ s | bool(pattern.<method>(s)) } for method in match / fullmatch / search"""
    flags = pattern.flags
    if flags & (re.MULTILINE | re.VERBOSE | re.LOCALE):
        raise Unsupported("flags %r" % (re.RegexFlag(flags),))
    items = list(P.parse(pattern.pattern, flags & ~re.DEBUG))
    start_anchored = False
    end = None   # None | "Z" | "$"
    must, mustnot = [], []
    while items and items[0][0] is C.AT and items[0][1] in (C.AT_BEGINNING, C.AT_BEGINNING_STRING):
        items.pop(0)
        start_anchored = True
    while items and items[0][0] in (C.ASSERT, C.ASSERT_NOT):
        op, (direction, p) = items.pop(0)
        if direction != 1:
            raise Unsupported("look-behind")
        if method == "search" and not start_anchored:
            raise Unsupported("look-ahead in an unanchored search")
        (must if op is C.ASSERT else mustnot).append(cat(translate(list(p), flags), star(ANY)))
    while items and items[0][0] is C.AT and items[0][1] in (C.AT_BEGINNING, C.AT_BEGINNING_STRING):
        items.pop(0)
        start_anchored = True
    if items and items[-1][0] is C.AT and items[-1][1] in (C.AT_END, C.AT_END_STRING):
        end = "Z" if items.pop()[1] is C.AT_END_STRING else "$"
    if any(op is C.AT or op in (C.ASSERT, C.ASSERT_NOT, C.GROUPREF, C.GROUPREF_EXISTS) for op, _ in _walk(items)):
        raise Unsupported("anchor, look-around or back-reference inside the pattern")
    body = translate(items, flags)
    if method == "fullmatch":
        tail = EPS
    elif end == "Z":
        tail = EPS
    elif end == "$":
        tail = opt(chars("\n"))
    else:
        tail = star(ANY)
    if method == "fullmatch" and end == "$":
        # `$` also matches before a final newline, which fullmatch then cannot consume: only the end of the string is left
        tail = EPS
    head = star(ANY) if (method == "search" and not start_anchored) else EPS
    if method not in ("match", "fullmatch", "search"):
        raise Unsupported("method %s" % method)
    return Lang(cat(head, body, tail), must, mustnot)


def _walk(items):
    for op, av in items:
        yield op, av
        if op is C.BRANCH:
            for b in av[1]:
                yield from _walk(list(b))
        elif op is C.SUBPATTERN:
            yield from _walk(list(av[3]))
        elif op in (C.MAX_REPEAT, C.MIN_REPEAT):
            yield from _walk(list(av[2]))
        elif op in (C.ASSERT, C.ASSERT_NOT):
            yield from _walk(list(av[1]))


# ---------------------------------------------------------------------------------------------------------------------------
# automata over the partition induced by all sets
def _sets(r, acc):
    if r[0] == "set":
        acc.add(r[1])
    elif r[0] in ("cat", "alt"):
        for x in r[1]:
            _sets(x, acc)
    elif r[0] == "star":
        _sets(r[1], acc)


def partition(regexes):
    """sorted cut points -> list of (lo, hi) classes; every set is a union of classes"""
    acc = set()
    for r in regexes:
        _sets(r, acc)
    cuts = {0, MAXCP}
    for ranges in acc:
        for lo, hi in ranges:
            cuts.add(lo)
            cuts.add(hi + 1)
    cuts = sorted(cuts)
    return [(cuts[i], cuts[i + 1] - 1) for i in range(len(cuts) - 1)]


class NFA:
    def __init__(self, r, classes):
        self.eps, self.delta, self.n = {}, {}, 0
        self.classes = classes
        self._letters = {}
        self.start, self.final = self._new(), self._new()
        self._build(r, self.start, self.final)

    def _new(self):
        self.n += 1
        return self.n - 1

    def letters_of(self, ranges):
        if ranges not in self._letters:
            self._letters[ranges] = [i for i, (lo, hi) in enumerate(self.classes) if any(a <= lo and hi <= b for a, b in ranges)]
        return self._letters[ranges]

    def _build(self, r, a, b):
        k = r[0]
        if k == "eps":
            self.eps.setdefault(a, set()).add(b)
        elif k == "empty":
            pass
        elif k == "set":
            for l in self.letters_of(r[1]):
                self.delta.setdefault((a, l), set()).add(b)
        elif k == "cat":
            cur = a
            for i, x in enumerate(r[1]):
                nxt = b if i == len(r[1]) - 1 else self._new()
                self._build(x, cur, nxt)
                cur = nxt
            if not r[1]:
                self.eps.setdefault(a, set()).add(b)
        elif k == "alt":
            for x in r[1]:
                self._build(x, a, b)
        elif k == "star":
            m = self._new()
            self.eps.setdefault(a, set()).add(m)
            self.eps.setdefault(m, set()).add(b)
            self._build(r[1], m, m)
        else:
            raise Unsupported(k)

    def closure(self, states):
        seen, todo = set(states), list(states)
        while todo:
            s = todo.pop()
            for t in self.eps.get(s, ()):
                if t not in seen:
                    seen.add(t)
                    todo.append(t)
        return frozenset(seen)

    def initial(self):
        return self.closure({self.start})

    def step(self, S, l):
        out = set()
        for s in S:
            out |= self.delta.get((s, l), set())
        return self.closure(out)

    def accepts(self, S):
        return self.final in S


class Machine:
    """acceptor of a Lang over a given partition: tuple of subset states"""

    def __init__(self, lang, classes):
        self.parts = [(NFA(lang.main, classes), True)] + [(NFA(r, classes), True) for r in lang.must] + [(NFA(r, classes), False) for r in lang.mustnot]

    def initial(self):
        return tuple(n.initial() for n, _ in self.parts)

    def step(self, S, l):
        return tuple(n.step(s, l) for (n, _), s in zip(self.parts, S))

    def accepts(self, S):
        return all(n.accepts(s) == want for (n, want), s in zip(self.parts, S))

    def run(self, text, classes):
        S = self.initial()
        for ch in text:
            cp = ord(ch)
            l = next(i for i, (lo, hi) in enumerate(classes) if lo <= cp <= hi)
            S = self.step(S, l)
        return self.accepts(S)


def representative(cls):
    lo, hi = cls
    for cp in (lo, hi):
        if not 0xD800 <= cp <= 0xDFFF:
            return chr(cp)
    return chr(lo)


def difference(l1, l2, limit=400000):
    """shortest string in exactly one of the two languages, or None when they are equal"""
    regs = [l1.main, l2.main] + l1.must + l1.mustnot + l2.must + l2.mustnot
    classes = partition(regs)
    m1, m2 = Machine(l1, classes), Machine(l2, classes)
    start = (m1.initial(), m2.initial())
    seen = {start: None}
    todo = [start]
    n = 0
    while todo:
        nxt = []
        for st in todo:
            a, b = st
            if m1.accepts(a) != m2.accepts(b):
                word = []
                cur = st
                while seen[cur] is not None:
                    prev, l = seen[cur]
                    word.append(representative(classes[l]))
                    cur = prev
                return "".join(reversed(word)), m1.accepts(a)
            for l in range(len(classes)):
                t = (m1.step(a, l), m2.step(b, l))
                if t not in seen:
                    seen[t] = (st, l)
                    nxt.append(t)
                    n += 1
                    if n > limit:
                        raise Unsupported("product automaton above %d states" % limit)
        todo = nxt
    return None


# ---------------------------------------------------------------------------------------------------------------------------
# the specification languages (June 2018 appendix B.1) and their independent Python readings used for replay
_DIGIT = rset((48, 57))
_NZ = rset((49, 57))
_NAME_START = rset((95, 95), (65, 90), (97, 122))
_NAME_CONT = rset((95, 95), (65, 90), (97, 122), (48, 57))
NAME = cat(_NAME_START, star(_NAME_CONT))
INT_PART = cat(opt(chars("-")), alt(chars("0"), cat(_NZ, star(_DIGIT))))
FRAC = cat(chars("."), plus(_DIGIT))
EXP = cat(chars("eE"), opt(chars("+-")), plus(_DIGIT))
FLOAT = cat(INT_PART, alt(FRAC, EXP, cat(FRAC, EXP)))
LINE_TERMINATOR = alt(lit("\r\n"), lit("\n"), lit("\r"))


def _py_is_name(s):
    from spec import lexical as L
    return len(s) > 0 and L.is_name_start(s[0]) and L.name_end(s, 0) == len(s)


def _py_number_kind(s):
    """'int' / 'float' when the whole of s is one IntValue / FloatValue token, else None"""
    from spec import lexical as L
    try:
        t = L.number_token(s + " ", 0)
    except Exception:
        return None
    if not t:
        return None
    # number_token -> (kind, end) | None in spec/lexical.py; be liberal in what is returned
    kind, end = (t[0], t[1]) if isinstance(t, tuple) else (None, None)
    if end != len(s):
        return None
    return kind


SPECS = {
    # (module, global) -> dict(lang, methods allowed, reading(s) -> bool, props, what)
    ("py_gql.schema.validation", "VALID_NAME_RE"): dict(
        lang=Lang(NAME, mustnot=[cat(lit("__"), star(ANY))]), read=lambda s: _py_is_name(s) and not s.startswith("__"), props=("C13", "C11"),
        what="a well-formed schema element name: a Name of the grammar that does not begin with two underscores"),
    ("py_gql.utilities.ast_node_from_value", "_NAME_RE"): dict(
        lang=Lang(NAME), read=_py_is_name, props=("C12", "C15"),
        what="object keys of a structured default are printed as field names: exactly the grammar's Name"),
    ("py_gql.utilities.ast_node_from_value", "_INT_RE"): dict(
        lang=Lang(INT_PART), read=lambda s: _number_reading(s) == "int", props=("C12", "C15"),
        what="a string printed unquoted as an IntValue is exactly an IntValue of the grammar"),
    ("py_gql.utilities.ast_node_from_value", "_FLOAT_RE"): dict(
        lang=Lang(FLOAT), read=lambda s: _number_reading(s) == "float", props=("C12", "C15"),
        what="a string printed unquoted as a FloatValue is exactly a FloatValue of the grammar"),
    ("py_gql._string_utils", "LINE_SEPARATOR"): dict(
        lang=Lang(LINE_TERMINATOR), read=lambda s: s in ("\r\n", "\n", "\r"), props=("C01", "C02"), split=True,
        what="lines are separated by LF, CR and CRLF only, CRLF counting once"),
}


def _number_reading(s):
    """independent reading through the specification's regex transcription (spec/lexical_regex.py)"""
    from spec import lexical_regex as LR
    if LR.FLOAT.fullmatch(s):
        return "float"
    if LR.INT.fullmatch(s):
        return "int"
    return None


# ---------------------------------------------------------------------------------------------------------------------------
def use_sites(module, name):
    """[(function qualname, method, line)] for every `name.<method>(...)` in the module's current source; other uses of the name are returned with method None"""
    tree = ast.parse(inspect.getsource(module))
    out = []

    def visit(node, qual):
        for child in ast.iter_child_nodes(node):
            q = qual
            if isinstance(child, (ast.FunctionDef, ast.AsyncFunctionDef, ast.ClassDef)):
                q = (qual + "." if qual else "") + child.name
            if isinstance(child, ast.Call) and isinstance(child.func, ast.Attribute) and isinstance(child.func.value, ast.Name) and child.func.value.id == name:
                out.append((qual or "<module>", child.func.attr, child.lineno))
                for a in list(child.args) + [k.value for k in child.keywords]:
                    visit(a, q)
                continue
            if isinstance(child, ast.Name) and child.id == name and isinstance(child.ctx, ast.Load):
                out.append((qual or "<module>", None, child.lineno))
            visit(child, q)

    visit(tree, "")
    return out


def cross_check(pattern, method, lang, label):
    """co-execution guard of the translation: automaton vs the real method on all strings <= 4 over one representative per class (+ newline variants)"""
    classes = partition([lang.main] + lang.must + lang.mustnot)
    m = Machine(lang, classes)
    reps = sorted({representative(c) for c in classes} | {"\n"})
    if len(reps) > 9:
        # keep the enumeration small: representatives adjacent to the cut points that matter most come first
        reps = reps[:9]
    fn = getattr(pattern, method)
    n = 0
    for k in range(0, 5):
        for tup in itertools.product(reps, repeat=k):
            s = "".join(tup)
            n += 1
            if bool(fn(s)) != m.run(s, classes):
                raise MachineryDefect("rxcheck: translation of %s disagrees with re on %r (re: %r)" % (label, s, bool(fn(s))))
    return n


def obligations(pid):
    obs, undecided, evals = [], [], 0
    for (modname, gname), spec in SPECS.items():
        if pid not in spec["props"]:
            continue
        module = importlib.import_module(modname)
        pattern = getattr(module, gname, None)
        base = "rx:%s.%s" % (modname.split(".")[-1], gname)
        if not isinstance(pattern, re.Pattern):
            # the function no longer delegates to a compiled pattern: nothing to state here, the stand-ins decide
            undecided.append((base, "%s.%s is not a compiled pattern any more" % (modname, gname)))
            continue
        sites = use_sites(module, gname)
        if not [s for s in sites if s[1]]:
            undecided.append((base, "no use site `%s.<method>(...)` found" % gname))
            continue
        ordinal = {}
        for fn, method, line in sites:
            ordinal[(fn, method)] = ordinal.get((fn, method), 0) + 1
            oid = "%s@%s.%s" % (base, fn, method) + ("#%d" % ordinal[(fn, method)] if ordinal[(fn, method)] > 1 else "")
            if method is None:
                undecided.append((oid, "%s is used other than by a method call (line %d)" % (gname, line)))
                continue
            try:
                if spec.get("split") and method == "split":
                    obs += _split_obligations(oid, pattern, spec)
                    evals += cross_check(pattern, "fullmatch", language_of(pattern, "fullmatch"), oid)
                    continue
                lang = language_of(pattern, method)
                evals += cross_check(pattern, method, lang, oid)
                d = difference(lang, spec["lang"])
            except Unsupported as e:
                undecided.append((oid, "outside the regex subset: %s" % e))
                continue
            if d is None:
                obs.append(dict(id=oid + ":language", holds=True))
            else:
                word, in_code = d
                real = bool(getattr(pattern, method)(word))
                want = bool(spec["read"](word))
                obs.append(dict(id=oid + ":language", holds=False, witness=word, real=real, want=want, replayed=(real != want),
                                detail="%s: %s.%s(%r) is %s but the specification (%s) says %s [pattern %r, flags %s]" % (
                                    fn, gname, method, word, "truthy" if real else "falsy", spec["what"], want, pattern.pattern, re.RegexFlag(pattern.flags))))
    return obs, undecided, evals


def _split_obligations(oid, pattern, spec):
    out = []
    lang = language_of(pattern, "fullmatch")
    d = difference(lang, spec["lang"])
    if d is None:
        out.append(dict(id=oid + ":separators", holds=True))
    else:
        word, _ = d
        real = pattern.fullmatch(word) is not None
        want = bool(spec["read"](word))
        out.append(dict(id=oid + ":separators", holds=False, witness=word, real=real, want=want, replayed=(real != want),
                        detail="%r %s a separator for the pattern %r but the specification (%s) says %s" % (word, "is" if real else "is not", pattern.pattern, spec["what"], want)))
    # leftmost-first alternation: an earlier alternative must not stop short of a later one
    items = list(P.parse(pattern.pattern, pattern.flags))
    alts = [list(b) for b in items[0][1][1]] if len(items) == 1 and items[0][0] is C.BRANCH else [items]
    bad = None
    for i in range(len(alts)):
        for j in range(i + 1, len(alts)):
            a, b = translate(alts[i], pattern.flags), translate(alts[j], pattern.flags)
            # a word of alternative j that has a proper prefix in alternative i:  (L_i . ANY+) ∩ L_j  non-empty?
            w = difference(Lang(b, must=[cat(a, plus(ANY))]), Lang(("empty",)))
            if w is not None:
                bad = (i, j, w[0])
                break
        if bad:
            break
    if bad is None:
        out.append(dict(id=oid + ":longest-first", holds=True))
    else:
        i, j, word = bad
        pieces = pattern.split("a" + word + "b")
        out.append(dict(id=oid + ":longest-first", holds=False, witness=word, replayed=(len(pieces) != 2),
                        detail="alternative %d of %r matches a proper prefix of %r, which alternative %d matches whole: `a%sb` splits into %r instead of two lines" % (
                            i + 1, pattern.pattern, word, j + 1, word.encode("unicode_escape").decode(), pieces)))
    return out


def run(run, pid):
    if not any(pid in s["props"] for s in SPECS.values()):
        return
    t0 = time.time()
    obs, undecided, evals = obligations(pid)
    cov = run.cov
    for o in obs:
        cov["obligations"] += 1
        cov["backends"][BACKEND] = cov["backends"].get(BACKEND, 0) + 1
        if o["holds"]:
            cov["discharged"] += 1
        else:
            run.violation(o["id"], o["detail"], {"obligation": o["id"], "text": o.get("witness")}, bool(o.get("replayed")),
                          extra={"obligation": o["id"], "solver": BACKEND, "solver_status": "refuted", "witness_text": o.get("witness")})
    for fn, reason in undecided:
        cov["degraded_functions"].append({"function": fn, "reason": reason})
    cov["functions_under_contract"] += ["%s.%s (regular-expression contract: %s)" % (m, g, s["what"]) for (m, g), s in SPECS.items() if pid in s["props"]]
    cov["parts"]["regex_contracts"] = {"obligations": len(obs), "undecided": len(undecided), "translation_cross_check_strings": evals, "seconds": round(time.time() - t0, 2)}
    cov["solver_time_s"] += time.time() - t0
    run.assume("regular-expression contracts: CPython's re engine matches a pattern the way its own parse tree is read here (concatenation, leftmost alternation, greedy repetition "
               "accept the regular language they denote); character sets are read from the engine itself; cross-checked on every run by co-execution on short strings")
