"""C10 - every outcome is a well-formed, serialisable response; failures stay contained."""
import json
import math
import random
import types

from vf import engine_p
from vf import execharness as H
from vf.report import MachineryDefect, Run


def well_formed(resp, text, stage):
    """returns list of (clause, detail) for a response dictionary"""
    out = []
    try:
        round_trip = json.loads(json.dumps(resp, allow_nan=False))
    except Exception as e:
        return [("response:strict-json", "response does not serialise to strict JSON: %r" % (e,))]
    if not isinstance(round_trip, dict) or not set(round_trip) <= {"data", "errors", "extensions"}:
        out.append(("response:top-level-keys", "top-level keys %r" % (sorted(round_trip) if isinstance(round_trip, dict) else round_trip,)))
        return out
    if "errors" in round_trip:
        errs = round_trip["errors"]
        if not isinstance(errs, list) or not errs:
            out.append(("response:errors-non-empty-list", "errors is %r" % (errs,)))
            errs = []
        lines = text.split("\n") if isinstance(text, str) else None
        for e in errs:
            if not isinstance(e, dict) or not isinstance(e.get("message"), str):
                out.append(("response:error-message-is-string", "error entry %r" % (e,)))
                continue
            if "locations" in e:
                locs = e["locations"]
                if not isinstance(locs, list) or not locs:
                    out.append(("response:error-locations", "locations is %r" % (locs,)))
                    continue
                for loc in locs:
                    if not isinstance(loc, dict) or set(loc) != {"line", "column"}:
                        out.append(("response:error-location-keys", "location %r does not have exactly the keys line and column" % (loc,),
                                    {"location_keys": sorted(loc) if isinstance(loc, dict) else None}))
                        continue
                    ln, col = loc["line"], loc["column"]
                    ok = isinstance(ln, int) and isinstance(col, int) and ln >= 1 and col >= 1
                    if ok and lines is not None:
                        ok = ln <= len(lines) and col <= len(lines[ln - 1]) + 1
                    if not ok:
                        out.append(("response:error-location-in-document", "location %r is not a 1-based position inside the submitted document" % (loc,)))
            if "path" in e:
                p = e["path"]
                if not isinstance(p, list) or not all(isinstance(x, (str, int)) and not isinstance(x, bool) for x in p):
                    out.append(("response:error-path", "path %r" % (p,)))
    if stage in ("syntax", "validation") and "data" in round_trip:
        out.append(("response:data-omitted-when-not-executed", "a request that failed at the %s stage has a data entry (%r)" % (stage, round_trip["data"])))
    if stage in ("syntax", "validation") and not round_trip.get("errors"):
        out.append(("response:failure-is-reported", "a request that failed at the %s stage has no errors" % stage))
    return out


def null_error_bijection(result, expected_errors):
    """every null at a failed position is matched by exactly one error with that path (through the reference)"""
    got = sorted((tuple(e.path) for e in result.errors if getattr(e, "path", None) is not None), key=repr)
    want = sorted((p for p, _k, _m, _l, _x in expected_errors), key=repr)
    return got == want, got, want


def _short(x):
    t = repr(x)
    return t if len(t) < 300 else t[:300] + "..."


def check(tier, seed):
    from py_gql import process_graphql_query
    from py_gql.exc import GraphQLSyntaxError, ResolverError
    from py_gql.lang import parse
    from py_gql.validation import validate_ast
    run = Run("C10", tier, seed)
    rnd = random.Random(seed)
    schema = H.make_schema()
    n = nontrivial = 0

    def judge(resp, text, stage, w):
        for item in well_formed(resp, text, stage):
            run.violation(item[0], item[1], dict(w, **(item[2] if len(item) > 2 else {})), True)

    # --- 1. executions with failures placed everywhere -----------------------------------------------------------
    # (two operations laid out over several lines with fields starting in column 1: positions at the very start of a line are positions like any other)
    ops = list(H.OPERATIONS) + [("{\nme {\nname\nage\nn2: name\n}\ncount\npeople {\nname\n}\n}", {}), ("query Q {\r\n  me {\r\nname\r\n    age }\r\ncount }", {})]
    for query, variables in ops:
        name, worlds = H.worlds_for(schema, query, variables, with_boom=False, limit=None if tier == "thorough" else 14)
        for wname, world in worlds:
            for cfg in ("blocking-executor", "executor-blocking"):
                got = H.run_request(schema, query, variables, world, cfg, operation_name=name)
                n += 1
                w = {"query": query, "world": wname, "config": cfg}
                if got["outcome"] != "result":
                    run.violation("response:every-request-returns-a-result", "request raised %r" % (got.get("exc"),), w, True)
                    continue
                nontrivial += 1
                judge(got["result"].response(), query, "execution", w)
                # the response lists every recorded error: as many entries, with the same paths, as the result holds errors
                rp = sorted((tuple(e_.get("path")) for e_ in (got["result"].response().get("errors") or []) if e_.get("path") is not None), key=repr)
                ep = sorted((tuple(e_.path) for e_ in got["result"].errors if getattr(e_, "path", None) is not None), key=repr)
                if rp != ep:
                    run.violation("response:one-error-per-failed-position", "the response lists errors at %r, the result holds errors at %r" % (rp, ep), w, True)
                # a field error is located AT its field: the text at (line, column) starts with the response key its path ends with
                qlines = query.replace("\r\n", "\n").split("\n") if "\r" not in query.replace("\r\n", "") else None
                for e_ in (got["result"].response().get("errors") or []):
                    keys = [k for k in e_.get("path") or [] if isinstance(k, str)]
                    if not keys or not e_.get("locations") or qlines is None:
                        continue
                    for loc in e_["locations"]:
                        ln, col = loc.get("line"), loc.get("column")
                        if isinstance(ln, int) and isinstance(col, int) and 1 <= ln <= len(qlines) and not qlines[ln - 1][col - 1:].startswith(keys[-1]):
                            run.violation("response:error-location-in-document", "the error at path %r is located at %d:%d, where the document reads %r, not the field %r"
                                          % (e_["path"], ln, col, qlines[ln - 1][col - 1:col + 11], keys[-1]), dict(w, path=e_["path"], location=loc), True)
                exp = H.reference(schema, query, variables, world, name)
                if exp[0] == "result":
                    ok, g, wnt = null_error_bijection(got["result"], [(p, k, m, l, x) for p, k, m, l, x in exp[2]])
                    if not ok:
                        run.violation("response:one-error-per-failed-position", "error paths %r, failed positions %r" % (g, wnt), w, True)
    # resolver-supplied extensions, as dict and as a non-dict Mapping, and non-finite floats
    for label, world in (("empty-message", {("me", "name"): ("error", "", {"code": 7})}),
                         ("extensions-dict", {("me", "name"): ("error", "E", {"code": 7, "nested": {"a": [1, 2]}})}),
                         ("extensions-mappingproxy", {("me", "name"): ("error", "E", types.MappingProxyType({"code": 7}))}),
                         ):
        got = H.run_request(schema, "{ me { name any } }", {}, world, "blocking-executor")
        n += 1
        w = {"query": "{ me { name any } }", "world": label}
        if got["outcome"] != "result":
            run.violation("response:every-request-returns-a-result", "request raised %r" % (got.get("exc"),), w, True)
            continue
        resp = got["result"].response()
        judge(resp, "{ me { name any } }", "execution", w)
        if label.startswith("extensions"):
            exts = [e.get("extensions") for e in resp.get("errors", [])]
            if not exts or exts[0] is None or dict(exts[0]).get("code") != 7:
                run.violation("response:extensions-pass-through", "resolver-supplied extensions are missing from the error entry: %r" % (resp.get("errors"),), w, True)
    fs = H.make_schema(sdl=H.EXEC_SDL.replace("age: Int", "age: Int\n  ratio: Float"))
    for label, v in (("nan", float("nan")), ("inf", float("inf")), ("-inf", float("-inf"))):
        got = H.run_request(fs, "{ me { ratio } }", {}, {("me", "ratio"): ("value", v)}, "blocking-executor")
        n += 1
        w = {"query": "{ me { ratio } }", "world": "Float field resolves to %s" % label, "value": label}
        if got["outcome"] == "result":
            judge(got["result"].response(), "{ me { ratio } }", "execution", w)
    # --- 1b. the three entry points: graphql_blocking and the asynchronous graphql answer every kind of request with the same well-formed response as
    #         process_graphql_query does (failure at each stage, field errors, success; operation selection; variables)
    import asyncio
    from py_gql import graphql, graphql_blocking
    from py_gql.execution import BlockingExecutor
    entry_cases = [("{ me { name", {}, None, {}), ("{ nope }", {}, None, {}), ("query ($x: Int!) { me { lim(a: $x) } }", {}, None, {}),
                   ("query ($x: Int!) { me { lim(a: $x) } }", {"x": "no"}, None, {}), ("query A { count } query B { me { name } }", {}, None, {}),
                   ("query A { count } query B { me { name } }", {}, "B", {}), ("query A { count } query B { me { name } }", {}, "Nope", {}),
                   ("{ me { name age } count }", {}, None, {("me", "name"): ("error", "E1", {"code": 1})}), ("{ me { name age } count }", {}, None, {("count",): ("null",)}),
                   ("{ me { name age } people { name } count }", {}, None, {}), ("mutation { a(n: 1) d }", {}, None, {}), ("subscription { tick }", {}, None, {})]
    for query, variables, opname, world in entry_cases:
        w = {"query": query, "variables": variables, "operation_name": opname, "world": sorted(map(str, world))}
        outs = {}
        for label in ("process_graphql_query", "graphql_blocking", "graphql"):
            n += 1
            kw = dict(variables=variables, operation_name=opname, context=H.Ctx(world))
            try:
                if label == "process_graphql_query":
                    res = process_graphql_query(H.make_schema(), query, executor_cls=BlockingExecutor, **kw)
                elif label == "graphql_blocking":
                    res = graphql_blocking(H.make_schema(), query, **kw)
                else:
                    loop = asyncio.new_event_loop()
                    try:
                        asyncio.set_event_loop(loop)
                        res = loop.run_until_complete(asyncio.wait_for(graphql(H.make_schema(), query, **kw), 30))
                    finally:
                        try:
                            loop.run_until_complete(loop.shutdown_default_executor())
                        except Exception:
                            pass
                        asyncio.set_event_loop(None)
                        loop.close()
                outs[label] = ("response", res.response())
            except Exception as e:
                outs[label] = ("raised", "%s: %s" % (type(e).__name__, e))
        base = outs["process_graphql_query"]
        for label in ("graphql_blocking", "graphql"):
            if outs[label][0] == "response":
                nontrivial += 1
                judge(outs[label][1], query, "entry-point", dict(w, entry_point=label))
            if outs[label][0] != base[0] or (base[0] == "response" and json.dumps(outs[label][1], sort_keys=True, default=str) != json.dumps(base[1], sort_keys=True, default=str)):
                run.violation("response:entry-points-agree", "%s answers %r, process_graphql_query %r" % (label, outs[label][1] if outs[label][0] == "raised" else
                                                                                                     _short(outs[label][1]), base[1] if base[0] == "raised" else _short(base[1])),
                              dict(w, entry_point=label), True)
    # --- 2. requests cut off anywhere, invalid documents, variable and operation-selection errors ----------------------
    texts = ['query Q($a: Int = 1) {\n  me { name @include(if: true) }\n  echo(s: "x\\u00e9\\n")\n}\n', '{ me {\r\n name\r age } }', '{ echo(s: """b\n l""") }']
    for t in texts:
        for cut in range(len(t) + 1):
            text = t[:cut]
            n += 1
            w = {"text": text, "cut": cut}
            try:
                res = process_graphql_query(schema, text, context=H.Ctx({}))
            except Exception as e:
                run.violation("response:every-request-returns-a-result", "truncated request raised %r" % (e,), dict(w, exc=type(e).__name__), True)
                continue
            stage = "execution"
            try:
                doc = parse(text)
                if validate_ast(schema, doc).errors:
                    stage = "validation"
            except GraphQLSyntaxError as e:
                stage = "syntax"
                w = dict(w, exc=type(e).__name__, exc_position=e.position, len=len(text))
            except Exception:
                stage = "validation"      # the validator itself crashed (C05's subject): the request below reports what the entry point does
            try:
                resp = res.response()
            except Exception as e:
                run.violation("response:renderable", "building the response dictionary raised %r" % (e,), dict(w, render_error=type(e).__name__), True)
                continue
            judge(resp, text, stage, w)
    invalid = ["{ nope }", "{ me { name { x } } }", "{ me }", "{ echo(s: 1) }", "query ($x: Nope) { count }", "{ ...Missing }", "{ count } { count }",
               "fragment F on Query { count }", "query A { count } query A { count }", "{ me { ... on Color { x } } }", "query ($v: Int) { count }",
               "{ count @nope }", "{ echo(zzz: 1) }", "mutation { nope }", "subscription { tick ping { name } }"]
    for text in invalid:
        n += 1
        res = process_graphql_query(schema, text, context=H.Ctx({}))
        judge(res.response(), text, "validation", {"text": text})
    for text, variables, opname in [("query ($x: Int!) { me { friends(first: $x) { name } } }", {}, None), ("query ($x: Int) { me { friends(first: $x) { name } } }", {"x": "nope"}, None),
                                    ("query ($f: Filter) { echo(f: $f) }", {"f": {"bogus": 1}}, None), ("query A { count } query B { count }", {}, None),
                                    ("query A { count } query B { count }", {}, "C"), ("query ($c: Color) { color(c: $c) }", {"c": "PURPLE"}, None)]:
        n += 1
        res = process_graphql_query(schema, text, variables=variables, operation_name=opname, context=H.Ctx({}))
        resp = res.response()
        w = {"text": text, "variables": variables, "operation_name": opname}
        judge(resp, text, "request", w)
        if "data" not in resp or resp["data"] is not None or not resp.get("errors"):
            run.violation("response:request-errors", "variable / operation-selection failure must give data: null and errors, got %r" % (resp,), w, True)
    # line terminators (2.1.2): a lone carriage return ends a line like LF and CRLF do - the reported line / column of an error must be the same for
    # the three spellings of the same document
    base_doc = "{\n  me {\n    name\n    nope\n  }\n}"
    want = None
    for spelling, eol in (("LF", "\n"), ("CRLF", "\r\n"), ("CR", "\r")):
        text = base_doc.replace("\n", eol)
        n += 1
        res = process_graphql_query(schema, text, context=H.Ctx({}))
        resp = res.response()
        locs = [tuple(sorted(l.items())) for e in resp.get("errors", []) for l in e.get("locations", [])]
        if want is None:
            want = locs
        elif locs != want:
            run.violation("response:error-location-line-terminators", "with %s line ends the error is located at %r, with LF at %r" % (spelling, locs, want),
                          {"text": text, "line_ends": spelling, "locations": [dict(l) for l in locs]}, True)
    # requests whose variables are accepted but fail where they are USED at execution time (explicit null for a defaulted variable feeding a non-null
    # directive argument; a Float variable beyond the range of a double; a huge Int): still a result, in every configuration
    for text, variables in [("query ($v: Boolean = true) { count @skip(if: $v) me { name } }", {"v": None}),
                            ("query ($v: Boolean = true) { me { name @include(if: $v) age } }", {"v": None}),
                            ("query ($v: Boolean = false) { me { ... @skip(if: $v) { name } ...F @include(if: $v) } } fragment F on Person { age }", {"v": None}),
                            ("query ($x: Float) { me { name } }", {"x": 10 ** 400}),
                            ("query ($x: Int) { me { friends(first: $x) { name } } }", {"x": 10 ** 400})]:
        for cfg in H.CONFIGS:
            n += 1
            got = H.run_request(schema, text, variables, {}, cfg)
            w = {"text": text, "variables": {k: (repr(v)[:12] + "..." if len(repr(v)) > 12 else v) for k, v in variables.items()}, "config": cfg}
            if got["outcome"] != "result":
                run.violation("response:every-request-returns-a-result", "request %s: %r" % (got["outcome"], got.get("exc")),
                              dict(w, exc=type(got.get("exc")).__name__, directive=("@skip" in text or "@include" in text)), True)
                continue
            judge(got["result"].response(), text, "request", w)
    if nontrivial == 0:
        raise MachineryDefect("no executed request")
    run.cov["evaluations"] = n
    run.cov["distinct_nontrivial"] = nontrivial
    run.cov["rule"] = "executions of %d operations under worlds with null / ResolverError / null list items at every resolved path (2 synchronous configurations), " \
                      "resolver extensions, non-finite floats, every prefix of 3 request texts, %d invalid documents, 6 variable / operation-selection " \
                      "failures" % (len(ops), len(invalid))
    run.cov["bounded_functions"].append({"functions": ["process_graphql_query", "GraphQLResult.response", "GraphQLSyntaxError.to_dict", "GraphQLLocatedError.to_dict",
                                                       "ResolverError.to_dict", "ExecutionError.to_dict", "coerce_float"], "bound": "%d requests" % n})
    run.sample({"request": texts[0][:37], "stage": "syntax", "contract": "strict JSON; errors[*].locations = [{line, column}] 1-based inside the text; no data entry"})
    run.assume("response assembly (GraphQLResult.response, to_dict of the error classes) has no deductive obligation: evaluated at run time on the enumerated requests")
    # --- request-level validators: the verdict that decides "data omitted" is the one of THIS request's validators, whatever ran before ---------
    from py_gql.exc import ValidationError

    def reject_everything(schema_, doc_, variables_=None):
        return [ValidationError("rejected by the request's own validator", [doc_.definitions[0]])]

    def accept_everything(schema_, doc_, variables_=None):
        return []
    q = "{ me { name } count }"
    history = [("default", None), ("rejecting", [reject_everything]), ("default-again", None), ("accepting", [accept_everything]), ("rejecting-again", [reject_everything])]
    for label, validators in history:
        n += 1
        w = {"query": q, "validators": label, "history": [h for h, _v in history[:history.index((label, validators))]]}
        try:
            res = process_graphql_query(schema, q, validators=validators, context=H.Ctx({}))
        except Exception as e:
            run.violation("response:every-request-returns-a-result", "request raised %r" % (e,), dict(w, exc=type(e).__name__), True)
            continue
        resp = res.response()
        rejected = validators is not None and validators[0] is reject_everything
        if rejected and ("data" in resp or not resp.get("errors")):
            run.violation("response:data-omitted-when-validation-fails", "the request's own validator rejects the document, yet the response is %r" % (
                {k: (v if k != "data" else "...") for k, v in resp.items()},), w, True)
        if not rejected and ("data" not in resp or resp.get("errors")):
            run.violation("response:data-present-when-validation-passes", "the request's validators accept the document, yet the response has keys %r" % (sorted(resp),), w, True)
    engine_p.run(run, 'C10')
    # Engine A: a Float leaf written into a response is finite (strict JSON cannot carry NaN / Infinity): `coerce_float` is the Float type's serialiser
    import contracts.scalars as SC
    import spec.scalars_spec as SS
    from vf import engine_a
    ns = {k: v for k, v in vars(SS).items() if not k.startswith("__")}
    run.cov["parts"]["engine_a"] = engine_a.run(run, [c for c in SC.CONTRACTS if c.qualname == "coerce_float"], ns, {}, engine_a.generic_instantiate(), jobs=1)
    return run.finish("other", "trace contracts over every syntactic path of the real function (Engine P, unbounded in the inputs, values abstracted) + bounded stand-in: response-format contracts on every enumerated request outcome (all failure stages, every truncation point)",
                      checker_cmd="./check C10 --tier %s" % tier)
