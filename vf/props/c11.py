"""C11 - schemas built from SDL contain exactly what the SDL declares."""
import random

from vf import engine_p
from vf import ref_sdl as S6
from vf import schemas
from vf.report import MachineryDefect, Run

EXTRA_VALID = [
    # a description is the string as written: surrounding blanks, no-break spaces and the inner indentation of a block string are part of it
    '" padded " type Query { "  f  " a: Int "\u00a0nbsp\u00a0" b(" arg " x: Int): Int """\n  block keeps\n    its inner indentation\n""" c: E } " enum " enum E { " v " A }',
    # descriptions (and deprecations, defaults) belong to the element that declares them: nothing is inherited from an implemented interface, a sibling or the other way round
    'interface I { "documented on the interface" a("arg doc" n: Int = 1): Int @deprecated(reason: "old") b: Int } type A implements I { a(n: Int): Int "only here" b: Int } '
    'type Query implements I { a(n: Int = 2): Int b: Int } extend interface I { "ext" c: Int } extend type A { c: Int } extend type Query { c: Int }',
    'interface J { x: Int } type Query implements J { "documented on the object only" x: Int @deprecated } input In { "d" a: Int b: Int } enum E { "d" A B }',
    'schema { query: Q mutation: M subscription: Su } type Q { a: Int } type M { b: Int } type Su { c: Int }',
    'type Query { self: Query list: [[Query!]]! } extend type Query { more(a: In = {x: 1, deep: {x: 2}}): Int } input In { x: Int! = 3 deep: In }',
    '"top" type Query { "field" a("arg" x: Int = 0 @deprecated): E @deprecated(reason: "r") } "en" enum E { "v" A @deprecated B } extend enum E { C }',
    'interface I { x: I } type A implements I { x: A } type B implements I { x: B y: U } union U = A | B type Query { i: I u: U } extend union U = Query',
    'directive @a(x: [Int!] = [1, 2], e: E = A) on FIELD | QUERY enum E { A B } type Query { f: Int } scalar S extend scalar S @a',
    'input A { b: B c: [A!] = [] } input B { a: A = {b: null} s: String = "q\\"uote" f: Float = 1 i: ID = 7 t: Boolean = true } type Query { f(a: A = {c: [{b: {s: "x"}}]}): Int }',
    'type Query { a: Int } extend type Query { b: Int } extend type Query { c: Int } extend type Query @dir directive @dir on OBJECT',
    'schema { query: Root } type Root { a: Int } extend schema { mutation: Mu } type Mu { m: Int }',
    # a schema definition lists the roots exhaustively: a type that merely has a conventional root name is an ordinary type
    'schema { query: Root } type Root { a: Int } type Mutation { m: Int } type Subscription { s: Int } type Query { q: Int }',
    'schema { query: Query mutation: Writes } type Query { q: Mutation } type Writes { w: Int } type Mutation { m: Int }',
    'schema { query: Root } type Root { a: Int } type Mutation { m: Int } extend schema { mutation: Writes } type Writes { w: Int }',
    'type Query { a: Int @deprecated(reason: "") b: E @deprecated } enum E { X @deprecated(reason: "") Y @deprecated(reason: "No longer supported") Z }',
    # a finite default value OF a self-referential input type, on one of its own fields (directly, through a list, mutually)
    'type Query { f(x: Filter): Int } input Filter { eq: Int not: Filter = {eq: 0, not: null} }',
    'type Query { f(x: Filter): Int } input Filter { eq: Int and: [Filter!] = [{eq: 1, and: []}] }',
    'type Query { f(x: A): Int } input A { b: B = {a: null} x: Int } input B { a: A = {x: 1, b: null} }',
    # an explicit null default is a default (distinct from no default), also on members of types that extensions rebuild
    'directive @d(o: String = null, i: In = null) on FIELD type Query { f(a: String = null, i: In = null, l: [Int!] = null, n: Int): Int } '
    'input In { x: Int = null y: [Int] = null z: In = null w: Int } extend type Query { g(b: ID = null): Int } extend input In { v: Float = null }',
]

# (label, SDL): must be rejected with one of the library's schema / SDL errors
INVALID_SDL = [
    ("duplicate-type", "type Query { a: Int } type Query { b: Int }"),
    ("duplicate-directive", "type Query { a: Int } directive @d on FIELD directive @d on QUERY"),
    ("unknown-type-reference", "type Query { a: Nope }"),
    ("unknown-argument-type", "type Query { a(x: Nope): Int }"),
    ("unknown-interface", "type Query implements Nope { a: Int }"),
    ("implements-object", "type Query implements B { a: Int } type B { a: Int }"),
    ("implements-scalar", "type Query implements S { a: Int } scalar S"),
    ("implements-union", "type Query implements U { a: Int } type A { x: Int } union U = A"),
    ("implements-input", "type Query implements I { a: Int } input I { x: Int }"),
    # output types in input positions and the other way round
    ("object-as-argument-type", "type Query { a(x: Query): Int }"),
    ("object-as-argument-type-indirect", "type Query { t: T } type T { q(y: Query): Int }"),
    ("object-as-input-field-type-with-default", "type Query { a(i: In): Int } input In { f: Query = 1 }"),
    ("union-as-directive-argument-type", "type Query { a: Int } type A { x: Int } union U = A directive @d(u: U = 1) on FIELD"),
    ("input-as-field-type", "type Query { a: In } input In { x: Int }"),
    ("unknown-union-member", "type Query { a: U } union U = Nope"),
    ("extension-of-unknown-type", "type Query { a: Int } extend type Nope { b: Int }"),
    ("extension-wrong-kind", "type Query { a: Int } extend interface Query { b: Int }"),
    ("extension-duplicate-field", "type Query { a: Int } extend type Query { a: Int }"),
    ("extension-duplicate-enum-value", "type Query { a: E } enum E { A } extend enum E { A }"),
    ("extension-duplicate-union-member", "type Query { a: U } type A { x: Int } union U = A extend union U = A"),
    ("extension-duplicate-input-field", "type Query { a(i: I): Int } input I { x: Int } extend input I { x: Int }"),
    # a member introduced twice by extensions (in two blocks, or twice in one) is a duplicate like any other
    ("extension-new-enum-value-twice-two-blocks", "type Query { a: E } enum E { A } extend enum E { B } extend enum E { B }"),
    ("extension-new-enum-value-twice-one-block", "type Query { a: E } enum E { A } extend enum E { B B }"),
    ("extension-new-field-twice-two-blocks", "type Query { a: Int } extend type Query { b: Int } extend type Query { b: Int }"),
    ("extension-new-union-member-twice-two-blocks", "type Query { a: U } type A { x: Int } type B { y: Int } union U = A extend union U = B extend union U = B"),
    ("extension-new-input-field-twice-two-blocks", "type Query { a(i: I): Int } input I { x: Int } extend input I { y: Int } extend input I { y: Int }"),
    ("extension-new-interface-field-twice-two-blocks", "type Query { a: Int } interface I { x: Int } extend interface I { y: Int } extend interface I { y: Int }"),
    ("extension-interface-implemented-twice-two-blocks", "type Query { a: Int } interface I { a: Int } extend type Query implements I extend type Query implements I"),
    ("two-schema-definitions", "schema { query: Query } schema { query: Query } type Query { a: Int }"),
    ("schema-duplicate-operation", "schema { query: Query query: Query } type Query { a: Int }"),
    ("schema-unknown-root", "schema { query: Nope }"),
    ("bad-default-value", "type Query { a(x: Int = \"s\"): Int }"),
    ("bad-default-enum", "type Query { a(x: E = NOPE): Int } enum E { A }"),
    ("bad-default-missing-required", "type Query { a(x: I = {}): Int } input I { r: Int! }"),
    ("no-query-type", "type Foo { a: Int }"),
    ("duplicate-field", "type Query { a: Int a: String }"),
    ("duplicate-argument", "type Query { a(x: Int, x: Int): Int }"),
    ("duplicate-enum-value", "type Query { a: E } enum E { A A }"),
    ("deprecated-on-wrong-argument", "type Query { a: Int @deprecated(reason: 1) }"),
]


def split_into_extensions(doc, rnd):
    """move trailing members of some type definitions into `extend` blocks placed later in the document"""
    from py_gql.lang import ast as A
    out = []
    exts = []
    for d in doc.definitions:
        moved = None
        if isinstance(d, A.ObjectTypeDefinition) and len(d.fields) > 1 and rnd.random() < 0.7:
            k = rnd.randint(1, len(d.fields) - 1)
            moved = A.ObjectTypeExtension(name=d.name, interfaces=[], directives=[], fields=d.fields[k:])
            d.fields = d.fields[:k]
        elif isinstance(d, A.EnumTypeDefinition) and len(d.values) > 1 and rnd.random() < 0.7:
            moved = A.EnumTypeExtension(name=d.name, directives=[], values=d.values[-1:])
            d.values = d.values[:-1]
        elif isinstance(d, A.InputObjectTypeDefinition) and len(d.fields) > 1 and rnd.random() < 0.7:
            moved = A.InputObjectTypeExtension(name=d.name, directives=[], fields=d.fields[-1:])
            d.fields = d.fields[:-1]
        elif isinstance(d, A.UnionTypeDefinition) and len(d.types) > 1 and rnd.random() < 0.7:
            moved = A.UnionTypeExtension(name=d.name, directives=[], types=d.types[-1:])
            d.types = d.types[:-1]
        elif isinstance(d, A.InterfaceTypeDefinition) and len(d.fields) > 1 and rnd.random() < 0.5:
            moved = A.InterfaceTypeExtension(name=d.name, directives=[], fields=d.fields[-1:])
            d.fields = d.fields[:-1]
        out.append(d)
        if moved is not None:
            exts.append(moved)
    for e in exts:
        out.insert(rnd.randint(0, len(out)), e)
    doc.definitions = out
    return doc


def two_steps(text):
    """-> (base text, rest text): the document with its `type Query` definition turned into an extension of a one-field base definition, or None.
    Building base + rest in one go and extending the built base with rest must give the same schema, whatever the order of rest."""
    from py_gql.lang import ast as A, parse, print_ast
    doc = parse(text, allow_type_system=True)
    q = [d for d in doc.definitions if isinstance(d, A.ObjectTypeDefinition) and d.name.value == "Query"]
    if len(q) != 1 or any(isinstance(d, A.SchemaDefinition) for d in doc.definitions):
        return None
    q = q[0]
    ext = A.ObjectTypeExtension(name=q.name, interfaces=q.interfaces, directives=q.directives, fields=q.fields)
    rest = A.Document(definitions=[ext if d is q else d for d in doc.definitions])
    return "type Query { vfBase: Int }", print_ast(rest)


def self_referential_default(sdl):
    """some input type has a field WITH A DEFAULT whose type is an input type from which the first one can be reached again"""
    from py_gql.lang import ast as A, parse
    doc = parse(sdl, allow_type_system=True)
    inputs = {}
    for d in doc.definitions:
        if isinstance(d, (A.InputObjectTypeDefinition, A.InputObjectTypeExtension)):
            inputs.setdefault(d.name.value, []).extend(d.fields)

    def named(t):
        while not isinstance(t, A.NamedType):
            t = t.type
        return t.name.value

    def reaches(src, dst, seen=()):
        for f in inputs.get(src, []):
            n = named(f.type)
            if n == dst or (n in inputs and n not in seen and reaches(n, dst, seen + (n,))):
                return True
        return False
    return any(f.default_value is not None and named(f.type) in inputs and (named(f.type) == t or reaches(named(f.type), t))
               for t, fs in inputs.items() for f in fs)


def check(tier, seed):
    from py_gql import build_schema
    from py_gql.exc import GraphQLError
    from py_gql.lang import parse, print_ast
    from py_gql.schema import ScalarType
    run = Run("C11", tier, seed)
    rnd = random.Random(seed)
    n = nontrivial = 0
    sources = [schemas.BASE_SDL] + EXTRA_VALID + [schemas.apply_edit(schemas.BASE_SDL, o, nw) for _l, o, nw, _e in schemas.EDITS]
    variants = 5 if tier == "thorough" else 2
    for sdl in sources:
        texts = [sdl]
        for _ in range(variants):
            doc = parse(sdl, allow_type_system=True)
            rnd.shuffle(doc.definitions)
            texts.append(print_ast(doc))
            doc = split_into_extensions(parse(sdl, allow_type_system=True), rnd)
            if rnd.random() < 0.5:
                rnd.shuffle(doc.definitions)
            texts.append(print_ast(doc))
        for text in dict.fromkeys(texts):
            for ignore_ext in (False, True):
                for with_additional in (False, True):
                    has_ext = "extend " in text
                    if ignore_ext and not has_ext:
                        continue
                    kw = {"ignore_extensions": ignore_ext}
                    if with_additional:
                        if "scalar Date" not in text:
                            continue
                        kw["additional_types"] = [ScalarType("Date", serialize=str, parse=str, description=None)]
                    n += 1
                    w = {"sdl": text, "ignore_extensions": ignore_ext, "additional_types": with_additional}
                    try:
                        want = S6.describe_sdl(text, ignore_extensions=ignore_ext)
                    except Exception as e:
                        raise MachineryDefect("describe_sdl failed on %r: %r" % (text[:80], e))
                    try:
                        schema = build_schema(text, **kw)
                    except GraphQLError as e:
                        if ignore_ext:
                            continue      # dropping extensions may leave the remaining definitions invalid (e.g. an empty type)
                        run.violation("build_schema:accepts-valid-documents", "a valid type-system document is rejected: %s: %s" % (type(e).__name__, e), dict(w, error="%s: %s" % (type(e).__name__, e)), True)
                        continue
                    except Exception as e:
                        run.violation("build_schema:only-schema-errors", "build_schema raised %r" % (e,),
                                      dict(w, exc=type(e).__name__, self_referential_default=self_referential_default(text)), True)
                        continue
                    nontrivial += 1
                    diff = S6.compare(want, S6.describe(schema), schema)
                    if diff:
                        run.violation("build_schema:contains-exactly-what-is-declared", diff, dict(w, diff=diff), True)
                    bad = S6.closed(schema)
                    if bad:
                        run.violation("build_schema:type-references-are-the-registered-types", "; ".join(bad[:3]), dict(w, dangling=bad[:5]), True)
    # the same definitions and extensions handed to extend_schema on top of a built base: a new type may be extended by the document that defines it, in any order
    from py_gql.sdl import extend_schema
    steps = 0
    for sdl in sources:
        doc = parse(sdl, allow_type_system=True)
        if rnd.random() < 0.7:
            doc = split_into_extensions(doc, rnd)
        rnd.shuffle(doc.definitions)
        text = print_ast(doc)
        two = two_steps(text)
        if two is None:
            continue
        base, rest = two
        try:
            whole = build_schema(base + "\n" + rest)
        except Exception:
            continue          # (what build_schema makes of such documents is judged above)
        for strict in (True, False):
            n += 1
            steps += 1
            w = {"base": base, "extension_document": rest, "strict": strict}
            try:
                got = extend_schema(build_schema(base), rest, strict=strict)
            except GraphQLError as e:
                run.violation("extend_schema:accepts-what-build-schema-accepts", "build_schema accepts base + document, extend_schema(build_schema(base), document, strict=%s) "
                              "rejects it: %s: %s" % (strict, type(e).__name__, e), dict(w, error="%s: %s" % (type(e).__name__, e)), True)
                continue
            except Exception as e:
                run.violation("build_schema:only-schema-errors", "extend_schema raised %r" % (e,), dict(w, exc=type(e).__name__), True)
                continue
            d1, d2 = S6.describe(whole), S6.describe(got)
            # (a type called Mutation / Subscription added to a built schema does not become a root operation type by its name alone: roots are not compared)
            d1, d2 = dict(d1, roots=None), dict(d2, roots=None)
            if d1 != d2:
                diff = sorted(k for k in set(d1) | set(d2) if d1.get(k) != d2.get(k)) if isinstance(d1, dict) and isinstance(d2, dict) else "descriptions differ"
                run.violation("extend_schema:same-schema-as-build-schema", "extending the built base with the document and building base + document differ at %s" % (diff,),
                              dict(w, differs_at=str(diff)[:300]), True)
    if steps == 0:
        raise MachineryDefect("no two-step extension case ran")
    # supplied types that the document itself does not define: referenced from a definition, only from an extension, only from a directive
    from py_gql.schema import Field, InputField, InputObjectType, ObjectType, String
    for label, text in [
        ("definition", "type Query { at: Date }"),
        ("extension-field", "type Query { a: Int } extend type Query { at: Date }"),
        ("extension-argument", "type Query { a: Int } extend type Query { at(d: Date, r: Range): Int }"),
        ("extension-interface", "interface I { a: Int } type Query implements I { a: Int at: Date } extend interface I { at: Date }"),
        ("extension-input", "input In { a: Int } type Query { f(i: In): Int } extend input In { r: Range d: [Date!] }"),
        ("extension-union", "type A { a: Int } union U = A type Query { u: U } extend union U = Extra"),
        ("extension-implements", "type Query { a: Int x: Extra } interface J { e: String } extend type Query implements J { e: String }"),
        ("directive-definition", "directive @d(r: Range) on FIELD type Query { a: Int }"),
        # supplied types that are instances of SUBCLASSES of the schema classes (the library's own RegexType, a user's enum class)
        ("subclass-instances", "type Query { s(x: Slug = \"a-b\"): Slug e: Level }"),
    ]:
        for extra_ext in ("", " extend type Query { zz: Int }"):
            n += 1
            from py_gql.schema import EnumType, RegexType

            class _Level(EnumType):
                pass
            supplied = [ScalarType("Date", serialize=str, parse=str), InputObjectType("Range", [InputField("lo", String)]),
                        ObjectType("Extra", [Field("e", String)]), RegexType("Slug", r"^[a-z0-9-]+$"), _Level("Level", [("LOW", 1), ("HIGH", 2)])]
            w = {"sdl": text + extra_ext, "additional_types": [t.name for t in supplied], "referenced_from": label}
            try:
                schema = build_schema(text + extra_ext, additional_types=supplied)
                schema.validate()
            except GraphQLError as e:
                run.violation("build_schema:accepts-valid-documents", "a document that is valid given the supplied additional types is rejected: %s: %s"
                              % (type(e).__name__, e), dict(w, error="%s: %s" % (type(e).__name__, e)), True)
                continue
            except Exception as e:
                run.violation("build_schema:only-schema-errors", "build_schema raised %r" % (e,), dict(w, exc=type(e).__name__), True)
                continue
            nontrivial += 1
            import re as _re
            for t in supplied:
                used = _re.search(r"\b%s\b" % t.name, text) is not None
                got_t = schema.types.get(t.name)
                # (the object itself may be rebuilt when extensions are merged: what must survive is its kind, members and behaviour)
                def probe(x):
                    out = []
                    for fn_, arg in (("serialize", 5), ("serialize", "a-b"), ("parse", "x"), ("parse", "NOT A SLUG"), ("get_value", "LOW"), ("get_name", 2)):
                        try:
                            out.append(getattr(x, fn_)(arg))
                        except Exception as e_:
                            out.append(type(e_).__name__)
                    return out
                kinds_ = (ScalarType, ObjectType, InputObjectType, EnumType)
                kind_of = lambda x: next((k for k in kinds_ if isinstance(x, k)), type(x))          # noqa: E731
                # (a subclass instance may come back as an instance of its base as long as it behaves the same: kind, members and behaviour are what is declared)
                same = got_t is not None and kind_of(got_t) is kind_of(t) and [f.name for f in getattr(got_t, "fields", [])] == [f.name for f in getattr(t, "fields", [])] \
                    and probe(got_t) == probe(t)
                if used and not same:
                    run.violation("build_schema:supplied-types-are-used-as-given", "the supplied type %s is referenced by the document but the schema holds %r under that name"
                                  % (t.name, got_t), dict(w, type=t.name), True)
            bad = S6.closed(schema)
            if bad:
                run.violation("build_schema:type-references-are-the-registered-types", "; ".join(bad[:3]), dict(w, dangling=bad[:5]), True)
    for label, sdl in INVALID_SDL:
        for perm in range(2):
            text = sdl
            if perm:
                doc = parse(sdl, allow_type_system=True)
                doc.definitions.reverse()
                text = print_ast(doc)
            n += 1
            w = {"violation": label, "sdl": text}
            try:
                s = build_schema(text)
                s.validate()
                run.violation("build_schema:rejects-rule-violations", "document with violation %r is accepted" % label, w, True)
            except GraphQLError:
                pass
            except Exception as e:
                run.violation("build_schema:only-schema-errors", "%s: raised %r instead of a schema / SDL error" % (label, e), dict(w, exc=type(e).__name__), True)
    if nontrivial == 0:
        raise MachineryDefect("no schema built")
    engine_p.run(run, "C11")
    # frame: building / extending writes nothing into what it was given (definition nodes, supplied types, the base schema of extend_schema): the schema is a function of
    # the document, and a base schema still contains exactly what its own SDL declares after another schema was derived from it (vf/aliascheck.py, as under C14)
    import inspect as _inspect
    import py_gql.sdl.ast_type_builder as _tb
    import py_gql.sdl.schema_from_ast as _sfa
    from vf import aliascheck
    _funcs = [("ASTTypeBuilder.%s" % n_, f_) for n_, f_ in vars(_tb.ASTTypeBuilder).items() if _inspect.isfunction(f_) and n_.startswith(("_extend", "extend", "_build", "build"))]
    _funcs += [("%s.%s" % (m_.__name__.split(".")[-1], n_), f_) for m_ in (_tb, _sfa) for n_, f_ in vars(m_).items()
               if _inspect.isfunction(f_) and f_.__module__ == m_.__name__]
    aliascheck.account(run, aliascheck.obligations(_funcs, "build", "building a schema changes the nodes, types or base schema it was given"))
    run.cov["evaluations"] = n
    run.cov["distinct_nontrivial"] = nontrivial
    run.cov["rule"] = "%d valid type-system documents (base schema, %d edited variants, recursion / defaults / descriptions / deprecations / schema definitions) " \
                      "x definition permutations x random splits of members into extend blocks x ignore_extensions x additional_types; %d labelled " \
                      "invalid documents in two orders" % (len(sources), len(schemas.EDITS), len(INVALID_SDL))
    run.cov["bounded_functions"].append({"functions": ["build_schema", "build_schema_ignoring_extensions", "extend_schema", "ASTTypeBuilder.*", "_collect_definitions"],
                                         "bound": "%d documents" % n})
    run.sample({"sdl": EXTRA_VALID[1], "contract": "describe(build_schema(sdl)) == describe_sdl(sdl), closed(schema)"})
    run.trusted("vf/ref_sdl.py (declarative SDL reader) and vf/ref_coerce.py for default values")
    run.assume("the type builder mutates object graphs through lazy thunks (outside every engine's subset): only the definition collector carries path obligations")
    return run.finish("other", "bounded stand-in: structural equality between what the SDL declares (declarative reader) and the built schema, over generated "
                               "documents, orders and extension splits; invalid documents raise only schema / SDL errors",
                      checker_cmd="./check C11 --tier %s" % tier)
