"""C18 - AST visitors reach every node once with balanced enter/leave; edits stay local."""
from vf import engine_p
from vf import frontend
from vf.report import MachineryDefect, Run


DISPATCH_DOCUMENTS = [
    "query Q($a: [Int!] = [1, 2] @d, $o: In = {k: [true, null], e: RED, f: 1.5, s: \"x\"}) { a: f(x: $a) @skip(if: true) ...F ... on T @d { g } ... { h } } "
    "fragment F on T { f(o: {k: $a}) } mutation M { m } subscription S { s }",
    "schema @s { query: Q } extend schema @s extend schema { mutation: M } \"d\" scalar S @a extend scalar S @a \"d\" type Q implements I & J @a { \"d\" f(\"d\" x: [Int!]! = [1] @a): Int @a } "
    "extend type Q { g: Int } extend type Q implements K extend type Q @a interface I { f: Int } extend interface I @a extend interface I { h: Int } union U = Q | M extend union U = N "
    "extend union U @a enum E { \"d\" A @a B } extend enum E { C } extend enum E @a input In { k: Int = 1 @a } extend input In { l: Int } extend input In @a "
    "directive @a(x: Int = 1) on FIELD | OBJECT",
]


def dispatch_contract(run):
    """DispatchingVisitor hands every node to the enter_* / leave_* hooks of its OWN kind, in the order a plain ASTVisitor enters and leaves them"""
    import re
    from py_gql.lang import parse
    from py_gql.lang.visitor import ASTVisitor, DispatchingVisitor

    def snake(cls):
        return re.sub(r"(?<!^)(?=[A-Z])", "_", cls).lower()

    class Plain(ASTVisitor):
        def __init__(self):
            self.log = []

        def enter(self, node):
            self.log.append(("enter", type(node).__name__, id(node)))
            return node

        def leave(self, node):
            self.log.append(("leave", type(node).__name__, id(node)))

    def make_recorder():
        log = []
        ns = {}
        for name in dir(DispatchingVisitor):
            if name.startswith("enter_"):
                ns[name] = (lambda nm: lambda self, node: (log.append(("enter", nm[6:], type(node).__name__, id(node))), node)[1])(name)
            elif name.startswith("leave_"):
                ns[name] = (lambda nm: lambda self, node: log.append(("leave", nm[6:], type(node).__name__, id(node))) or None)(name)
        return type("Recorder", (DispatchingVisitor,), ns)(), log
    n = 0
    for text in DISPATCH_DOCUMENTS:
        doc = parse(text, allow_type_system=True)
        plain = Plain()
        plain.visit(doc)
        rec, log = make_recorder()
        rec.visit(doc)
        n += 1
        w = {"document": text}
        wrong = [(phase, hook, cls) for phase, hook, cls, _i in log if hook != snake(cls)]
        if wrong:
            run.violation("dispatch:own-kind", "%s_%s was called with a %s node" % (wrong[0][0], wrong[0][1], wrong[0][2]), dict(w, hook="%s_%s" % wrong[0][:2], node=wrong[0][2]), True)
            continue
        got = [(phase, cls, i) for phase, _h, cls, i in log]
        if got != plain.log:
            missing = [e[:2] for e in plain.log if e not in got][:3]
            run.violation("dispatch:own-kind", "the hooks of a DispatchingVisitor do not see the nodes a plain ASTVisitor enters and leaves, in that order (missing: %r)" % (missing,),
                          dict(w, missing=missing), True)
    kinds = {e[1] for t in DISPATCH_DOCUMENTS for e in (lambda p: (p.visit(parse(t, allow_type_system=True)), p.log)[1])(Plain())}
    if len(kinds) < 40:
        raise MachineryDefect("dispatch documents cover only %d node kinds" % len(kinds))
    run.cov["bounded_functions"].append({"functions": ["py_gql.lang.visitor.DispatchingVisitor.enter / leave"], "bound": "%d documents covering %d node kinds" % (n, len(kinds))})
    return n


def check(tier, seed):
    run = Run("C18", tier, seed)
    total, nodes, edits, fails = frontend.visitor_check(tier, seed)
    if total == 0 or nodes == 0 or edits == 0:
        raise MachineryDefect("visitor corpus is vacuous")
    run.cov["evaluations"] += total + edits
    run.cov["distinct_nontrivial"] += total
    run.cov["parts"]["visitor_contracts"] = {
        "documents": total, "nodes_entered": nodes, "edit_runs": edits,
        "clauses": ["identity", "exactly-once", "balanced", "every-node", "parent-encloses-child", "source-order",
                    "delete-local", "replace-local", "skip", "chain:order", "chain:edit-survives"]}
    run.cov["bounded_functions"].append({"functions": ["py_gql.lang.visitor.ASTVisitor._visit_*", "_visit_method", "ChainedVisitor",
                                                       "py_gql._utils.map_and_filter"],
                                         "bound": "%d parsed documents of the derivation corpus; delete/replace/skip at every entered node of the first "
                                                  "documents of each worker (%d edit runs)" % (total, edits)})
    nd = dispatch_contract(run)
    run.cov["evaluations"] += nd
    for clause, witness, detail in fails:
        run.violation(clause, detail, witness, True)
    run.sample({"document": "query ($a: [Int!] = [1] @d) { ...F @skip(if: $a) } fragment F on T { f(x: {k: $a}) }",
                "contracts": "trace balanced, every non-Name node entered once, siblings in source order; delete/replace/skip local"})
    run.cov["rule"] = "one case per parsed corpus document (distinct texts); edit runs = (document, node position, action) triples"
    run.trusted("the parser (C01/C02) produces the documents; Node.to_dict() as structural view")
    run.assume("child-slot coverage of the _visit_* methods and ChainedVisitor are bounded only (evaluated at run time on the enumerated corpus)")
    engine_p.run(run, 'C18')
    # static slot coverage of the _visit_* methods (for all documents): every child slot traversed once, stored back, in source order
    import contracts.visitor_map as VM
    from py_gql.lang.visitor import ASTVisitor
    from vf import visitstatic
    backend = "traversal-statement analysis"
    try:
        obs, degraded = visitstatic.obligations(ASTVisitor, VM.NODE_SLOTS)
    except visitstatic.Unsupported as e:
        obs, degraded = [], [("ASTVisitor.visit", str(e))]
    for m, why in degraded:
        run.cov["degraded_functions"].append({"function": "ASTVisitor.%s" % m, "reason": why})
    methods = sorted(set(visitstatic.dispatch_table(ASTVisitor).values())) if obs else []
    run.cov["functions_under_contract"] += ["ASTVisitor.%s (slot coverage)" % m for m in methods]
    for o in obs:
        run.cov["obligations"] += 1
        run.cov["backends"][backend] = run.cov["backends"].get(backend, 0) + 1
        if o["holds"]:
            run.cov["discharged"] += 1
            continue
        w = {"parent": o["cls"], "slot": o["slot"], "kind": "StringValue" if o["slot"] == "description" else None, "detail": o["detail"]}
        if o["kind"] == "order":
            import re as _re
            m_ = _re.search(r"in the order (\[.*?\]); source order is (\[.*?\])", o["detail"])
            if m_:
                got, want = eval(m_.group(1)), eval(m_.group(2))
                for i in range(len(got) - 1):
                    if want.index(got[i]) > want.index(got[i + 1]):
                        w.update(slot=got[i], before=got[i + 1])
                        break
        before = len(run.violations)
        run.violation(o["id"], o["detail"], w, False, extra={"obligation": o["id"], "solver": backend, "solver_status": "refuted"})
        if len(run.violations) == before:
            run.cov["refuted_known"] += 1

    # the slot statements above are read as `node.s = map_and_filter(visit, node.s)` with map_and_filter = py_gql._utils.map_and_filter (functional: builds
    # a new list from the visited members, dropping None): the name must be bound to that function in the visitor module
    import py_gql._utils as _U
    import py_gql.lang.visitor as _V
    run.cov["obligations"] += 1
    run.cov["backends"]["binding identity"] = 1
    if getattr(_V, "map_and_filter", None) is _U.map_and_filter:
        run.cov["discharged"] += 1
    else:
        # an assumption of the static obligations fails - that is "undecided" for them, not a violation of the property: the bounded part decides
        run.cov["degraded_functions"].append({"function": "ASTVisitor._visit_* (slot coverage)", "reason": "py_gql.lang.visitor.map_and_filter is no longer "
                                              "py_gql._utils.map_and_filter: the slot statements are read with that function's contract"})
    return run.finish("other", "trace contracts over every syntactic path of the real function (Engine P, unbounded in the inputs, values abstracted) + bounded stand-in: visitor trace and edit-locality contracts on every document of the enumerated corpus",
                      checker_cmd="./check C18 --tier %s" % tier)
