"""C18 - AST visitors reach every node once with balanced enter/leave; edits stay local."""
from vf import engine_p
from vf import frontend
from vf.report import MachineryDefect, Run


def check(tier, seed):
    run = Run("C18", tier, seed)
    total, nodes, edits, fails = frontend.visitor_check(tier, seed)
    if total == 0 or nodes == 0 or edits == 0:
        raise MachineryDefect("visitor corpus is vacuous")
    run.cov["evaluations"] += total + edits
    run.cov["distinct_nontrivial"] += total
    run.cov["parts"]["visitor_contracts"] = {
        "documents": total, "nodes_entered": nodes, "edit_runs": edits,
        "clauses": ["identity", "exactly-once", "balanced", "every-node", "parent-encloses-child", "source-order",
                    "delete-local", "replace-local", "skip", "chain:order", "chain:edit-survives"]}
    run.cov["bounded_functions"].append({"functions": ["py_gql.lang.visitor.ASTVisitor._visit_*", "_visit_method", "ChainedVisitor",
                                                       "py_gql._utils.map_and_filter"],
                                         "bound": "%d parsed documents of the derivation corpus; delete/replace/skip at every entered node of the first "
                                                  "documents of each worker (%d edit runs)" % (total, edits)})
    for clause, witness, detail in fails:
        run.violation(clause, detail, witness, True)
    run.sample({"document": "query ($a: [Int!] = [1] @d) { ...F @skip(if: $a) } fragment F on T { f(x: {k: $a}) }",
                "contracts": "trace balanced, every non-Name node entered once, siblings in source order; delete/replace/skip local"})
    run.cov["rule"] = "one case per parsed corpus document (distinct texts); edit runs = (document, node position, action) triples"
    run.trusted("the parser (C01/C02) produces the documents; Node.to_dict() as structural view")
    run.assume("child-slot coverage of the _visit_* methods and ChainedVisitor are bounded only (evaluated at run time on the enumerated corpus)")
    engine_p.run(run, 'C18')
    return run.finish("other", "trace contracts over every syntactic path of the real function (Engine P, unbounded in the inputs, values abstracted) + bounded stand-in: visitor trace and edit-locality contracts on every document of the enumerated corpus",
                      checker_cmd="./check C18 --tier %s" % tier)
