"""C13 - schema validation accepts valid schemas and rejects each rule violation."""
import itertools
import random
import re

import contracts.schema as SCH
import spec.typealgebra as TA
from vf import engine_a, engine_p, pathcheck, schemas
from vf.pyvc.spec import ADT
from vf.pyvc.verify import prove_lemma
from vf.report import MachineryDefect, Run


def stype_adt():
    from py_gql.schema.types import InterfaceType, ListType, NonNullType, ObjectType, ScalarType
    return ADT("SType", [("Leaf", "ScalarType", [("name", "int")]), ("Obj", "ObjectType", [("name", "int")]),
                         ("Abs", "InterfaceType", [("name", "int")]), ("List", "ListType", [("type", "self")]),
                         ("NonNull", "NonNullType", [("type", "self")])],
               {"ScalarType": ScalarType, "ObjectType": ObjectType, "InterfaceType": InterfaceType, "ListType": ListType,
                "NonNullType": NonNullType})


# (label, SDL of an invalid schema, minimum number of errors expected)
INVALID = [
    ("implements-object", "type Query implements B { a: Int } type B { a: Int }", 1),
    ("implements-scalar", "type Query implements S { a: Int } scalar S", 1),
    ("implements-enum", "type Query implements E { a: Int } enum E { X }", 1),
    ("implements-union", "type Query implements U { a: Int } type A { x: Int } union U = A", 1),
    ("implements-input", "type Query implements I { a: Int } input I { x: Int }", 1),
    ("bad-name-and-empty-object", "type Query { a: Int } type __Obj", 2),
    ("bad-name-and-empty-union", "type Query { a: Int } union __U", 2),
    ("bad-name-and-empty-enum", "type Query { a: Int } enum __E", 2),
    ("bad-name-and-output-field-in-input", "type Query { a(i: __In): Int } input __In { q: Query }", 2),
    ("empty-object", "type Query { a: Int } type A", 1),
    ("empty-interface", "type Query { a: Int } interface I", 1),
    ("empty-union", "type Query { a: Int } union U", 1),
    ("empty-enum", "type Query { a: Int } enum E", 1),
    ("empty-input", "type Query { a(i: I): Int } input I", 1),
    ("input-type-in-output-position", "type Query { a: I } input I { x: Int }", 1),
    ("output-type-in-input-field", "type Query { a(i: I): Int } type O { x: Int } input I { o: O }", 1),
    ("output-type-in-argument", "type Query { a(o: O): Int } type O { x: Int }", 1),
    ("output-type-in-wrapped-argument", "type Query { a(o: [O!]!): Int } type O { x: Int }", 1),
    ("interface-field-missing", "type Query { a: A } interface I { x: Int y: Int } type A implements I { x: Int }", 1),
    ("interface-field-wrong-type", "type Query { a: A } interface I { x: Int } type A implements I { x: String }", 1),
    ("interface-field-not-covariant-nullability", "type Query { a: A } interface I { x: Int! } type A implements I { x: Int }", 1),
    ("interface-field-not-covariant-list", "type Query { a: A } interface I { x: [Int] } type A implements I { x: Int }", 1),
    ("interface-field-not-covariant-list-item", "type Query { a: A } interface I { x: [Int!] } type A implements I { x: [Int] }", 1),
    ("interface-field-not-covariant-nested", "type Query { a: A } interface I { x: [[Int!]!] } type A implements I { x: [[Int]!] }", 1),
    ("interface-field-object-not-member", "type Query { a: A } union U = B interface I { x: U } type B { y: Int } type A implements I { x: A }", 1),
    ("interface-argument-missing", "type Query { a: A } interface I { x(p: Int): Int } type A implements I { x: Int }", 1),
    ("interface-argument-wrong-type", "type Query { a: A } interface I { x(p: Int): Int } type A implements I { x(p: String): Int }", 1),
    # arguments are invariant: the implementing field must accept exactly the interface's argument type (June 2018, Objects, type validation 4.d.ii)
    ("interface-argument-made-non-null", "type Query { a: A } interface I { x(p: String): Int } type A implements I { x(p: String!): Int }", 1),
    ("interface-argument-item-made-non-null", "type Query { a: A } interface I { x(p: [String]): Int } type A implements I { x(p: [String!]): Int }", 1),
    ("interface-argument-list-made-non-null", "type Query { a: A } interface I { x(p: [String]): Int } type A implements I { x(p: [String]!): Int }", 1),
    ("interface-argument-nested-item-made-non-null", "type Query { a: A } interface I { x(p: [[String]]): Int } type A implements I { x(p: [[String!]]): Int }", 1),
    ("interface-argument-made-nullable", "type Query { a: A } interface I { x(p: String!): Int } type A implements I { x(p: String): Int }", 1),
    ("interface-argument-to-list", "type Query { a: A } interface I { x(p: String): Int } type A implements I { x(p: [String]): Int }", 1),
    ("interface-extra-required-argument", "type Query { a: A } interface I { x: Int } type A implements I { x(q: Int!): Int }", 1),
    ("union-member-not-object", "type Query { u: U } enum E { A } union U = E", 1),
    ("union-member-interface", "type Query { u: U } interface I { x: Int } type A implements I { x: Int } union U = I", 1),
    ("root-query-not-object", "schema { query: E } enum E { A }", 1),
    ("root-mutation-not-object", "schema { query: Query mutation: I } type Query { a: Int } input I { x: Int }", 1),
    ("reserved-type-name", "type Query { a: __A } type __A { x: Int }", 1),
    ("reserved-field-name", "type Query { __a: Int }", 1),
    ("reserved-argument-name", "type Query { a(__x: Int): Int }", 1),
    ("reserved-enum-value", "type Query { a: E } enum E { __A }", 1),
    ("reserved-input-field-name", "type Query { a(i: I): Int } input I { __x: Int }", 1),
    ("reserved-directive-name", "type Query { a: Int } directive @__d on FIELD", 1),
    ("directive-argument-output-type", "type Query { a: Int } type O { x: Int } directive @d(o: O) on FIELD", 1),
    ("two-violations", "type Query { a: I b: A } input I { x: Int } type A", 2),
    ("three-violations", "type Query { a: I b: A } input I { x: Int } type A union U", 3),
    # several violations on ONE element: every one of them is reported
    ("same-field-three-violations", "type Query { search(__where: Filter, like: Thing): Filter } input Filter { x: Int } type Thing { y: Int }", 3),
    ("same-field-output-type-and-duplicate-argument-name", "type Query { f(__a: Int): In } input In { x: Int }", 2),
    ("same-input-field-two-violations", "type Query { f(i: In): Int } type O { y: Int } input In { __x: O }", 2),
    ("same-argument-two-violations", "type Query { f(__o: O): Int } type O { y: Int }", 2),
    ("covariance-and-missing", "type Query { a: A b: B } interface I { x: Int! y: Int } type A implements I { x: Int y: Int } type B implements I { x: Int! }", 2),
    # one implementing field breaking the rule three ways: type, missing interface argument, additional required argument (hunt H4/10)
    ("same-implementation-three-violations", "type Query { a: A } interface I { x(p: Int): String } type A implements I { x(q: Int!): Int }", 3),
    ("same-implementation-type-and-argument-type", "type Query { a: A } interface I { x(p: Int): String } type A implements I { x(p: String): Int }", 2),
]

VALID_EXTRA = [
    "type Query { a: A } interface I { x: Int } type A implements I { x: Int! }",
    "type Query { a: A } interface I { x: [Int] } type A implements I { x: [Int!]! }",
    "type Query { a: A } interface I { x: I } type A implements I { x: A }",
    "type Query { a: A } union U = A interface I { x: U } type A implements I { x: A! }",
    "type Query { a: A } interface I { x(p: Int): Int } type A implements I { x(p: Int, q: Int): Int }",
    "type Query { a: A } interface I { x: [[I]] } type A implements I { x: [[A!]!]! }",
    "type Query { a(i: In = {x: 1}): Int } input In { x: Int! y: [In!] }",
    "schema { query: Q mutation: M } type Q { a: Int } type M { b: Int }",
    # recursive input types whose recursion goes through a list (or a nullable field): a finite value exists ([] / omitted) in every version of the rule
    "type Query { a(f: Filter): Int } input Filter { and: [Filter!]! or: [Filter!] not: Filter eq: Int }",
    "type Query { a(m: Matrix!): Int } input Matrix { rows: [[Matrix]]! cells: [[Matrix!]!]! }",
    "type Query { a(n: Node): Int } input Node { edges: [Edge!]! id: ID! } input Edge { to: Node! back: [Node]! }",
    "type Query { a(n: Outer!): Int } input Outer { inner: Inner! } input Inner { outer: Outer again: [Outer!]! }",
]


def _validate_sdl(sdl):
    """(ok, error list, exception) for building + validating a schema from SDL"""
    from py_gql import build_schema
    from py_gql.exc import GraphQLError, SchemaValidationError
    try:
        s = build_schema(sdl)
        s.validate()
        return True, [], None
    except SchemaValidationError as e:
        return False, list(e.errors), e
    except GraphQLError as e:
        return False, [e], e


def check(tier, seed):
    from py_gql import build_schema
    from py_gql.exc import GraphQLError, SchemaError, SchemaValidationError
    from py_gql.schema import Schema
    from py_gql.schema.validation import VALID_NAME_RE, validate_schema
    run = Run("C13", tier, seed)
    rnd = random.Random(seed)
    # --- A. deductive: covariance ------------------------------------------------------------------------
    ns = {k: v for k, v in vars(TA).items() if not k.startswith("__")}
    adts = {"SType": stype_adt()}
    for lem in SCH.LEMMAS:
        for d in prove_lemma(lem, ns, adts):
            run.cov["obligations"] += 1
            run.cov["solver_time_s"] += d["time_s"]
            run.cov["backends"][d["backend"]] = run.cov["backends"].get(d["backend"], 0) + 1
            if d["status"] == "discharged":
                run.cov["discharged"] += 1
            else:
                run.cov["undecided"].append({"obligation": d["id"], "status": d["status"]})
                run.cov["degraded_functions"].append({"function": "lemma " + lem.name, "reason": d["status"]})
    verdicts = engine_a.run(run, SCH.CONTRACTS, ns, adts, None, jobs=1)
    run.cov["parts"]["engine_a"] = verdicts
    # --- B. deductive (path-wise): every write to validated state invalidates the memoised verdict ------------
    WRITES = re.compile(r"\.(resolver|_?default_resolver|subscription_resolver)$|^self\.(types|directives)(\[|$)")

    def is_write(text):
        return bool(WRITES.search(text))

    import ast
    import inspect
    import textwrap
    ast_Assign, ast_Constant = ast.Assign, ast.Constant
    # what validate() remembers between calls: the attributes of the schema it both reads and assigns (on the unchanged tree: _is_valid)
    vtree = ast.parse(textwrap.dedent(inspect.getsource(Schema.__dict__["validate"])))
    selfattrs = lambda ctx: {x.attr for x in ast.walk(vtree) if isinstance(x, ast.Attribute) and isinstance(x.value, ast.Name) and x.value.id == "self" and isinstance(x.ctx, ctx)}
    memo_attrs = sorted(selfattrs(ast.Load) & selfattrs(ast.Store))
    if not memo_attrs:
        run.notes.append("Schema.validate keeps no verdict between calls any more: no invalidation obligations")
    mutators = [("register_default_resolver", Schema.__dict__["register_default_resolver"]), ("register_resolver", Schema.__dict__["register_resolver"]),
                ("register_subscription", Schema.__dict__["register_subscription"])]
    setter = getattr(Schema.__dict__.get("default_resolver"), "fset", None)
    if setter is not None:
        mutators.append(("default_resolver (setter)", setter))
    # only validate() itself may record a verdict: nowhere else in the schema package is a remembered attribute assigned anything but None
    import glob as _glob
    import os as _os
    import py_gql.schema as _S
    asserted = []
    for path_ in sorted(_glob.glob(_os.path.join(_os.path.dirname(_S.__file__), "**", "*.py"), recursive=True)):
        tree_ = ast.parse(open(path_).read())
        for fn_ in [x for x in ast.walk(tree_) if isinstance(x, (ast.FunctionDef, ast.AsyncFunctionDef))]:
            if fn_.name == "validate":
                continue
            for x in ast.walk(fn_):
                if isinstance(x, ast.Assign) and not (isinstance(x.value, ast.Constant) and x.value.value is None):
                    for t in x.targets:
                        if isinstance(t, ast.Attribute) and t.attr in memo_attrs:
                            asserted.append((_os.path.basename(path_), fn_.name, x.lineno, ast.unparse(x)))
    if memo_attrs:
        run.cov["obligations"] += 1
        run.cov["backends"]["syntactic-path enumeration"] = run.cov["backends"].get("syntactic-path enumeration", 0) + 1
        if asserted:
            f_, fn_name, line_, text_ = asserted[0]
            run.violation("Schema:verdict-recorded-by-validate-only", "%s:%d, %s(): `%s` records a validation verdict without validating (only validate() may; everything "
                          "else resets it)" % (f_, line_, fn_name, text_), {"file": f_, "function": fn_name, "line": line_, "statement": text_}, False)
        else:
            run.cov["discharged"] += 1
    for attr in memo_attrs:
        def is_action(text, stmt, attr=attr):
            if text != "self." + attr or not isinstance(stmt, ast_Assign):
                return False
            # _is_valid is reset to None (= not validated); any other remembered attribute by being assigned again
            return attr != "_is_valid" or (isinstance(stmt.value, ast_Constant) and stmt.value.value is None)
        helper = pathcheck.must_follow(Schema.__dict__["_invalidate_and_rebuild_caches"], lambda t: False, is_action)
        helper_resets = bool(helper) and all(o["acted"] for o in helper)
        if attr == "_is_valid" and not helper_resets:
            raise MachineryDefect("Schema._invalidate_and_rebuild_caches no longer resets _is_valid on every path")
        # (_replace_types_and_directives guards its writes with a change flag, so "write => invalidate" is not a
        #  syntactic-path property there; it is covered by the replacement histories of part C)
        for name, func in mutators:
            obs = pathcheck.must_follow(func, is_write, is_action, action_calls=("self._invalidate_and_rebuild_caches",) if helper_resets else ())
            if not obs:
                raise MachineryDefect("no return path found in Schema.%s" % name)
            if attr == memo_attrs[0]:
                run.cov["functions_under_contract"].append("Schema.%s (cache invalidation, path-wise)" % name)
            writes = 0
            for o in obs:
                run.cov["obligations"] += 1
                run.cov["backends"]["syntactic-path enumeration"] = run.cov["backends"].get("syntactic-path enumeration", 0) + 1
                writes += o["wrote"]
                if o["holds"]:
                    run.cov["discharged"] += 1
                else:
                    run.violation("Schema.%s:invalidates-cache" % name,
                                  "a normal-return path of Schema.%s writes validated state without resetting %s (which validate() reads back on its next call) afterwards: %s"
                                  % (name, attr, o["path"]), {"function": name, "attribute": attr, "path": o["path"], "line": o["line"]}, False)
            if writes == 0:
                raise MachineryDefect("Schema.%s: no write recognised (pattern out of date?)" % name)
    # --- C. bounded -----------------------------------------------------------------------------------------------
    n = nontrivial = 0
    valid = [schemas.BASE_SDL] + VALID_EXTRA + [schemas.apply_edit(schemas.BASE_SDL, o, nw) for _l, o, nw, _e in schemas.EDITS]
    for sdl in valid:
        for perm in range(2 if tier != "thorough" else 4):
            text = sdl if perm == 0 else _permute(sdl, rnd)
            n += 1
            nontrivial += 1
            try:
                ok, errs, exc = _validate_sdl(text)
            except Exception as e:
                run.violation("validate:only-schema-errors", "validating a valid schema raised %r" % (e,), {"sdl": text, "exc": type(e).__name__}, True)
                continue
            if not ok:
                run.violation("validate:accepts-valid-schemas", "a valid schema is rejected: %s" % (errs[0],), {"sdl": text, "errors": [str(e) for e in errs][:4]}, True)
    for label, sdl, min_errors in INVALID:
        verdicts_seen = set()
        for perm in range(3 if tier != "thorough" else 6):
            text = sdl if perm == 0 else _permute(sdl, rnd)
            n += 1
            nontrivial += perm == 0
            w = {"violation": label, "sdl": text}
            try:
                ok, errs, exc = _validate_sdl(text)
            except Exception as e:
                run.violation("validate:only-schema-errors", "%s: raised %r instead of a schema / SDL error" % (label, e), dict(w, exc=type(e).__name__), True)
                continue
            verdicts_seen.add(ok)
            if ok:
                run.violation("validate:rejects-each-violation", "schema with violation %r is accepted" % label, w, True)
            elif len(errs) < min_errors:
                run.violation("validate:reports-all-violations", "%s: %d violations injected, %d errors reported (%s)"
                              % (label, min_errors, len(errs), "; ".join(str(e) for e in errs)[:200]), dict(w, reported=len(errs), injected=min_errors), True)
        if len(verdicts_seen) > 1:
            run.violation("validate:order-independent", "%s: the verdict depends on the order of type definitions" % label, {"violation": label}, True)
    # names (code-built): VALID_NAME_RE == specification Name minus the reserved "__" prefix
    spec_name = re.compile(r"[_A-Za-z][_0-9A-Za-z]*\Z")
    for s_ in itertools.chain.from_iterable(itertools.product(["_", "a", "Z", "0", "-", " ", "é", "\n", "٣"], repeat=k) for k in range(0, 4)):
        name = "".join(s_)
        n += 1
        want = bool(spec_name.match(name)) and not name.startswith("__")
        got = bool(VALID_NAME_RE.match(name))
        if want != got:
            run.violation("validate:well-formed-names", "VALID_NAME_RE %s %r, the specification's Name says %s" % ("accepts" if got else "rejects", name, want), {"name": name}, True)
    # history: validate(); reassign a resolver with an incompatible signature; validate() must re-check
    for how in ("register_resolver", "register_default_resolver", "decorator-wildcard", "register_subscription", "assign-default_resolver"):
        s = build_schema("type Query { item(id: ID!): Int } type Subscription { tick(n: Int!): Int }")
        s.validate()
        bad = lambda root, ctx, info: 1          # noqa: E731  (no parameter for the argument)
        try:
            if how == "register_resolver":
                s.register_resolver("Query", "item", bad)
            elif how == "register_default_resolver":
                s.register_default_resolver("Query", bad)
            elif how == "decorator-wildcard":
                s.resolver("Query.*")(bad)
            elif how == "assign-default_resolver":
                s.default_resolver = lambda root: 1           # the documented way to set the schema-wide default resolver; not even three parameters
            else:
                s.register_subscription("Subscription", "tick", bad)
        except GraphQLError:
            continue
        n += 1
        nontrivial += 1
        fresh_rejects = False
        try:
            validate_schema(s)
        except SchemaValidationError:
            fresh_rejects = True
        memo_rejects = False
        try:
            s.validate()
        except SchemaError:
            memo_rejects = True
        if fresh_rejects and not memo_rejects:
            run.violation("validate:recomputed-after-resolver-change",
                          "after validate(); %s(bad resolver); validate() keeps the stale verdict although validate_schema() rejects" % how,
                          {"history": ["validate", how, "validate"]}, True)
    # rule "resolver signatures compatible with field arguments", against the calling convention itself: a resolver is compatible exactly when the call
    # resolver(root, context, info, **arguments) binds for every set of arguments a request can produce (required and defaulted ones always, optional
    # ones in every combination) - decided by making that call on a side-effect-free function of the given signature
    import itertools as _it
    SIGNATURES = ["root, ctx, info", "root, ctx, info, **kw", "*args", "*args, **kw", "root, ctx, info, x", "root, ctx, info, x=None", "root, ctx, info, *, x",
                  "root, ctx, info, *, x=None", "*args, x", "*args, x=None", "*args, tenant", "*args, tenant, **kw", "*args, tenant=1, **kw", "root, ctx, *rest, x=None",
                  "root, ctx, info, x=None, **kw", "root, ctx, x=None, *rest", "root, ctx", "root, ctx, info, extra", "root, ctx, info, extra=1", "root, ctx, info, args=None",
                  "root, ctx, info, **args", "root, ctx, info, x, y", "root, ctx, info, x=None, y=None", "root, ctx, info, *, x, y=2", "root, ctx, info, y=None, **kw",
                  "self_, ctx, info, x=None", "root, ctx, info, x=None, *more", "root, ctx, info, *more, **kw", "root, *rest, x=None, **kw", "root, ctx, info, /",
                  "root, ctx, info, /, x=None", "root, ctx, info, x=None, /", "root, ctx, info, x=None, /, **kw", "*args, x, **kw", "*a, y=None, **kw"]
    ARGUMENTS = ["", "x: Int", "x: Int!", "x: Int = 1", "x: Int! = 1", "x: Int, y: Int", "x: Int!, y: Int = 2", "args: [String]", "args: [String]!", "kw: Int", "info: Int"]
    for how in ("resolver", "subscription"):
        for sig in SIGNATURES:
            ns_ = {}
            exec("def r(%s): return 1" % sig, ns_)
            for fargs_text in ARGUMENTS:
                sdl = "type Query { f%s: Int } type Subscription { f%s: Int }" % (("(%s)" % fargs_text if fargs_text else "",) * 2)
                sch = build_schema(sdl)
                if how == "resolver":
                    sch.register_resolver("Query", "f", ns_["r"])
                else:
                    sch.register_subscription("Subscription", "f", ns_["r"])
                fargs = [(x.name, x.required, x.has_default_value) for x in sch.query_type.field_map["f"].arguments]
                always = [x for x, req, d in fargs if req or d]
                optional = [x for x, req, d in fargs if not (req or d)]
                compatible = True
                for k in range(len(optional) + 1):
                    for sub in _it.combinations(optional, k):
                        try:
                            ns_["r"]("root", "context", "info", **{x: 1 for x in always + list(sub)})
                        except TypeError:
                            compatible = False
                n += 1
                nontrivial += 1
                w = {"signature": "def %s(%s)" % (how, sig), "field": "f(%s)" % fargs_text}
                try:
                    sch.validate()
                    accepted = True
                except SchemaError as e:
                    accepted, why = False, str(e)
                except Exception as e:
                    run.violation("validate:only-schema-errors", "validating a schema with %s for f(%s) raised %r" % (w["signature"], fargs_text, e), dict(w, exc=type(e).__name__), True)
                    continue
                if accepted and not compatible:
                    run.violation("validate:rejects-each-violation", "%s is accepted for f(%s) although a call resolver(root, context, info, **arguments) the executor can make "
                                  "raises TypeError" % (w["signature"], fargs_text), dict(w, violation="resolver-signature"), True)
                if compatible and not accepted:
                    run.violation("validate:accepts-valid-schemas", "%s is rejected for f(%s) although every call the executor can make binds: %s" % (w["signature"], fargs_text, why),
                                  dict(w, errors=[why]), True)
    # the other direction: a schema rejected because of a resolver, repaired through the same interfaces, must be accepted on the next validate()
    good = lambda root, ctx, info, **kw: 1          # noqa: E731
    for how in ("register_resolver", "register_default_resolver", "decorator-wildcard", "register_subscription", "assign-default_resolver"):
        s = build_schema("type Query { item(id: ID!): Int } type Subscription { tick(n: Int!): Int }")
        bad = lambda root, ctx, info: 1          # noqa: E731
        try:
            if how == "register_resolver":
                s.register_resolver("Query", "item", bad)
                repair = lambda: s.register_resolver("Query", "item", good, allow_override=True)            # noqa: E731
            elif how == "register_default_resolver":
                s.register_default_resolver("Query", bad)
                repair = lambda: s.register_default_resolver("Query", good, allow_override=True)            # noqa: E731
            elif how == "decorator-wildcard":
                s.resolver("Query.*")(bad)
                repair = lambda: s.register_default_resolver("Query", good, allow_override=True)            # noqa: E731
            elif how == "assign-default_resolver":
                s.default_resolver = lambda root: 1
                repair = lambda: setattr(s, "default_resolver", good)                                       # noqa: E731
            else:
                s.register_subscription("Subscription", "tick", bad)
                repair = lambda: s.register_subscription("Subscription", "tick", good, allow_override=True)  # noqa: E731
        except (GraphQLError, TypeError):
            continue
        try:
            s.validate()
            continue            # (not rejected in the first place: nothing to repair)
        except SchemaError:
            pass
        try:
            repair()
        except (GraphQLError, TypeError, ValueError):
            continue
        n += 1
        nontrivial += 1
        try:
            validate_schema(s)
        except SchemaValidationError:
            continue            # the repair did not make the schema valid: no expectation
        try:
            s.validate()
        except SchemaError as e:
            run.violation("validate:recomputed-after-resolver-change",
                          "after a rejected validate(); %s(good resolver); validate() still raises the old error although validate_schema() accepts: %s" % (how, e),
                          {"history": ["validate (rejected)", how + " (repair)", "validate"]}, True)
    # schemas DERIVED from a validated one (transform_schema with visitors that hide members or assign resolvers in place; clone): the derived schema's
    # validate() is a verdict about the derived schema - it agrees with validate_schema() on it
    from py_gql.schema import SchemaVisitor
    from py_gql.schema.transforms import VisibilitySchemaTransform, transform_schema

    class _Hide(VisibilitySchemaTransform):
        def __init__(self, typename, fieldname):
            self.target = (typename, fieldname)

        def is_field_visible(self, typename, fieldname):
            return (typename, fieldname) != self.target

        def is_input_field_visible(self, typename, fieldname):
            return (typename, fieldname) != self.target

    class _Assign(SchemaVisitor):
        def on_object(self, object_type):
            if object_type.name == "Query":
                object_type.field_map["search"].resolver = lambda root, ctx, info: []
            return super().on_object(object_type)
    DERIVE_SDL = "interface Named { name: String } type Foo implements Named { id: ID name: String } type Bar { only: Int } input In { only: Int } " \
                 "type Query { foo: Foo bar: Bar search(q: String, filter: In): [Named] }"
    for label, make in [("hide an interface field on the implementer", lambda: _Hide("Foo", "name")), ("hide the only field of an object", lambda: _Hide("Bar", "only")),
                        ("hide the only field of an input object", lambda: _Hide("In", "only")), ("assign an incompatible resolver in place", _Assign),
                        ("hide nothing", lambda: _Hide("Nope", "nope"))]:
        src_schema = build_schema(DERIVE_SDL)
        n += 1
        nontrivial += 1
        try:
            src_schema.validate()
        except Exception as e:
            run.violation("validate:only-schema-errors" if not isinstance(e, SchemaError) else "validate:accepts-valid-schemas",
                          "validating a valid schema raised %r" % (e,), {"sdl": DERIVE_SDL, "exc": type(e).__name__}, True)
            break
        derived, refused = None, False
        try:
            derived = transform_schema(src_schema, make())
        except SchemaError:
            refused = True          # (refusing the invalid result outright is a correct answer too)
        except Exception as e:
            run.violation("validate:only-schema-errors", "transform_schema (%s) raised %r" % (label, e), {"history": ["validate", label], "exc": type(e).__name__}, True)
            continue
        if derived is None:
            continue
        fresh_rejects = False
        try:
            validate_schema(derived)
        except SchemaValidationError:
            fresh_rejects = True
        memo_rejects = False
        try:
            derived.validate()
        except SchemaError:
            memo_rejects = True
        if fresh_rejects != memo_rejects:
            run.violation("validate:recomputed-after-resolver-change", "schema derived from a validated one (%s): validate() says %s, validate_schema() on the same object says %s"
                          % (label, "invalid" if memo_rejects else "valid", "invalid" if fresh_rejects else "valid"), {"history": ["validate", "transform_schema: " + label, "validate"]}, True)
    # histories through Schema._replace_types_and_directives: the memoised verdict must be dropped and references healed
    from py_gql.schema import Directive, Field, Int, ObjectType
    for label in ("remove-directive", "replace-directive", "replace-type-then-unchanged-type", "unchanged-type-then-replace-type"):
        s = build_schema("directive @d on FIELD type Query { a: A b: B } type A { x: Int } type B { y: Int }")
        s.validate()
        new_a = ObjectType("A", [Field("z", Int)])
        if label == "remove-directive":
            s._replace_types_and_directives({}, {"d": None})
        elif label == "replace-directive":
            s._replace_types_and_directives({}, {"d": Directive("d", ["QUERY"])})
        elif label == "replace-type-then-unchanged-type":
            s._replace_types_and_directives({"A": new_a, "B": s.types["B"]})
        else:
            s._replace_types_and_directives({"B": s.types["B"], "A": new_a})
        n += 1
        nontrivial += 1
        if s._is_valid is not None:
            run.violation("Schema._replace_types_and_directives:invalidates-cache",
                          "%s: the memoised validation verdict survives the replacement" % label, {"history": ["validate", label]}, True)
        if "type" in label and s.types["Query"].field_map["a"].type is not s.types["A"]:
            run.violation("Schema._replace_types_and_directives:references-healed",
                          "%s: Query.a still refers to the replaced type object" % label, {"history": ["validate", label]}, True)
    # resolver signatures: one resolver shared by fields whose same-named argument differs in optionality;
    # the incompatible field must be reported whatever the order of fields / types
    def shared(root, ctx, info, id):        # no default: only compatible with a required `id`
        return 1
    for sdl, regs in (("type Query { strict(id: String!): Int lenient(id: String): Int }", [("Query", "strict"), ("Query", "lenient")]),
                      ("type Query { lenient(id: String): Int strict(id: String!): Int }", [("Query", "lenient"), ("Query", "strict")]),
                      ("type Query { a: A b: B } type A { item(id: String!): Int } type B { item(id: String): Int }", [("A", "item"), ("B", "item")]),
                      ("type Query { b: B a: A } type B { item(id: String): Int } type A { item(id: String!): Int }", [("B", "item"), ("A", "item")])):
        s = build_schema(sdl)
        for t, f in regs:
            s.register_resolver(t, f, shared)
        n += 1
        nontrivial += 1
        try:
            validate_schema(s)
            run.violation("validate:rejects-each-violation", "a resolver without a default for an optional argument is accepted when it is shared "
                          "with a field where the argument is required", {"violation": "shared-resolver-optional-argument", "sdl": sdl}, True)
        except SchemaValidationError:
            pass
    run.cov["evaluations"] += n
    run.cov["distinct_nontrivial"] += nontrivial
    run.cov["rule"] = "valid schemas (base, %d edited variants, covariance cases) and %d labelled invalid schemas, each under definition permutations; " \
                      "names over a 9-character alphabet up to length 3 (exhaustive); 4 resolver-reassignment histories" % (len(schemas.EDITS), len(INVALID))
    run.cov["bounded_functions"].append({"functions": ["py_gql.schema.validation.SchemaValidator.*", "_validate_resolver_arguments"],
                                         "bound": "%d validation runs" % n})
    run.sample({"violation": INVALID[12][0], "sdl": INVALID[12][1]})
    run.trusted("spec/typealgebra.valid_impl_type == IsValidImplementationFieldType / AreTypesCompatible of the specification")
    run.trusted("possible-type membership (Schema.is_possible_type) as an uninterpreted relation in the covariance proof")
    engine_p.run(run, 'C13')
    # frame: validating writes nothing into the schema it judges (no memo on the schema or its elements, nothing marked) - the verdict is a function of the schema's
    # current state, so it cannot depend on earlier validations or on resolvers that were replaced since (vf/aliascheck.py, one obligation per function of the module)
    import inspect as _inspect
    import py_gql.schema.validation as _val
    from vf import aliascheck
    _funcs = [("SchemaValidator.%s" % n_, f_) for n_, f_ in vars(_val.SchemaValidator).items() if _inspect.isfunction(f_)]
    _funcs += [(n_, f_) for n_, f_ in vars(_val).items() if _inspect.isfunction(f_) and f_.__module__ == _val.__name__]
    if len(_funcs) < 8:
        raise MachineryDefect("schema validation module has only %d functions (moved?)" % len(_funcs))
    aliascheck.account(run, aliascheck.obligations(_funcs, "validate", "validation leaves a trace on the schema, so a later verdict depends on the history"))
    return run.finish("other", "deductive: Schema.is_subtype == the specification's covariance relation for all type expressions (induction through its own "
                               "contract + reflexivity lemma by structural induction); path-wise: every mutator resets the memoised verdict; bounded: "
                               "rule-violation injection, order independence, names, re-validation histories",
                      checker_cmd="./check C13 --tier %s" % tier)


def _permute(sdl, rnd):
    from py_gql.lang import parse, print_ast
    doc = parse(sdl, allow_type_system=True)
    rnd.shuffle(doc.definitions)
    return print_ast(doc)
