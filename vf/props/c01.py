"""C01 - parser accepts exactly the grammar, fails only with positioned syntax errors."""
import contracts.lexer as LEX
import contracts.string_utils as SU
import spec.text as ST
from vf import engine_a, engine_b, frontend
from vf.report import MachineryDefect, Run


def check(tier, seed):
    run = Run("C01", tier, seed)
    ns = frontend.spec_namespace()
    jobs = 16
    # --- A. deductive: every Lexer method against the functional lexical specification -------------
    ns.update({k: v for k, v in vars(ST).items() if not k.startswith("__")})
    verdicts = engine_a.run(run, LEX.CONTRACTS + SU.CONTRACTS, ns, {}, engine_a.generic_instantiate(), jobs=jobs,
                            timeout_ms=20000 if tier == "thorough" else 10000)
    run.cov["parts"]["engine_a"] = verdicts
    # --- A2. deductive: the predictive parser against the specification grammar (Engine B) --------------
    engine_b.run(run, "C01")
    # --- B. validation of the functional specification against the declarative grammar -------------
    n, skipped, bad = frontend.validate_lexical_spec(4 if tier == "thorough" else 3, jobs=jobs)
    n2, sk2, bad2 = frontend.validate_lexical_spec(6 if tier == "thorough" else 5, alphabet=frontend.SMALL_ALPHABET, jobs=jobs)
    run.cov["parts"]["spec_validation"] = {"strings": n + n2, "skipped_number_followed_by_dot": skipped + sk2,
                                           "disagreements": len(bad) + len(bad2)}
    if bad or bad2:
        from vf.report import MachineryDefect
        raise MachineryDefect("functional lexical spec disagrees with the regex transcription: %r" % ((bad + bad2)[:2],))
    # --- C. bounded stand-in: the same contracts at run time over the enumerated corpus -------------
    total, accepted, fails, evals = frontend.lexer_standin(LEX.CONTRACTS, tier, jobs=jobs)
    run.cov["evaluations"] += total
    run.cov["distinct_nontrivial"] += accepted
    run.cov["parts"]["lexer_standin"] = {"texts": total, "accepted": accepted, "contract_evaluations": evals}
    if min(evals.values()) == 0:
        from vf.report import MachineryDefect
        raise MachineryDefect("a lexer contract was never evaluated: %r" % evals)
    run.cov["bounded_functions"].append({"functions": sorted(evals), "bound": "corpus of %d texts (frontend.lexer_corpus, tier %s)" % (total, tier)})
    for clause, witness, detail in fails:
        run.violation(clause, detail, witness, True)
    # --- D. whole pipeline: parser verdict == Earley verdict over the specification grammar -----------
    nitems, total2, accepted2, pfails = frontend.pipeline_check(tier, seed, jobs=jobs)
    run.cov["evaluations"] += total2
    run.cov["distinct_nontrivial"] += accepted2
    run.cov["parts"]["pipeline_vs_earley"] = {"texts": nitems, "parser_runs": total2, "accepted_runs": accepted2,
                                              "flag_combinations": len(frontend.FLAG_COMBOS), "entries": ["document", "value", "type"]}
    if accepted2 == 0 or nitems == 0:
        raise MachineryDefect("pipeline corpus is vacuous")
    for clause, witness, detail in pfails:
        run.violation(clause, detail, witness, True)
    # --- E. error rendering for every position inside the text ---------------------------------------
    nr, rfails = frontend.render_check(tier)
    run.cov["evaluations"] += nr
    run.cov["parts"]["render_check"] = {"text_position_pairs": nr, "exhaustive": True}
    for clause, witness, detail in rfails:
        run.violation(clause, detail, witness, True)
    # --- E2. the parser's token-stream primitives against the abstract stream Engine B assumes ---------
    nprim, pfails2 = frontend.stream_primitives_check(tier)
    run.cov["evaluations"] += nprim
    run.cov["parts"]["stream_primitives"] = {"operations_evaluated": nprim}
    run.cov["bounded_functions"].append({"functions": ["Parser.peek", "Parser.advance", "Parser.expect", "Parser.expect_keyword", "Parser.skip", "Parser._advance_window"],
                                         "bound": "all sequences of <= %d operations on 9 token texts (%d operations)" % (5 if tier == "thorough" else 4, nprim)})
    if nprim == 0:
        raise MachineryDefect("no stream primitive evaluated")
    for clause, witness, detail in pfails2:
        run.violation(clause, detail, witness, True)
    # --- F. the single named case: nesting deeper than the interpreter's recursion budget -------------
    probe = frontend.recursion_probe()
    run.cov["parts"]["recursion_probe"] = probe
    for name, outcome in probe.items():
        if outcome not in ("accepted", "GraphQLSyntaxError"):
            run.violation("parse:only-syntax-errors", "5000-deep %s: parser raised %s" % (name, outcome),
                          {"probe": name, "exc": outcome, "depth": 5000}, True)
    run.sample({"text": '"\\u00e9" 1.5e-3 name', "tokens": frontend.spec_tokens('"\\u00e9" 1.5e-3 name')})
    run.cov["rule"] = ("texts enumerated over a class-representative alphabet and token-piece alphabets; non-trivial = "
                       "texts the lexer accepts (distinct by construction)")
    run.trusted("spec/lexical.py is the lexical grammar (validated against the regex transcription spec/lexical_regex.py on %d strings)" % (n + n2))
    run.trusted("CPython str indexing/slicing/comparison as modelled by vf/pyvc (array of code points), co-executed")
    run.assume("integers are mathematical (exact for Python int); no aliasing; single thread; no RecursionError/MemoryError")
    return run.finish("other",
                      "Engine A (weakest-precondition VCs from the real source of Lexer, z3): every method proved against the "
                      "functional lexical specification for all texts of all lengths; bounded: same contracts at run time over the "
                      "corpus; Engine B (automata extracted from the real source of Parser.parse_*): language equality with the specification "
                      "grammar per method (P1), prediction (P2), progress (P3), raise sites (P4) for every flag valuation - acceptance of the "
                      "parser follows by the LL meta-theorem (trusted); bounded: parser verdict == Earley verdict over the corpus",
                      checker_cmd="./check C01 --tier %s" % tier)
