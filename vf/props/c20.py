"""C20 - schema diffing reports every difference with a severity matching client impact."""
import json
import os
import random
import subprocess
import sys

import contracts.differ as DIFF
import spec.typealgebra as TA
from vf import engine_a, schemas
from vf.pyvc.spec import ADT
from vf.report import MachineryDefect, Run


def gtype_adt():
    from py_gql.schema.types import ListType, NamedType, NonNullType
    return ADT("GType", [("Named", "NamedType", [("name", "int")]), ("List", "ListType", [("type", "self")]),
                         ("NonNull", "NonNullType", [("type", "self")])],
               {"NamedType": NamedType, "ListType": ListType, "NonNullType": NonNullType})


def gtype_to_python(text):
    """z3 datatype rendering, e.g. 'List(NonNull(Named(3)))' -> py_gql type objects"""
    from py_gql.schema import ListType, NonNullType, ScalarType
    names = {}

    def named(n):
        from vf.pyvc.values import name_of_code
        if n not in names:
            names[n] = ScalarType(name_of_code(n) or "T%d" % n, serialize=str, parse=str)
        return names[n]
    env = {"Named": named, "List": ListType, "NonNull": NonNullType}
    return eval(text, {"__builtins__": {}}, env)


def _changes(old_sdl, new_sdl, min_severity=None):
    from py_gql import build_schema
    from py_gql.schema.differ import diff_schema
    old, new = build_schema(old_sdl), build_schema(new_sdl)
    return [(type(c).__name__, c.message, int(c.severity)) for c in diff_schema(old, new, min_severity=min_severity)]


def permute_definitions(sdl, rnd):
    from py_gql.lang import parse, print_ast
    doc = parse(sdl, allow_type_system=True)
    rnd.shuffle(doc.definitions)
    return print_ast(doc)


# several members / locations / values / fields removed in ONE edit: the reported list must not depend on the hash seed
# several members of every kind of SET the differ walks (fields, union members, enum values, locations, implemented interfaces, arguments, input fields) differ at once
_IFACES = "interface I1 { x: Int } interface I2 { x: Int } interface I3 { x: Int } interface I4 { x: Int } interface I5 { x: Int } "
MULTI_OLD = ("type Query { u: U e: E a: Int b: Int c: Int d: Int f(p: Int, q: Int, r: Int, s: Int, i: In): Int } type A implements I1 & I2 & I3 & I4 & I5 { x: Int } type B { x: Int } "
             "type C { x: Int } type D { x: Int } type F { x: Int } input In { a: Int b: Int c: Int d: Int e: Int } " + _IFACES +
             "union U = A | B | C | D | F enum E { V1 V2 V3 V4 V5 } directive @d(k: Int, l: Int, m: Int, n: Int) on FIELD | QUERY | MUTATION | SUBSCRIPTION | FRAGMENT_SPREAD | INLINE_FRAGMENT")
MULTI_NEW = ("type Query { u: U e: E a: Int f(p: Int): Int } type A implements I1 { x: Int } type B { x: Int } type C { x: Int } type D { x: Int } type F { x: Int } "
             "input In { a: Int } " + _IFACES + "union U = A enum E { V1 } directive @d(k: Int) on FIELD")
_Q = "type Query { a: Int } "
EXTRA_PAIRS = [
    # a type that changes its KIND (every pair of kinds that share a shape): reported, never a crash
    ("object-becomes-interface", "type Query { a: A } type A { x: Int }", "type Query { a: A } interface A { x: Int } type B implements A { x: Int }", "A", ["{ a { x } }"]),
    ("interface-becomes-object", "type Query { a: A } interface A { x: Int } type B implements A { x: Int }", "type Query { a: A } type A { x: Int } type B { x: Int }", "A",
     ["{ a { ... on B { x } } }"]),
    ("object-becomes-union", "type Query { a: A } type A { x: Int } type B { x: Int }", "type Query { a: A } union A = B type B { x: Int }", "A", ["{ a { x } }"]),
    ("input-becomes-scalar", "type Query { f(i: I): Int } input I { a: Int }", "type Query { f(i: I): Int } scalar I", "I", ["{ f(i: {a: 1}) }"]),
    ("enum-becomes-scalar", "type Query { e: E } enum E { A }", "type Query { e: E } scalar E", "E", ["{ e }"]),
    ("scalar-becomes-enum", "type Query { e(x: E): Int } scalar E", "type Query { e(x: E): Int } enum E { A }", "E", ["{ e(x: 1) }"]),
    # a default removed from a NON-NULL input: the input becomes required
    ("nonnull-argument-default-removed", "type Query { f(a: Int! = 1): Int }", "type Query { f(a: Int!): Int }", "a", ["{ f }", "query ($v: Int) { f(a: $v) }"]),
    ("nonnull-input-field-default-removed", "type Query { f(i: I): Int } input I { a: Int! = 1 }", "type Query { f(i: I): Int } input I { a: Int! }", "a", ["{ f(i: {}) }"]),
    ("nonnull-directive-argument-default-removed", _Q + "directive @d(a: Int! = 1) on FIELD", _Q + "directive @d(a: Int!) on FIELD", "a", ["{ a @d }"]),
    # root operation types
    ("query-root-repointed", "schema { query: Q } type Q { a: Int } type M { b: Int }", "schema { query: M } type Q { a: Int } type M { b: Int }", "query", ["{ a }"]),
    ("mutation-root-removed", "schema { query: Q mutation: M } type Q { a: Int } type M { b: Int }", "schema { query: Q } type Q { a: Int } type M { b: Int }", "mutation",
     ["mutation { b }"]),
    ("mutation-root-repointed", "schema { query: Q mutation: M } type Q { a: Int } type M { b: Int } type S { c: Int }",
     "schema { query: Q mutation: S } type Q { a: Int } type M { b: Int } type S { c: Int }", "mutation", ["mutation { b }"]),
    ("subscription-root-added", "schema { query: Q } type Q { a: Int } type S { c: Int }", "schema { query: Q subscription: S } type Q { a: Int } type S { c: Int }", "subscription", []),
]


def check(tier, seed):
    from py_gql import build_schema
    from py_gql.lang import parse
    from py_gql.schema.differ import SchemaChangeSeverity
    from py_gql.validation import validate_ast
    run = Run("C20", tier, seed)
    rnd = random.Random(seed)
    # --- A. deductive: the two safe-type-change predicates against the specification's relations ---------
    ns = {k: v for k, v in vars(TA).items() if not k.startswith("__")}
    inst = engine_a.generic_instantiate({"*": lambda v: gtype_to_python(v) if isinstance(v, str) else v})
    verdicts = engine_a.run(run, DIFF.CONTRACTS, ns, {"GType": gtype_adt()}, inst, jobs=2)
    run.cov["parts"]["engine_a"] = verdicts
    # --- B. bounded: equal schemas, elementary edits, no-breaking => operations stay valid ---------------
    base = schemas.BASE_SDL
    n = nontrivial = 0
    ch = _changes(base, base)
    n += 1
    if ch:
        run.violation("diff_schema:equal-schemas-report-nothing", "diff of two independently built equal schemas is %r" % (ch[:3],), {"edit": None}, True)
    perms = 6 if tier == "thorough" else 3
    for i in range(perms):
        p = permute_definitions(base, rnd)
        n += 1
        ch = _changes(base, p)
        if ch:
            run.violation("diff_schema:definition-order-independent", "reordering the definitions of a schema yields changes %r" % (ch[:3],),
                          {"edit": "permutation %d" % i}, True)
    old_schema = build_schema(base)
    ops = [parse(o) for o in schemas.OPERATIONS]
    for o, doc in zip(schemas.OPERATIONS, ops):
        res = validate_ast(old_schema, doc)
        if res.errors:
            raise MachineryDefect("corpus operation %r is not valid against the base schema: %s" % (o, res.errors[0]))
    for label, old, new, element in schemas.EDITS:
        for direction in ("forward", "backward"):
            a = base
            b = schemas.apply_edit(base, old, new)
            if direction == "backward":
                a, b = b, a
            n += 1
            nontrivial += 1
            w = {"edit": label, "direction": direction, "element": element}
            try:
                ch = _changes(a, b)
            except Exception as e:
                run.violation("diff_schema:never-raises", "diff_schema raised %r" % (e,), dict(w, exc=type(e).__name__), True)
                continue
            # min_severity is a filter on the same report: nothing else disappears, nothing appears
            for sev in SchemaChangeSeverity:
                n += 1
                try:
                    filtered = _changes(a, b, min_severity=sev)
                except Exception as e:
                    run.violation("diff_schema:never-raises", "diff_schema(min_severity=%s) raised %r" % (sev, e), dict(w, exc=type(e).__name__), True)
                    continue
                want_f = [c for c in ch if c[2] >= int(sev)]
                if sorted(filtered) != sorted(want_f):
                    run.violation("diff_schema:min-severity-is-a-filter", "edit %s (%s): min_severity=%s gives %r, the unfiltered report restricted to that severity is %r"
                                  % (label, direction, sev.name if hasattr(sev, "name") else sev, [m for _c, m, _s in filtered][:3], [m for _c, m, _s in want_f][:3]),
                                  dict(w, min_severity=str(sev)), True)
            if not any(element in msg for _c, msg, _s in ch):
                run.violation("diff_schema:every-edit-reported", "edit %s (%s) of %r: no reported change names it; changes: %r"
                              % (label, direction, element, [m for _c, m, _s in ch][:4]), dict(w, changes=ch[:6]), True)
            if not any(s >= int(SchemaChangeSeverity.BREAKING) for _c, _m, s in ch):
                new_schema = build_schema(b)
                old_s = build_schema(a)
                for o, doc in list(zip(schemas.OPERATIONS, ops)) + [(o_, parse(o_)) for o_ in schemas.EDIT_OPERATIONS]:
                    try:
                        if validate_ast(old_s, doc).errors:
                            continue       # not valid against this 'old' schema (backward direction)
                        errs = validate_ast(new_schema, doc).errors
                    except Exception:
                        continue           # a crashing validator is C05's subject, not the differ's
                    n += 1
                    if errs:
                        run.violation("diff_schema:no-breaking-implies-operations-stay-valid",
                                      "edit %s (%s): no BREAKING change reported, but %r is valid before and invalid after: %s"
                                      % (label, direction, o, errs[0]), dict(w, operation=o, changes=ch[:6], error=str(errs[0])), True)
                        break
            # independence from definition order
            pb = permute_definitions(b, rnd)
            ch2 = _changes(a, pb)
            if sorted(ch) != sorted(ch2):
                run.violation("diff_schema:definition-order-independent", "edit %s: the set of changes depends on definition order" % label,
                              dict(w, a=sorted(ch)[:4], b=sorted(ch2)[:4]), True)
    # --- B2. pairs of small schemas (old, new, element a change must name, operations valid against old) ---------------------
    for label, a, b, element, pair_ops in EXTRA_PAIRS:
        n += 1
        nontrivial += 1
        w = {"edit": label, "direction": "forward", "element": element}
        try:
            ch = _changes(a, b)
        except Exception as e:
            run.violation("diff_schema:never-raises", "diff_schema raised %r" % (e,), dict(w, exc=type(e).__name__), True)
            continue
        for sev in SchemaChangeSeverity:
            n += 1
            try:
                filtered = _changes(a, b, min_severity=sev)
            except Exception as e:
                run.violation("diff_schema:never-raises", "diff_schema(min_severity=%s) raised %r" % (sev, e), dict(w, exc=type(e).__name__), True)
                continue
            want_f = [c for c in ch if c[2] >= int(sev)]
            if sorted(filtered) != sorted(want_f):
                run.violation("diff_schema:min-severity-is-a-filter", "edit %s: min_severity=%s gives %r, the unfiltered report restricted to that severity is %r"
                              % (label, getattr(sev, "name", sev), [m for _c, m, _s in filtered][:3], [m for _c, m, _s in want_f][:3]), dict(w, min_severity=str(sev)), True)
        if not any(element in msg for _c, msg, _s in ch):
            run.violation("diff_schema:every-edit-reported", "edit %s of %r: no reported change names it; changes: %r" % (label, element, [m for _c, m, _s in ch][:4]),
                          dict(w, changes=ch[:6]), True)
        if not any(s_ >= int(SchemaChangeSeverity.BREAKING) for _c, _m, s_ in ch):
            old_s, new_s = build_schema(a), build_schema(b)
            for o in pair_ops:
                doc = parse(o)
                try:
                    if validate_ast(old_s, doc).errors:
                        raise MachineryDefect("pair operation %r is not valid against the old schema of %s" % (o, label))
                    errs = validate_ast(new_s, doc).errors
                except MachineryDefect:
                    raise
                except Exception:
                    continue
                n += 1
                if errs:
                    run.violation("diff_schema:no-breaking-implies-operations-stay-valid", "edit %s: no BREAKING change reported, but %r is valid before and invalid after: %s"
                                  % (label, o, errs[0]), dict(w, operation=o, changes=ch[:6], error=str(errs[0])), True)
                    break
    # --- C. hash-seed independence (subprocesses) ---------------------------------------------------------
    outs = []
    code = ("import sys, json; sys.path.insert(0, %r); sys.path.insert(0, %r); from vf.props import c20; from vf import schemas as S;"
            "print(json.dumps([c20._changes(S.BASE_SDL, S.apply_edit(S.apply_edit(S.BASE_SDL, *S.EDITS[3][1:3]), *S.EDITS[22][1:3])),"
            " c20._changes(S.BASE_SDL, S.apply_edit(S.BASE_SDL, *S.EDITS[0][1:3])),"
            " c20._changes(c20.MULTI_OLD, c20.MULTI_NEW), c20._changes(c20.MULTI_NEW, c20.MULTI_OLD)]))") % (
        os.path.dirname(os.path.dirname(os.path.dirname(os.path.abspath(__file__)))), os.path.join(os.environ.get("VF_REPO") or "/repo", "src"))
    for hs in ("0", "1", "4242"):
        env = dict(os.environ, PYTHONHASHSEED=hs)
        out = subprocess.run([sys.executable, "-c", code], capture_output=True, text=True, env=env)
        if out.returncode != 0:
            raise MachineryDefect("hash-seed subprocess failed: %s" % out.stderr[-300:])
        outs.append(out.stdout.strip().splitlines()[-1])
        n += 1
    if len(set(outs)) != 1:
        run.violation("diff_schema:hash-order-independent", "diff output differs between PYTHONHASHSEED values", {"outputs": outs}, True)
    run.cov["evaluations"] += n
    run.cov["distinct_nontrivial"] += nontrivial
    run.cov["rule"] = "%d labelled elementary edits of the base schema, each in both directions (distinct by construction), %d client operations" % (
        len(schemas.EDITS), len(schemas.OPERATIONS))
    run.cov["bounded_functions"].append({"functions": ["py_gql.schema.differ.diff_schema", "_diff_*"],
                                         "bound": "%d edits x 2 directions on one base schema covering all type kinds; %d operations; 3 hash seeds" % (
                                             len(schemas.EDITS), len(schemas.OPERATIONS))})
    run.sample({"edit": schemas.EDITS[8][0], "old": schemas.EDITS[8][1].strip(), "new": schemas.EDITS[8][2].strip()})
    run.trusted("spec/typealgebra.py in_ok / out_ok as the meaning of 'at least as permissive' / 'at least as strict'")
    run.trusted("validate_ast as the judge of operation validity (C05/C06)")
    return run.finish("other", "deductive: _is_safe_input_type_change / _is_safe_output_type_change proved sound and reflexive against the "
                               "specification's relations for all type expressions (structural induction through the functions' own contracts); "
                               "bounded: edit detection, equal schemas, order/hash independence, no-breaking => operations stay valid",
                      checker_cmd="./check C20 --tier %s" % tier)
