"""C05 - validated operations cannot go wrong; validation itself never crashes."""
import multiprocessing as mp
import random

from vf import execharness as H
from vf.props.c04 import compare
from vf.report import MachineryDefect, Run

ADVERSARIAL = [
    # duplicate fields with every kind of argument value
    "query ($v: [Int]) { a: echo(s: \"x\") a: echo(s: \"x\") }",
    "query ($v: String) { echo(s: $v) echo(s: $v) }",
    "query ($v: String, $w: String) { echo(s: $v) echo(s: $w) }",
    "{ echo(f: {tags: [\"a\"]}) echo(f: {tags: [\"a\"]}) }",
    "{ echo(f: {tags: [\"a\"]}) echo(f: {tags: [\"b\"]}) }",
    "{ echo(s: null) echo(s: null) }",
    "{ echo(f: {min: 1}) echo(f: null) }",
    "{ echo(f: {tags: []}) echo(f: {tags: [null]}) }",
    # malformed / undefined conditions at the top of a subscription (the single-root-field rule looks at exactly these selections)
    "subscription { tick @include(if: $nope) }",
    "subscription { tick @skip }",
    "subscription { tick @skip(if: \"yes\") }",
    "subscription { tick @include(if: null) }",
    "subscription ($v: Boolean) { tick @include(if: $v) }",
    "subscription { ...Missing @skip(if: $x) }",
    "subscription ($v: Boolean!) { tick @include(if: $v) ping @skip(if: $v) { name } }",
    "query ($v: [Boolean]) { count @skip(if: $v) ...F @include(if: [true]) } fragment F on Query { count @include(if: {a: 1}) }",
    # unknown names everywhere
    "{ ... on Nope { x } }",
    "fragment F on Nope { x } { ...F }",
    "{ me { ...F } } fragment F on Nope { name }",
    "query ($v: Nope) { echo(s: $v) }",
    "query ($v: [Nope!]!) { count }",
    "{ nope { ... on Nope { ... on Person { name } } } }",
    "{ me { nope { name } } }",
    "{ me @nope(x: [1, {a: $u}]) { name } }",
    # fragments: cycles, nesting, multi-letter names, unused, duplicates
    "{ ...A } fragment A on Query { ...B } fragment B on Query { ...A }",
    "{ ...Alpha } fragment Alpha on Query { ...Beta ...Gamma ...Delta } fragment Beta on Query { ...Gamma } fragment Gamma on Query { count } fragment Delta on Query { ...Alpha }",
    "{ ...Self } fragment Self on Query { ...Self }",
    "{ me { ...FragOne } } fragment FragOne on Person { name ...FragTwo } fragment FragTwo on Person { x: name ...FragThree } fragment FragThree on Person { x: age }",
    "{ me { ... on Person { ...FragOne } x: age } } fragment FragOne on Person { x: name }",
    "{ pet { ... on Dog { ...D } ... on Cat { ...C } } } fragment D on Dog { v: barks } fragment C on Cat { v: lives }",
    "{ pet { ... on Dog { v: name } ... on Cat { v: lives } } }",
    "{ me { ... on Person { ...FragOne } x: age } } fragment FragOne on Person { x: name }",
    "{ me { ... on Person { ... on Named { ...FragOne } } x: age } } fragment FragOne on Person { x: name }",
    "{ me { ...Outer x: age } } fragment Outer on Person { ... on Person { ...Inner } } fragment Inner on Person { x: name }",
    "{ me { x: age ... on Person { ...FragOne } } } fragment FragOne on Person { x: name }",
    "{ me { best { ... on Dog { ...DogBits } v: __typename } } } fragment DogBits on Dog { v: name }",
    "fragment F on Person { name } fragment F on Person { age } { me { ...F } }",
    "fragment Unused on Person { name } { count }",
    # variables: same variable at differently typed positions, undefined, unused, wrong types, defaults
    "query ($v: Int) { me { friends(first: $v) { name } } echo(s: $v) }",
    "query ($v: String) { echo(s: $v) me { friends(first: $v) { name } } }",
    "query ($v: Int!) { me { friends(first: $v) { name } } color(c: $v) }",
    "{ echo(s: $undefined) }",
    "query ($a: Int, $a: Int) { count }",
    "query ($a: Person) { count }",
    "query ($a: Int = \"x\") { me { friends(first: $a) { name } } }",
    "query ($f: Filter = {min: \"x\", bogus: 1}) { echo(f: $f) }",
    "query A($x: Int) { ...UsesX } query B { ...UsesX } fragment UsesX on Query { me { friends(first: $x) { name } } }",
    "query A($x: Int) { ...L1 } fragment L3 on Query { me { friends(first: $x) { name } } } fragment L2 on Query { ...L3 } fragment L1 on Query { ...L2 }",
    "query A($x: Int) { ...L1 } fragment L1 on Query { ...L2 } fragment L2 on Query { ...L3 } fragment L3 on Query { me { friends(first: $x) { name } } }",
    # values
    "{ echo(s: 1) color(c: \"RED\") }",
    "{ color(c: PURPLE) echo(f: {color: 1, tags: \"single\", min: 1.5}) }",
    "{ echo(f: {min: 1, min: 2}) }",
    "{ me { friends(first: 99999999999) { name } } }",
    "{ echo(s: \"a\", s: \"b\") }",
    # leaf / composite confusion, operations
    "{ me }",
    "{ count { x } }",
    "{ count } { me { name } }",
    "query A { count } query A { count }",
    "subscription { tick ping { name } }",
    "subscription { ...F } fragment F on Subscription { tick ping { name } }",
    "mutation { nope }",
    "{ __typename __schema { types { name } } __type(name: \"Person\") { name fields { name } } }",
    "{ me { __typename __nope } }",
    "{ me { name @skip(if: $u) @skip(if: true) } }",
    "{ me { name @include } }",
    "{ me { name @include(if: \"yes\") } }",
    # the same fragment spread several times in one selection set, some spreads excluded by directives (valid documents)
    "query ($s: Boolean = true) { me { ...F @skip(if: $s) ...F } } fragment F on Person { name age }",
    "query ($s: Boolean = true) { me { ...F @skip(if: $s) best { __typename } ...F @include(if: $s) } } fragment F on Person { name }",
    "{ me { ...F @include(if: false) ... on Person { ...F } } } fragment F on Person { name strict }",
    "{ me { ...A ...B } } fragment A on Person { ...F @skip(if: true) } fragment B on Person { ...F } fragment F on Person { age }",
    "{ people { ...F @skip(if: true) } me { ...F } } fragment F on Person { name }",
    # three fields under one response name where the conflicting pair does not include the first occurrence (directly, in sub-selections, across type conditions)
    "{ me { friends { name } friends { n: name } friends { n: age } } }",
    "{ me { friends { name } friends { n: age } friends { n: name } } }",
    "{ pet { ... on Dog { x: name } ... on Cat { x: name } ... on Cat { x: lives } } }",
    "{ me { a: name a: name a: age } people { best { __typename } best { ... on Dog { v: name } } best { ... on Dog { v: barks } } } }",
    # meta fields of the query root selected on other roots
    "mutation { a(n: 1) __schema { queryType { name } } }",
    "mutation { meta: __type(name: \"Query\") { kind } }",
    "subscription { __schema { queryType { name } } }",
    "mutation { __typename b { __typename name } }",
]


# literals at a custom scalar position (the scalar has no literal parser of its own; how such literals are coerced is the scalar's business, so these
# documents are only in C05's corpus - never raises; if accepted, executes - and not in C06's verdict comparison)
CUSTOM_SCALAR_DOCUMENTS = [
    "{ echo(any: {a: 1}) }",
    "{ echo(any: [1, {a: [2, {b: null}]}]) }",
    "query ($v: Any = {a: 1}) { echo(any: $v) }",
    "query ($v: Int) { echo(any: {a: $v}) b: echo(any: [$v]) }",
    "{ a: echo(any: \"s\") b: echo(any: true) c: echo(any: null) }",
]


def max_nesting(text):
    d = best = 0
    for ch in text:
        if ch in "{[":
            d += 1
            best = max(best, d)
        elif ch in "}]":
            d -= 1
    return best


# single named case of the property: nesting that the parser still accepts but that is deeper than the validator's recursion budget
DEEP_DOCUMENTS = ["{ me " + "{ friends " * 160 + "{ name }" + " }" * 160 + " }",
                  "{ echo(f: " + "{sub: " * 170 + "{min: 1}" + "}" * 170 + ") }"]


def adversarial():
    """ADVERSARIAL plus every single-rule violation and every order-sensitive valid document of the C06 corpus: whatever validate_ast says about
    them, an accepted one must execute (imported lazily: c06 imports this module)"""
    from vf.props import c06 as _c06
    return list(dict.fromkeys(ADVERSARIAL + DEEP_DOCUMENTS + CUSTOM_SCALAR_DOCUMENTS + [t for _r, t in _c06.LABELLED] + list(_c06.VALID_TRICKY)))


def mutations(text, rnd, pool_names):
    """single-token edits of a valid document that keep it syntactically valid"""
    from spec import lexical as SL
    from py_gql.exc import GraphQLSyntaxError
    from py_gql.lang import parse
    toks, q = [], 0
    while True:
        k, a, b = SL.lex(text, q)
        if k in (SL.K_EOF, SL.K_ERROR):
            break
        toks.append((k, text[a:b]))
        q = b
    out = []
    idxs = list(range(len(toks)))
    rnd.shuffle(idxs)
    for i in idxs[:14]:
        k, lx = toks[i]
        cands = []
        if k == SL.K_NAME:
            cands = [rnd.choice(pool_names), "nope", toks[rnd.randrange(len(toks))][1]]
        elif k in (SL.K_INT, SL.K_FLOAT, SL.K_STRING):
            cands = ['"s"', "1", "1.5", "null", "[1]", "{a: 1}", "$zz", "RED", "true"]
        elif lx == "...":
            cands = []
        for c in cands[:3]:
            new = toks[:i] + [(k, c)] + toks[i + 1:]
            t = " ".join(x for _k, x in new)
            try:
                parse(t)
            except GraphQLSyntaxError:
                continue
            except Exception:
                pass
            out.append(t)
        # duplicate a field-ish token run
        if k == SL.K_NAME and rnd.random() < 0.2:
            t = " ".join(x for _k, x in toks[:i + 1] + [(k, lx)] + toks[i + 1:])
            try:
                parse(t)
                out.append(t)
            except Exception:
                pass
    return out


def _chunk(texts):
    from py_gql.exc import GraphQLSyntaxError
    from py_gql.lang import parse
    from py_gql.validation import validate_ast
    schema = H.make_schema()
    fails, n, valid = [], 0, 0
    for text in texts:
        try:
            doc = parse(text)
        except GraphQLSyntaxError:
            continue
        except Exception:
            continue
        n += 1
        try:
            res = validate_ast(schema, doc)
            errs = list(res.errors)
        except Exception as e:
            fails.append(("validate_ast:never-raises", {"document": text if len(text) < 400 else text[:120] + "...", "exc": type(e).__name__,
                                                        "nesting": max_nesting(text)}, "validate_ast raised %r" % (e,)))
            continue
        if errs:
            continue
        valid += 1
        # validated => the response shape is determined: every selected field exists on its parent type, composite fields have a selection and leaves have
        # none (exactly what the rules FieldsOnCorrectType and ScalarLeafs establish - re-derived by the reference, independently of the library's traversal)
        try:
            from vf import ref_validate as RV
            shape = sorted({v.rule for v in RV.validate(schema, parse(text)) if v.rule in ("FieldsOnCorrectType", "ScalarLeafs")})
        except Exception:
            shape = []
        if shape:
            fails.append(("validated:data-has-the-determined-shape", {"document": text, "rules": shape},
                          "validation accepts a document whose response shape is not determined by its selection sets and the schema (%s)" % ", ".join(shape)))
        # validated => executing cannot go wrong
        from py_gql.lang import ast as A
        ops = [d for d in doc.definitions if isinstance(d, A.OperationDefinition)]
        for op in ops:
            if op.operation == "subscription":
                continue
            name = op.name.value if op.name else None
            if name is None and len(ops) > 1:
                continue
            try:
                exp = H.reference(schema, text, {}, {}, name)
            except Exception as e:
                fails.append(("validated:reference-can-execute", {"document": text, "exc": type(e).__name__},
                              "validation accepts a document the specification's execution algorithm cannot run: %r" % (e,)))
                continue
            # "any resolver results of the declared types": a top-level field of an abstract type may resolve to ANY of its possible types - each is tried,
            # since which selections merge under one response key depends on the runtime type
            exps = [exp]
            try:
                from py_gql.schema import InterfaceType, NonNullType, UnionType
                root_t = {"query": schema.query_type, "mutation": schema.mutation_type}.get(op.operation)
                for sel in op.selection_set.selections:
                    fd = root_t.field_map.get(sel.name.value) if isinstance(sel, A.Field) and root_t is not None else None
                    ft = fd.type.type if fd is not None and isinstance(fd.type, NonNullType) else getattr(fd, "type", None)
                    if isinstance(ft, (InterfaceType, UnionType)):
                        key = sel.alias.value if sel.alias else sel.name.value
                        for pt in schema.get_possible_types(ft):
                            exps.append(H.reference(schema, text, {}, {(key,): ("value", {"__typename__": pt.name})}, name))
            except Exception:
                pass
            amb = next((e for e in exps if e[0] == "result" and e[3].ambiguous), None)
            if amb is not None:
                fails.append(("validated:one-unambiguous-value-per-response-key", {"document": text, "operation": name, "paths": [list(p) for p in amb[3].ambiguous][:3]},
                              "validation accepts the document although response key %r merges different fields / arguments" % (amb[3].ambiguous[0],)))
            got = H.run_request(schema, text, {}, {}, "blocking-executor", operation_name=name)
            if got["outcome"] == "exception":
                fails.append(("validated:execution-never-raises-internally", {"document": text, "operation": name, "exc": type(got["exc"]).__name__},
                              "a validated operation raised %r during execution" % (got["exc"],)))
                continue
            if "any:" in text.replace(" ", ""):
                continue      # literals at a custom scalar position: which of them the scalar accepts at execution time is its own business (a field error is a valid outcome)
            bad = compare(exp, got)
            if bad and exp[0] == "result" and "__schema" not in text and "__type" not in text.replace("__typename", "") \
                    and "[$" not in text.replace(" ", ""):   # introspection: C15; missing variable inside a list literal: C07 known finding
                fails.append(("validated:data-has-the-determined-shape", {"document": text, "operation": name}, bad[1]))
    return n, valid, fails


def check(tier, seed):
    from vf import gen_docs, gen_ops
    run = Run("C05", tier, seed)
    rnd = random.Random(seed)
    schema = H.make_schema()
    texts = adversarial()
    gen, _rej = gen_ops.generate(schema, 400 if tier == "thorough" else 120, seed + 1)
    from py_gql.schema import InputObjectType, InterfaceType, ObjectType
    names = sorted({f.name for t in schema.types.values() if isinstance(t, (ObjectType, InterfaceType, InputObjectType)) and
                    not t.name.startswith("__") for f in t.fields} | {t for t in schema.types if not t.startswith("__")})
    for text, _v in gen:
        texts.append(text)
        texts += mutations(text, rnd, names)
    for text, _v in H.OPERATIONS:
        texts.append(text)
        texts += mutations(text, rnd, names)
    for t in adversarial():
        texts += mutations(t, rnd, names)
    # syntactically valid executable documents over arbitrary names (derivation corpus)
    for entry, toks in gen_docs.corpus(tier, seed):
        if entry == "document":
            texts.append(gen_docs.render(toks))
    texts = list(dict.fromkeys(texts))
    jobs = 16
    size = max(1, len(texts) // (jobs * 4))
    chunks = [texts[i:i + size] for i in range(0, len(texts), size)]
    n = valid = 0
    with mp.get_context("fork").Pool(jobs) as pool:
        for k, v, fails in pool.imap_unordered(_chunk, chunks):
            n += k
            valid += v
            for clause, w, detail in fails:
                run.violation(clause, detail, w, True)
    if n == 0 or valid == 0:
        raise MachineryDefect("corpus is vacuous")
    run.cov["evaluations"] = n
    run.cov["distinct_nontrivial"] = valid
    run.cov["rule"] = "%d hand-written adversarial documents, generated valid operations and single-token mutations of all of them that still parse, plus the " \
                      "derivation corpus over arbitrary names; non-trivial = documents validate_ast accepts (then executed)" % len(adversarial())
    run.cov["bounded_functions"].append({"functions": ["validate_ast", "default_validator", "all rule visitors", "TypeInfoVisitor", "VariablesCollector",
                                                       "overlapping_fields_can_be_merged.*"], "bound": "%d parseable documents (%d accepted and executed)" % (n, valid)})
    run.sample({"document": ADVERSARIAL[1], "contract": "validate_ast returns its error list without raising; if empty, execution == reference"})
    run.assume("no deductive obligation yet: exception-escape analysis over the visitor-based validator is outside the VC generator's subset")
    # static escape obligations over the validator's source (explicit raises, guarded schema lookups)
    from vf import escapestatic
    backend = "explicit-raise / guard analysis"
    eobs = escapestatic.obligations()
    if not eobs:
        raise MachineryDefect("no escape obligation generated")
    run.cov["functions_under_contract"].append("py_gql.validation.* (explicit exception escape)")
    for o in eobs:
        run.cov["obligations"] += 1
        run.cov["backends"][backend] = run.cov["backends"].get(backend, 0) + 1
        if o["holds"]:
            run.cov["discharged"] += 1
        else:
            run.violation(o["id"], o["detail"], {"site": o["id"], "detail": o["detail"]}, False, extra={"obligation": o["id"], "solver": backend, "solver_status": "refuted"})
    return run.finish("other", "bounded stand-in: validate_ast never raises on any enumerated parseable document; every accepted operation executes without "
                               "internal exception and with the shape the reference executor determines",
                      checker_cmd="./check C05 --tier %s" % tier)
