"""C08 - results do not depend on runtime, executor variant or completion order."""
import multiprocessing as mp
import random

from vf import engine_p
from vf import execharness as H
from vf.props.c04 import abandoned_below, compare
from vf.report import MachineryDefect, Run

DEFERRED_SETS = [
    [("Query", "me"), ("Person", "name"), ("Person", "age")],
    [("Query", "people"), ("Person", "friends"), ("Person", "strict"), ("Query", "count")],
    [("Person", "pets"), ("Dog", "name"), ("Cat", "name"), ("Cat", "lives"), ("Person", "best"), ("Dog", "owner"), ("Cat", "owner")],
    [("Query", "named"), ("Query", "owned"), ("Query", "echo"), ("Query", "color"), ("Person", "scores"), ("Person", "color")],
    [("Mutation", "a"), ("Mutation", "b"), ("Mutation", "c"), ("Mutation", "d"), ("Person", "name")],
]

OPS = [
    ("{ me { name age } count }", {}),
    ("{ me { name strict age } me { age } }", {}),
    ("{ people { name friends { name } strict } count }", {}),
    ("{ me { pets { ... on Dog { name } ... on Cat { name lives } } best { ... on Named { name } } } }", {}),
    ("{ owned { owner { name } ... on Dog { owner { age } } } named { name } }", {}),
    ("{ echo color me { scores color } }", {}),
    # arguments named like parameters that wrappers between the executor and the resolver are likely to have: they are the resolver's keyword arguments only
    ("{ echo(func: \"f\", fn: \"g\", args: \"a\", kwargs: \"k\", self: \"s\", cls: \"c\", callback: \"b\", value: \"v\") count }", {}),
    ("mutation { a(n: 1) b { name } c d }", {}),
]


def explore(schema, query, variables, world, config, exp, cap, w, eager=()):
    """all completion orders (stateless DFS) up to `cap` schedules; returns (runs, tasks_max, failures)"""
    fails, runs, tmax = [], 0, 0
    kinds = w.setdefault("_outcomes", set()) if isinstance(w, dict) else set()
    prefix = []
    while prefix is not None and runs < cap:
        sched = H.Schedule(prefix)
        got = H.run_request(schema, query, variables, world, config, schedule=sched, eager=eager)
        runs += 1
        tmax = max(tmax, got.get("tasks", 0))
        if isinstance(w, dict) and not eager:
            w.setdefault("_in_flight", {})[config] = max(w.get("_in_flight", {}).get(config, 0), got.get("max_parked", 0))
        kinds.add(got["outcome"])
        ww = dict({k: v for k, v in w.items() if not k.startswith("_")}, config=config, schedule=list(sched.taken), completed_at_submit=sorted(eager))
        if got["outcome"] == "pending":
            fails.append(("execute:completes-when-all-resolvers-completed", ww, "all parked resolver tasks were run but the overall result is still pending"))
        else:
            bad = compare(exp, got, ignore_below=abandoned_below(world))
            if bad:
                fails.append((bad[0].replace("execute:", "runtime:"), ww, "%s under completion order %r: %s" % (config, sched.taken, bad[1])))
        prefix = H.next_prefix(sched)
    return runs, tmax, fails, prefix is None


def _chunk(args):
    items, cap = args
    fails, n, orders, exhaustive, tmax, tp_tasks = [], 0, 0, 0, 0, 0
    for query, variables, wname, world, dset in items:
        ref_schema = H.make_schema()
        exp = H.reference(ref_schema, query, variables, world)
        w = {"query": query, "world": wname, "deferred": [".".join(x) for x in dset]}
        w["_outcomes"] = set()
        for cfg in ("blocking-executor", "executor-blocking"):
            got = H.run_request(H.make_schema(dset), query, variables, world, cfg)
            w["_outcomes"].add(got["outcome"])
            n += 1
            bad = compare(exp, got, ignore_below=abandoned_below(world))
            if bad:
                fails.append((bad[0].replace("execute:", "runtime:"), dict({k: v for k, v in w.items() if not k.startswith("_")}, config=cfg), "%s: %s" % (cfg, bad[1])))
        # the asyncio runtime in its default mode (plain resolvers offloaded to worker threads): same outcome, data, errors and resolver invocations
        got = H.run_request(H.make_schema(dset), query, variables, world, "executor-asyncio-offload")
        w["_outcomes"].add(got["outcome"])
        n += 1
        bad = compare(exp, got, ignore_below=abandoned_below(world))
        if bad:
            fails.append((bad[0].replace("execute:", "runtime:"), dict({k: v for k, v in w.items() if not k.startswith("_")}, config="executor-asyncio-offload"),
                          "executor-asyncio-offload: %s" % bad[1]))
        # ... and the thread-pool runtime on real worker threads
        got = H.run_request_unguarded(H.make_schema(dset), query, variables, world, "executor-threadpool-real")
        w["_outcomes"].add(got["outcome"])
        n += 1
        bad = compare(exp, got, ignore_below=abandoned_below(world))
        if bad:
            fails.append((bad[0].replace("execute:", "runtime:"), dict({k: v for k, v in w.items() if not k.startswith("_")}, config="executor-threadpool-real"),
                          "executor-threadpool-real: %s" % bad[1]))
        for cfg, asyn in (("executor-threadpool", False), ("executor-asyncio", True)):
            r, t, f, ex = explore(H.make_schema(dset, asynchronous=asyn), query, variables, world, cfg, exp, cap, w)
            n += r
            orders += r
            tmax = max(tmax, t)
            exhaustive += ex
            fails += f
            if cfg == "executor-threadpool":
                tp_tasks = max(tp_tasks, t)
            if cfg == "executor-threadpool" and t:
                # some pool tasks finish before the submitting thread goes on: every subset of the first submissions
                import itertools
                k = min(t, 4)
                for mask in itertools.product((0, 1), repeat=k):
                    eager = tuple(i for i, b in enumerate(mask) if b)
                    if not eager:
                        continue
                    r2, _t2, f2, _ex2 = explore(H.make_schema(dset), query, variables, world, cfg, exp, max(4, cap // 8), w, eager=eager)
                    n += r2
                    orders += r2
                    fails += f2
        # whatever reading a configuration takes where the specification leaves a choice (a request failure or a field error for an unrepresentable
        # leaf), all configurations take the same one
        # "every order in which pending results become available": what the thread pool has in flight together, the asyncio runtime has too (a runtime that
        # starts the second deferred sibling only when the first is done cannot see them complete in the other order - or ever, if they wait for each other)
        fl = w.pop("_in_flight", {})
        # (requests that fail as a whole, or abandon work below a failed list, stop starting resolvers at different moments: not compared)
        if exp[0] == "result" and not abandoned_below(world) and fl.get("executor-asyncio", 0) < fl.get("executor-threadpool", 0):
            fails.append(("runtime:deferred-siblings-are-in-flight-together", dict({k: v for k, v in w.items() if not k.startswith("_")}, in_flight=fl),
                          "the thread pool runtime had %d resolver tasks pending at once, the asyncio runtime never more than %d" % (fl["executor-threadpool"], fl.get("executor-asyncio", 0))))
        outs = {o for o in w.pop("_outcomes", set()) if o in ("result", "exception")}
        if len(outs) > 1:
            fails.append(("runtime:configurations-agree-on-the-kind-of-outcome", dict(w), "for the same request some configurations return a result and others fail the request"))
    return n, orders, exhaustive, tmax, fails, tp_tasks


def gather_contract(run):
    """Runtime.gather_values(values) as resolvers may call it through `info.runtime`: the aggregate is the list of the values the members stand for, position by position -
    plain members as they are, pending members by their results - whatever the order in which the pending ones complete, also when ONE pending value stands at several
    positions (a loader memo) and when members are already done; the first failure fails the aggregate.  Thread-pool and asyncio runtimes, all member lists <= 4 over
    {plain, pending A, pending B, done C}, every completion order."""
    import asyncio
    import itertools
    from concurrent.futures import Future
    from py_gql.execution.runtime import AsyncIORuntime, ThreadPoolRuntime
    n = 0
    values = {"A": 10, "B": 20, "C": 30}
    shapes = [t for k in range(1, 5) for t in itertools.product(["p", "A", "B", "C"], repeat=k) if any(x in ("A", "B") for x in t)]
    rt = ThreadPoolRuntime(max_workers=1)
    try:
        for shape in shapes:
            pend = sorted({x for x in shape if x in ("A", "B")})
            for order in itertools.permutations(pend):
                for failing in [None] + pend:
                    futs = {k: Future() for k in ("A", "B", "C")}
                    futs["C"].set_result(values["C"])
                    agg = rt.gather_values([futs[x] if x != "p" else 7 for x in shape])
                    for k in order:
                        if k == failing:
                            futs[k].set_exception(ValueError(k))
                        else:
                            futs[k].set_result(values[k])
                    n += 1
                    w = {"runtime": "thread pool", "members": list(shape), "completion_order": list(order), "failing": failing}
                    try:
                        got = agg.result(timeout=2) if isinstance(agg, Future) else agg
                        outcome = ("ok", got)
                    except ValueError as e:
                        outcome = ("failed", str(e))
                    except Exception as e:
                        outcome = ("other", repr(e))
                    want = ("failed", failing) if failing else ("ok", [values[x] if x != "p" else 7 for x in shape])
                    if outcome != want:
                        run.violation("gather_values:aggregate-is-the-list-of-member-values", "gather_values over %s, completed in order %s%s, gives %r; expected %r" % (
                            list(shape), list(order), " (%s failing)" % failing if failing else "", outcome, want), w, True)
    finally:
        rt._inner.shutdown(wait=False) if hasattr(rt, "_inner") else None

    async def one(shape, order):
        loop = asyncio.get_event_loop()
        art = AsyncIORuntime(loop=loop) if "loop" in AsyncIORuntime.__init__.__code__.co_varnames else AsyncIORuntime()
        futs = {k: loop.create_future() for k in ("A", "B", "C")}
        futs["C"].set_result(values["C"])
        agg = art.gather_values([futs[x] if x != "p" else 7 for x in shape])
        for k in order:
            futs[k].set_result(values[k])
        return await asyncio.wait_for(art.ensure_wrapped(agg), 2)
    for shape in shapes:
        pend = sorted({x for x in shape if x in ("A", "B")})
        for order in itertools.permutations(pend):
            n += 1
            try:
                got = asyncio.new_event_loop().run_until_complete(one(shape, order))
            except Exception as e:
                got = repr(e)
            want = [values[x] if x != "p" else 7 for x in shape]
            if list(got) != want if isinstance(got, (list, tuple)) else True:
                run.violation("gather_values:aggregate-is-the-list-of-member-values", "asyncio gather_values over %s gives %r; expected %r" % (list(shape), got, want),
                              {"runtime": "asyncio", "members": list(shape), "completion_order": list(order)}, True)
    return n


def check(tier, seed):
    run = Run("C08", tier, seed)
    rnd = random.Random(seed)
    schema = H.make_schema()
    items = []
    for (query, variables), dset in [(o, d) for o in OPS for d in DEFERRED_SETS]:
        # only pairs where some deferred field is actually selected
        if not any(f in query for _t, f in dset):
            continue
        _name, worlds = H.worlds_for(schema, query, variables, with_boom=True, limit=None)
        if tier != "thorough":
            bad = [x for x in worlds if x[0].startswith(("badleaf@", "boom-index@", "boom-key@", "boom-lib@", "shared-error@"))]
            worlds = worlds[:1] + rnd.sample(worlds[1:], min(len(worlds) - 1, 6))
            worlds += [x for x in bad if x not in worlds and (not x[0].startswith("badleaf@") or x in (bad[0], bad[-1]))]      # fixed members
        for wname, world in worlds:
            items.append((query, variables, wname, world, dset))
    cap = 720 if tier == "thorough" else 48
    jobs = 16
    size = max(1, len(items) // (jobs * 4))
    chunks = [(items[i:i + size], cap) for i in range(0, len(items), size)]
    n = orders = exhaustive = tmax = tp = 0
    ctx = mp.get_context("fork")
    with ctx.Pool(jobs) as pool:
        for k, o, ex, t, fails, tpt in pool.imap_unordered(_chunk, chunks):
            tp = max(tp, tpt)
            n += k
            orders += o
            exhaustive += ex
            tmax = max(tmax, t)
            for clause, w, detail in fails:
                run.violation(clause, detail, w, True)
    if orders == 0 or tmax < 2 or tp < 2:
        raise MachineryDefect("no multi-task schedule was explored (tasks max %d, thread-pool tasks max %d)" % (tmax, tp))
    run.cov["evaluations"] = n
    run.cov["distinct_nontrivial"] = orders
    run.cov["parts"]["schedules"] = {"requests": len(items), "executions": n, "completion_orders_explored": orders,
                                     "requests_explored_exhaustively": exhaustive, "max_tasks_in_one_request": tmax, "max_pool_tasks_in_one_request": tp, "cap_per_request": cap}
    run.cov["rule"] = "%d (operation, deferred field set, world) triples; for the thread-pool and asyncio runtimes every completion order of the parked " \
                      "resolver tasks is enumerated by stateless DFS up to %d orders per request; distinct = distinct (request, order)" % (len(items), cap)
    run.cov["bounded_functions"].append({"functions": ["runtime.threadpool.chain", "gather_futures", "unwrap_future", "AsyncIORuntime.map_value",
                                                       "gather_values", "unwrap_value", "wrap_callable", "Executor.*", "BlockingExecutor.*"],
                                         "bound": "%d completion orders over %d requests; callbacks run atomically on one thread" % (orders, len(items))})
    run.sample({"operation": OPS[2][0], "deferred": [".".join(x) for x in DEFERRED_SETS[1]], "schedule": [1, 0, 2, 0]})
    run.trusted("vf/ref_exec.py; the parking executor stands for concurrent.futures.ThreadPoolExecutor (done-callbacks run atomically)")
    run.assume("pre-emptive thread interleavings inside done-callbacks (gather_futures.on_finish counter, double set_result) are outside this family's "
               "reach: callbacks are atomic here; fair termination for unbounded operations is not decided")
    run.cov["evaluations"] += gather_contract(run)
    run.cov["bounded_functions"].append({"functions": ["ThreadPoolRuntime.gather_values / gather_futures", "AsyncIORuntime.gather_values"],
                                         "bound": "member lists <= 4 over {plain, two pending (possibly repeated), one done} x completion orders x one failing member"})
    engine_p.run(run, 'C08')
    return run.finish("other", "BlockingRuntime.map_value checked against the map_value effect contract (Engine P); bounded stand-in: every configuration satisfies the same functional contract as C04 (reference executor) for every "
                               "enumerated completion order; equality across configurations is a corollary; unexpected exceptions fail the result; "
                               "nothing stays pending once all tasks have run",
                      checker_cmd="./check C08 --tier %s" % tier)
