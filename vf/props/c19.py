"""C19 - depth limiting flags exactly the operations deeper than the limit.

Contract on MaxDepthValidationRule.__call__ (run-time, bounded): for every document, limit, operation
filter and variable assignment the returned errors name exactly the operations (matching the filter)
whose reference depth exceeds the limit; nothing is raised.  Reference depth (from the property
statement and the class docstring): the longest chain of nested fields *below* a top-level field,
looking through inline fragments and fragment spreads at every level including the top of the
operation, honouring @skip/@include under the given variables; a flat operation has depth 0.
"""
import itertools

from vf import engine_p
from vf.report import MachineryDefect, Run

WRAPS = ("none", "inline", "typed", "spread")


def build_doc(depth, wraps, side=None, skip_at=None, op_name="Q"):
    """operation whose main chain has `depth` levels below the root field; wraps[i] says how the
    selection set at level i (0 = operation level) is wrapped; side = depth of a second, shallower
    branch at level 1; skip_at = level whose field carries @skip(if: $s)."""
    frags = []

    def sel(level):
        # selection set content at `level` (level 0: root fields)
        name = "f%d" % level
        inner = ""
        if level <= depth:
            sub = sel(level + 1) if level < depth else ""
            directive = " @skip(if: $s)" if skip_at == level else ""
            inner = name + directive + ((" { %s }" % sub) if sub else "")
            if level == 1 and side is not None:
                chain = "leaf"
                for k in range(side - 1):
                    chain = "s%d { %s }" % (k, chain)
                inner += " " + chain
        w = wraps[level] if level < len(wraps) else "none"
        if w == "inline":
            return "... { %s }" % inner
        if w == "typed":
            return "... on T { %s }" % inner
        if w == "spread":
            fname = "F%d" % len(frags)
            frags.append("fragment %s on T { %s }" % (fname, inner))
            return "...%s" % fname
        return inner
    body = sel(0)
    head = "query %s($s: Boolean = false)" % op_name if op_name else "query ($s: Boolean = false)"
    return "%s { %s } %s" % (head, body, " ".join(frags))


def ref_depth_of(doc, op, variables):
    from py_gql.lang import ast as A
    frags = {d.name.value: d for d in doc.definitions if isinstance(d, A.FragmentDefinition)}

    def skipped(node):
        for d in node.directives:
            if d.name.value in ("skip", "include"):
                for a in d.arguments:
                    if a.name.value == "if":
                        v = a.value
                        val = variables.get(v.name.value, False) if isinstance(v, A.Variable) else v.value
                        if d.name.value == "skip" and val:
                            return True
                        if d.name.value == "include" and not val:
                            return True
        return False

    def fields(selections, seen):
        for s in selections:
            if skipped(s):
                continue
            if isinstance(s, A.Field):
                yield s
            elif isinstance(s, A.InlineFragment):
                yield from fields(s.selection_set.selections, seen)
            elif isinstance(s, A.FragmentSpread) and s.name.value in frags and s.name.value not in seen:
                yield from fields(frags[s.name.value].selection_set.selections, seen | {s.name.value})

    def levels(selections, seen):
        best = 0
        for f in fields(selections, seen):
            sub = levels(f.selection_set.selections, seen) if f.selection_set else 0
            best = max(best, 1 + sub)
        return best
    return max(0, levels(op.selection_set.selections, frozenset()) - 1)


def cases(tier):
    maxd = 4 if tier == "thorough" else 3
    for depth in range(0, maxd + 1):
        for wraps in itertools.product(WRAPS, repeat=depth + 1):
            if tier != "thorough" and sum(w != "none" for w in wraps) > 2:
                continue
            yield build_doc(depth, wraps), {"s": False}
        yield build_doc(depth, ("none",) * (depth + 1), side=max(1, depth - 1)), {"s": False}
        for lvl in range(0, depth + 1):
            for sv in (False, True):
                yield build_doc(depth, ("none",) * (depth + 1), skip_at=lvl), {"s": sv}
                yield build_doc(depth, ("spread",) + ("none",) * depth, skip_at=lvl, side=1), {"s": sv}
    # the steering variable left to its declared default (the rule is handed the RAW variables of the request)
    for depth in (1, 2, 3):
        for lvl in range(0, depth + 1):
            yield build_doc(depth, ("none",) * (depth + 1), skip_at=lvl), {}
            yield build_doc(depth, ("spread",) + ("inline",) * depth, skip_at=lvl).replace("= false", "= true"), {}
    # several operations, anonymous operation, repeated root field, same fragment used twice
    yield "query A { a { b { c } } } query B { x } query C { y { z } }", {}
    yield "{ a { b } }", {}
    yield "{ a }", {}
    yield "{ hero { name } hero { friends { friends { name } } } }", {}
    yield "{ hero { ...F mentor { mentor { ...F } } } } fragment F on T { a { b } }", {}
    yield "{ ...F } fragment F on T { a { ...G } } fragment G on T { b { c } }", {}
    yield "query A { ... on T { a { b { c { d } } } } }", {}
    # same response name selected twice below the root with different depths (merged selection sets)
    yield "{ hero { f { a } f { b { c } } } }", {}
    yield "{ hero { f { b { c } } f { a } } }", {}
    yield "{ hero { x: f { a } ... on T { x: f { b { c { d } } } } } }", {}
    # one field selected under several aliases with different depths below each (every alias is a path of its own), deep one first and last
    yield "{ hero { a: friends { name } b: friends { friends { friends { name } } } } }", {}
    yield "{ hero { b: friends { friends { friends { name } } } a: friends { name } } }", {}
    yield "{ x: hero { name } y: hero { friends { friends { name } } } z: hero { name } }", {}
    yield "{ hero { friends { name } deep: friends { friends { friends { friends { name } } } } } }", {}
    # several operations declaring the same steering variable with different defaults: each operation is measured with its own defaults, in any order
    for first, second in (("false", "true"), ("true", "false")):
        for shape in ("query Shallow($deep: Boolean = %s) { a { b @include(if: $deep) { c { d } } } } query Deep($deep: Boolean = %s) { a { b @include(if: $deep) { c { d } } } }",
                      "query One($off: Boolean = %s) { a { b @skip(if: $off) { c } x } } query Two($off: Boolean = %s) { a { ...F @skip(if: $off) } } fragment F on T { b { c { d } } }"):
            yield shape % (first, second), {}
    # response keys that merely look like meta fields, and the meta fields themselves, are fields like any other for the depth
    yield "{ __x: a { b { c { d } } } y: a }", {}
    yield "{ a __deep: hero { friends { friends { name } } } }", {}
    yield "{ __schema { types { fields { type { name } } } } }", {}
    yield "{ a { __typename b { __typename } } }", {}
    # both conditions on one selection, in both orders: skipped when @skip says so OR @include says not to include
    for sk, inc in ((True, True), (True, False), (False, True), (False, False)):
        for order in ("@skip(if: %s) @include(if: %s)" % (str(sk).lower(), str(inc).lower()), "@include(if: %s) @skip(if: %s)" % (str(inc).lower(), str(sk).lower())):
            yield "{ a { b %s { c { d } } } x }" % order, {}
            yield "{ a { ... %s { b { c { d } } } } x }" % order, {}
        yield "query ($s: Boolean!, $i: Boolean!) { a { ...F @skip(if: $s) @include(if: $i) } x } fragment F on T { b { c { d } } }", {"s": sk, "i": inc}
    # the same fragment spread twice in one selection set, one spread switched off (either one, by literal or by variable; at the top and below a field)
    deep = " fragment Deep on T { a { b { c } } } fragment Flat on T { z }"
    for first, second in (("@include(if: $a)", "@include(if: $b)"), ("@skip(if: $b)", "@skip(if: $a)"), ("@skip(if: true)", ""), ("", "@skip(if: true)"),
                          ("@include(if: false)", "@include(if: true)")):
        for va, vb in ((False, True), (True, False), (True, True), (False, False)):
            yield "query Q($a: Boolean!, $b: Boolean!) { ...Deep %s ...Flat ...Deep %s }%s" % (first, second, deep), {"a": va, "b": vb}
            yield "query Q($a: Boolean!, $b: Boolean!) { hero { ...Deep %s x ...Deep %s } }%s" % (first, second, deep), {"a": va, "b": vb}
            yield "query Q($a: Boolean!, $b: Boolean!) { hero { ... on T { ...Deep %s } ...Deep %s } }%s" % (first, second, deep), {"a": va, "b": vb}


def check(tier, seed):
    from py_gql.lang import ast as A, parse
    from py_gql.utilities import MaxDepthValidationRule
    run = Run("C19", tier, seed)
    n = nontrivial = 0
    seen_docs = set()
    for text, variables in cases(tier):
        doc = parse(text)
        ops = [d for d in doc.definitions if isinstance(d, A.OperationDefinition)]
        def effective(o):
            # what the executor would see: provided values, else the default the operation declares
            from vf import ref_coerce as RC
            out = {vd.variable.name.value: RC.untyped(vd.default_value, {}) for vd in o.variable_definitions if vd.default_value is not None}
            out.update(variables)
            return out
        depths = {(o.name.value if o.name else None): ref_depth_of(doc, o, effective(o)) for o in ops}
        filters = [None] + [k for k in depths if k] + ["NoSuchOperation"]      # a filter naming no operation of the document: nothing may be measured
        if (text, tuple(sorted(variables.items()))) not in seen_docs:
            seen_docs.add((text, tuple(sorted(variables.items()))))
            nontrivial += 1
        for limit in range(0, 6):
            for flt in filters:
                n += 1
                w = {"document": text, "variables": variables, "limit": limit, "operation_name": flt, "reference_depths": {str(k): v for k, v in depths.items()}}
                try:
                    errs = MaxDepthValidationRule(limit, operation_name=flt)(None, parse(text), dict(variables))
                except Exception as e:
                    run.violation("MaxDepthValidationRule:never-raises", "raised %r (reference depths %r)" % (e, depths),
                                  dict(w, exc=type(e).__name__, flat=all(v == 0 for v in depths.values())), True)
                    continue
                flagged = sorted(str(e.nodes[0].name.value if e.nodes and e.nodes[0].name else None) for e in errs)
                want = sorted(str(k) for k, v in depths.items() if v > limit and (flt is None or k == flt))
                if flagged != want:
                    under = [k for k in want if k not in flagged]
                    run.violation("MaxDepthValidationRule:flags-exactly-deeper", "limit %d, filter %r: flagged %r, reference says %r (depths %r)"
                                  % (limit, flt, flagged, want, depths),
                                  dict(w, flagged=flagged, expected=want, missed=under,
                                       top_level_fragment=any(not isinstance(s, A.Field) for o in ops for s in o.selection_set.selections)), True)
    # the rule also runs when the variables are not at hand (as a plain validator), are null, or of the wrong kind: wherever the steering directive stands - root,
    # nested field, inline fragment, fragment - it raises nothing (what it reports then is not specified, it cannot know)
    for depth in (1, 2, 3):
        for lvl in range(0, depth + 1):
            for text in (build_doc(depth, ("none",) * (depth + 1), skip_at=lvl).replace("= false", ""),
                         build_doc(depth, ("spread",) + ("inline",) * depth, skip_at=lvl).replace("= false", ""),
                         build_doc(depth, ("inline",) + ("spread",) * depth, skip_at=lvl, side=1).replace("= false", "")):
                for variables in (None, {}, {"s": None}, {"s": "yes"}, {"s": [True]}, {"other": 1}):
                    for limit in (0, 2):
                        n += 1
                        try:
                            list(MaxDepthValidationRule(limit)(None, parse(text), variables) or [])
                        except Exception as e:
                            run.violation("MaxDepthValidationRule:never-raises", "raised %r with variables %r (steering directive at level %d)" % (e, variables, lvl),
                                          {"document": text, "variables": variables, "limit": limit, "exc": type(e).__name__, "flat": False}, True)
    if n == 0:
        raise MachineryDefect("no cases")
    run.cov["evaluations"] = n
    run.cov["distinct_nontrivial"] = nontrivial
    run.cov["rule"] = "documents = field chains of depth 0..%d with every wrapper assignment (none / inline / typed inline / named spread) per level " \
                      "(quick: at most 2 wrapped levels), side branches, @skip at each level with both variable values, multi-operation documents; " \
                      "x limits 0..5 x operation filters; distinct = distinct (document, variables)" % (4 if tier == "thorough" else 3)
    run.cov["bounded_functions"].append({"functions": ["py_gql.utilities.max_depth.MaxDepthValidationRule.__call__", "collect_fields.selected_fields"],
                                         "bound": "%d (document, limit, filter) cases" % n})
    run.sample({"document": build_doc(2, ("inline", "none", "spread")), "reference_depth": 2})
    run.trusted("reference depth function in vf/props/c19.py (from the property statement and the class docstring)")
    run.assume("no deductive obligation: __call__ is a generator pipeline over selected_fields (outside the VC generator's subset); bounded contract only")
    engine_p.run(run, 'C19')
    return run.finish("other", "bounded stand-in: verdict == reference depth function on every enumerated (document, limit, filter, variables)",
                      checker_cmd="./check C19 --tier %s" % tier)
