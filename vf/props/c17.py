"""C17 - subscriptions map each source event to one isolated result, in order."""
import asyncio
import itertools

from vf import engine_p
from vf import execharness as H
from vf.report import MachineryDefect, Run

SDL = '''
type Person { name: String  age: Int  strict: String!  friends: [Person] }
type Query { ok: Int }
type Mutation { m: Int }
type Subscription { tick: Int  ping: Person  plain: Int }
'''

SELECTIONS = [
    "subscription { ping { name age } }",
    "subscription { ping { name friends { name strict } } }",
    "subscription S { p: ping { n: name strict } }",
    "subscription { tick }",
    "subscription { ...F } fragment F on Subscription { ping { age name } }",
]


class Source:
    """finite async event stream that counts how often it is advanced"""

    def __init__(self, events, delays):
        self.events, self.delays = list(events), list(delays)
        self.i = 0
        self.advanced = 0

    def __aiter__(self):
        return self

    async def __anext__(self):
        self.advanced += 1
        if self.i >= len(self.events):
            raise StopAsyncIteration
        for _ in range(self.delays[self.i % len(self.delays)] if self.delays else 0):
            await asyncio.sleep(0)
        ev = self.events[self.i]
        self.i += 1
        return ev


class QueueSource:
    """a live source: events arrive on a queue while the consumer waits; END closes it"""
    END = object()

    def __init__(self, queue):
        self.queue = queue
        self.advanced = 0

    def __aiter__(self):
        return self

    async def __anext__(self):
        self.advanced += 1
        ev = await self.queue.get()
        if ev is QueueSource.END:
            raise StopAsyncIteration
        return ev


class Reiterable:
    """an async ITERABLE that is not its own iterator: every __aiter__() starts a fresh pass over the events (the response stream must take one iterator, once)"""

    def __init__(self, events, delays, sources):
        self.events, self.delays, self.sources = events, delays, sources

    def __aiter__(self):
        src = Source(self.events, self.delays)
        self.sources.append(src)
        return src


def make_schema(sources, async_resolver, with_resolver=True):
    from py_gql import build_schema
    from py_gql.exc import ResolverError
    s = build_schema(SDL)

    def name_resolver(root, ctx, info):
        if isinstance(root, dict) and root.get("bad"):
            raise ResolverError("bad %s" % root.get("bad"), extensions={"event": root.get("bad")})
        return root.get("name") if isinstance(root, dict) else None
    s.register_resolver("Person", "name", name_resolver)
    if with_resolver:
        if async_resolver:
            async def sub(root, ctx, info, **kw):
                await asyncio.sleep(0)
                if ctx.get("fail"):
                    raise RuntimeError("source cannot be created")
                src = Source(ctx["events"], ctx["delays"])
                sources.append(src)
                return src
        else:
            def sub(root, ctx, info, **kw):
                if ctx.get("fail"):
                    raise RuntimeError("source cannot be created")
                if ctx.get("reiterable"):
                    return Reiterable(ctx["events"], ctx["delays"], sources)
                if ctx.get("queue") is not None:
                    src = QueueSource(ctx["queue"])
                    sources.append(src)
                    return src
                src = Source(ctx["events"], ctx["delays"])
                sources.append(src)
                return src
        for f in ("tick", "ping"):
            s.register_subscription("Subscription", f, sub)
    return s


def _name_behaviour(parent, field, path):
    """what make_schema's name_resolver does, as a world function for the reference executor"""
    if parent is None or isinstance(parent, (int, str)) or (len(path) == 1 and isinstance(parent, dict) and field not in parent):
        return ("null",)          # a None / scalar event: the library's default resolver finds nothing on it (an event is the root VALUE, not the field's value)
    if field == "name" and isinstance(parent, dict) and parent.get("bad"):
        return ("error", "bad %s" % parent["bad"], {"event": parent["bad"]})
    return None


def person(k, bad=False, nested_bad=False):
    p = {"name": "n%d" % k, "age": k, "strict": "s%d" % k,
         "friends": [{"name": "f%d" % k, "strict": None if nested_bad else "x", "bad": ("f%d" % k) if nested_bad else None}]}
    if bad:
        p["bad"] = "e%d" % k
    return p


def event_sequences(tier):
    kinds = ("ok", "bad", "nested", "none", "scalar", "falsy")          # "falsy": an empty mapping / zero - events too, not "no event"        # "none" / "scalar": the source yields None / a bare number - events like any other (one result each)
    maxlen = 4 if tier == "thorough" else 3
    for n in range(0, maxlen + 1):
        for combo in itertools.product(kinds, repeat=n):
            yield [None if c == "none" else (100 + k) if c == "scalar" else ({} if k % 2 == 0 else 0) if c == "falsy" else {"ping": person(k, bad=c == "bad", nested_bad=c == "nested"), "tick": k} for k, c in enumerate(combo)], combo


def check(tier, seed):
    from py_gql.exc import ExecutionError
    from py_gql.execution import subscribe
    from py_gql.execution.runtime import AsyncIORuntime, BlockingRuntime
    from py_gql.lang import parse
    run = Run("C17", tier, seed)
    n = nontrivial = 0

    def consume(schema, query, events, delays, sources, runtime_factory=None, variables=None, reiterable=False, fail=False, instrumentation=None, style="for"):
        loop = asyncio.new_event_loop()
        try:
            asyncio.set_event_loop(loop)
            rt = AsyncIORuntime(loop=loop) if runtime_factory is None else runtime_factory()

            async def go():
                stream = await subscribe(schema, parse(query), variables=variables, context_value={"events": events, "delays": delays, "reiterable": reiterable, "fail": fail}, runtime=rt,
                                         instrumentation=instrumentation, initial_value={"ping": person(99), "tick": 99})          # (the root value of the subscription resolver; no event is it)
                out = []
                if style == "resume":
                    # the consumer takes one result, leaves its loop, and comes back for the rest: the response stream is ONE pass over the source events
                    async for res in stream:
                        out.append(res)
                        break
                elif style == "anext":
                    # an async iterator may be advanced without asking it for an iterator first
                    try:
                        out.append(await stream.__anext__())
                    except StopAsyncIteration:
                        return out
                async for res in stream:
                    out.append(res)
                    await asyncio.sleep(0)
                    if len(out) > len(events) + 3:
                        break          # a finite source must give a finite response stream: the surplus is reported by the length comparison below
                return out
            return loop.run_until_complete(go())
        finally:
            asyncio.set_event_loop(None)
            loop.close()

    ref_schema = make_schema([], False)
    for query in SELECTIONS:
        for events, combo in event_sequences(tier):
            for async_resolver, reiterable in ((False, False), (True, False), (False, True)):
                for delays in ([0], [2, 0, 1]):
                    if reiterable and delays != [0]:
                        continue
                    sources = []
                    schema = make_schema(sources, async_resolver)
                    n += 1
                    style = ("for", "resume", "anext")[n % 3]
                    w = {"query": query, "events": list(combo), "async_subscription_resolver": async_resolver, "delays": delays, "source_is_its_own_iterator": not reiterable,
                         "consumer": {"for": "one `async for`", "resume": "`async for`, break after one result, `async for` again", "anext": "first result by __anext__(), then `async for`"}[style]}
                    try:
                        results = consume(schema, query, events, delays, sources, reiterable=reiterable, style=style)
                    except Exception as e:
                        run.violation("subscribe:stream-completes", "consuming the response stream raised %r" % (e,), dict(w, exc=type(e).__name__), True)
                        continue
                    nontrivial += bool(events)
                    if len(results) != len(events):
                        run.violation("subscribe:one-result-per-event", "%d source events, %d results" % (len(events), len(results)), w, True)
                        continue
                    for k, (ev, res) in enumerate(zip(events, results)):
                        exp = H.reference(ref_schema, query, None, {"__fn__": _name_behaviour}, root=ev)
                        if exp[0] != "result":
                            raise MachineryDefect("reference cannot execute %r" % query)
                        if H.plain(res.data) != exp[1]:
                            run.violation("subscribe:kth-result-is-the-kth-event", "event %d: data %r, executing the selection on that event gives %r"
                                          % (k, H.plain(res.data), exp[1]), dict(w, event_index=k), True)
                            break
                        if H.lib_errors(res) != exp[2]:
                            run.violation("subscribe:errors-belong-to-their-event", "event %d: errors %r, that event alone produces %r"
                                          % (k, H.lib_errors(res), exp[2]), dict(w, event_index=k), True)
                            break
                    if len(sources) != 1:
                        run.violation("subscribe:one-source-stream", "%d source streams were created" % len(sources), w, True)
    # an event that fails unexpectedly after recording a field error must not leak that error into the next result
    for async_resolver in (False, True):
        sources = []
        schema = make_schema(sources, async_resolver)
        bad_then_boom = {"ping": dict(person(0, bad=True), age="not-a-number", strict=None), "tick": 0}
        events = [{"ping": person(1), "tick": 1}, bad_then_boom, {"ping": person(2), "tick": 2}, {"ping": person(3, bad=True), "tick": 3}]
        query = "subscription { ping { strict name age } }"
        n += 1
        loop = asyncio.new_event_loop()
        try:
            asyncio.set_event_loop(loop)

            async def go():
                stream = await subscribe(schema, parse(query), context_value={"events": events, "delays": [0]}, runtime=AsyncIORuntime(loop=loop))
                it = stream.__aiter__()
                out = []
                while True:
                    try:
                        out.append(("result", await it.__anext__()))
                    except StopAsyncIteration:
                        return out
                    except Exception as e:
                        out.append(("exception", e))
                        if len(out) > 10:
                            return out
            got = loop.run_until_complete(go())
        finally:
            asyncio.set_event_loop(None)
            loop.close()
        w = {"query": query, "events": ["ok", "field-error-then-unexpected-exception", "ok", "bad"], "async_subscription_resolver": async_resolver}
        kinds = [k for k, _v in got]
        if kinds != ["result", "exception", "result", "result"]:
            run.violation("subscribe:one-result-per-event", "outcomes %r for an event sequence whose second event fails unexpectedly" % (kinds,), w, True)
        else:
            for k, idx in ((2, 2), (3, 3)):
                exp = H.reference(ref_schema, query, None, {"__fn__": _name_behaviour}, root=events[idx])
                if H.lib_errors(got[k][1]) != exp[2]:
                    run.violation("subscribe:errors-belong-to-their-event", "result for event %d carries errors %r; that event alone produces %r"
                                  % (idx, H.lib_errors(got[k][1]), exp[2]), dict(w, event_index=idx), True)
    # a consumer that POLLS a live source: it waits for the next result with a timeout, and when nothing arrives in time the wait is cancelled and tried again later.
    # A cancelled wait loses nothing and ends nothing: every event that arrives afterwards is still delivered, in order, and the stream ends when the source ends
    for events in ([{"ping": person(1), "tick": 1}, {"ping": person(2, bad=True), "tick": 2}, {"ping": person(3), "tick": 3}], [{"ping": person(1), "tick": 1}], []):
        query = "subscription { ping { name age } }"
        schema = make_schema([], False)
        loop = asyncio.new_event_loop()
        n += 1
        try:
            asyncio.set_event_loop(loop)

            async def go():
                queue = asyncio.Queue()
                stream = await subscribe(schema, parse(query), context_value={"events": [], "delays": [0], "queue": queue}, runtime=AsyncIORuntime(loop=loop))
                it = stream.__aiter__()
                feed = list(events) + [QueueSource.END]
                out, idle, limit = [], 0, len(feed) + 4
                while idle < limit:
                    try:
                        out.append(await asyncio.wait_for(it.__anext__(), 0.4))      # (long enough that a result being produced is never cut off, even on a loaded machine)
                    except asyncio.TimeoutError:
                        idle += 1
                        if feed:
                            queue.put_nowait(feed.pop(0))
                    except StopAsyncIteration:
                        return out, True
                return out, False
            got, ended = loop.run_until_complete(go())
        except Exception as e:
            got, ended = e, False
        finally:
            asyncio.set_event_loop(None)
            loop.close()
        w = {"query": query, "events": len(events), "consumer": "asyncio.wait_for(stream.__anext__(), timeout), events fed after each timeout"}
        if isinstance(got, Exception):
            run.violation("subscribe:stream-completes", "polling the response stream raised %r" % (got,), w, True)
        elif len(got) != len(events) or not ended:
            run.violation("subscribe:one-result-per-event", "%d events arrived one by one after idle timeouts; %d results were delivered and the stream %s" % (
                len(events), len(got), "ended" if ended else "did not end with the source"), w, True)
        else:
            for k, (ev, res) in enumerate(zip(events, got)):
                exp = H.reference(ref_schema, query, None, {"__fn__": _name_behaviour}, root=ev)
                if H.plain(res.data) != exp[1] or H.lib_errors(res) != exp[2]:
                    run.violation("subscribe:kth-result-is-the-kth-event", "polled event %d: %r / %r, expected %r / %r" % (k, H.plain(res.data), H.lib_errors(res), exp[1], exp[2]), dict(w, event_index=k), True)
                    break
    # refusals, before any event is consumed
    cases = [
        ("non-subscription-operation", "{ ok }", AsyncIORuntime, True, RuntimeError),
        ("mutation-operation", "mutation { m }", AsyncIORuntime, True, RuntimeError),
        ("runtime-without-streams", "subscription { tick }", BlockingRuntime, True, RuntimeError),
        ("several-root-fields", "subscription { tick ping { name } }", AsyncIORuntime, True, ExecutionError),
        ("several-root-fields-through-fragment", "subscription { ...B } fragment B on Subscription { tick ping { name } }", AsyncIORuntime, True, ExecutionError),
        ("several-root-fields-inline", "subscription { ... on Subscription { tick t2: tick } }", AsyncIORuntime, True, ExecutionError),
        ("no-subscription-resolver", "subscription { plain }", AsyncIORuntime, True, RuntimeError),
        ("typename-next-to-a-field", "subscription { tick __typename }", AsyncIORuntime, True, ExecutionError),
        ("typename-before-a-field", "subscription { __typename tick }", AsyncIORuntime, True, ExecutionError),
        ("aliased-typename-next-to-a-field", "subscription { tick kind: __typename }", AsyncIORuntime, True, ExecutionError),
        ("typename-through-fragment", "subscription { tick ...T } fragment T on Subscription { __typename }", AsyncIORuntime, True, ExecutionError),
        ("typename-through-inline-fragment", "subscription { ... on Subscription { __typename } tick }", AsyncIORuntime, True, ExecutionError),
        ("subscription-resolver-fails", "subscription { tick }", AsyncIORuntime, True, RuntimeError),
    ]
    from py_gql.execution import Instrumentation

    class _Stage(Instrumentation):
        def __init__(self):
            self.log = []

        def on_execution_start(self):
            self.log.append("execution+")

        def on_execution_end(self):
            self.log.append("execution-")
    for label, query, rt_cls, with_res, exc_cls in cases:
        for async_resolver in (False, True):
            sources = []
            schema = make_schema(sources, async_resolver, with_res)
            n += 1
            w = {"refusal": label, "query": query}
            events = [{"tick": 1, "ping": person(1)}]
            try:
                if rt_cls is BlockingRuntime:
                    res = subscribe(schema, parse(query), context_value={"events": events, "delays": [0]}, runtime=BlockingRuntime())
                    run.violation("subscribe:refusals", "%s: accepted (%r) instead of raising %s" % (label, res, exc_cls.__name__), w, True)
                else:
                    stage = _Stage()
                    try:
                        out = consume(schema, query, events, [0], sources, fail=label == "subscription-resolver-fails", instrumentation=stage)
                    finally:
                        # whatever the refusal, an execution stage that was started has been ended (the deferred failure of an asynchronous subscription
                        # resolver included)
                        if stage.log not in ([], ["execution+", "execution-"]):
                            run.violation("subscribe:started-stage-is-ended", "%s (%s subscription resolver): execution hooks %r" % (label, "async" if async_resolver else "sync", stage.log),
                                          dict(w, hooks=stage.log), True)
                    run.violation("subscribe:refusals", "%s: accepted (%d results) instead of raising %s" % (label, len(out), exc_cls.__name__), w, True)
            except exc_cls:
                pass
            except Exception as e:
                run.violation("subscribe:refusals", "%s: raised %r instead of %s" % (label, e, exc_cls.__name__), dict(w, exc=type(e).__name__), True)
            if any(s.advanced for s in sources):
                run.violation("subscribe:refused-before-any-event", "%s: the source stream was advanced %d times before the refusal" % (label, sum(s.advanced for s in sources)), w, True)
    # a single effective root field (directive-reduced / repeated same key) is fine
    for query in ("subscription ($s: Boolean = true) { tick ping @skip(if: $s) { name } }", "subscription { tick tick }"):
        sources = []
        schema = make_schema(sources, False)
        n += 1
        try:
            out = consume(schema, query, [{"tick": 1, "ping": person(1)}], [0], sources)
            if len(out) != 1:
                run.violation("subscribe:one-result-per-event", "%r: %d results for 1 event" % (query, len(out)), {"query": query}, True)
        except Exception as e:
            run.violation("subscribe:single-effective-root-field-accepted", "%r (one root field after @skip / merging) is refused: %r" % (query, e), {"query": query}, True)
    if nontrivial == 0:
        raise MachineryDefect("no event stream consumed")
    run.cov["evaluations"] = n
    run.cov["distinct_nontrivial"] = nontrivial
    run.cov["rule"] = "%d subscription selections x all event sequences of length 0..%d over {plain event, event whose root resolver raises, event whose nested " \
                      "resolver raises / yields null for a non-null field} x sync / async subscription resolver x 2 delay patterns; 12 refusal cases" % (
                          len(SELECTIONS), 4 if tier == "thorough" else 3)
    run.cov["bounded_functions"].append({"functions": ["subscribe", "create_source_event_stream", "execute_subscription_event", "AsyncMap", "AsyncIORuntime.map_stream"],
                                         "bound": "%d streams" % n})
    run.sample({"selection": SELECTIONS[1], "events": ["ok", "nested", "bad"], "contract": "k-th result == executing the selection on the k-th event; its errors only"})
    run.assume("a consumer that does not await each __anext__ before the next (concurrent pulls) is outside this check")
    engine_p.run(run, 'C17')
    return run.finish("other", "trace contracts over every syntactic path of the real function (Engine P, unbounded in the inputs, values abstracted) + bounded stand-in: per-event contract against the reference executor over enumerated event sequences and failure patterns; refusal cases",
                      checker_cmd="./check C17 --tier %s" % tier)
