"""C12 - schema -> SDL -> schema is the identity; printing is history-independent."""
import itertools
import json
import os
import subprocess
import sys
import types as pytypes

from vf import ref_sdl as S6
from vf import schemas
from vf.props import c11
from vf.report import MachineryDefect, Run

OPTION_SETS = [
    {},
    {"indent": 2},
    {"indent": "\t", "include_descriptions": False},
    {"include_custom_schema_directives": True},
    {"include_introspection": True, "include_custom_schema_directives": True},
    {"include_custom_schema_directives": ["tag"]},
]

DIRECTIVE_SDL = '''
directive @tag(name: String = "x") on FIELD_DEFINITION | OBJECT | ENUM_VALUE | ARGUMENT_DEFINITION | INPUT_FIELD_DEFINITION | SCHEMA | SCALAR
directive @other on FIELD_DEFINITION | OBJECT
schema @tag(name: "s") { query: Query }
"d" scalar Date @tag
type Query @tag @other {
  a(x: Int = 1 @tag(name: "arg")): Int @deprecated @tag(name: "f") @other
  b: E @other @deprecated(reason: "why")
  multi: Int @deprecated(reason: "two\\nlines\\n")
  lead: Int @deprecated(reason: "\\n  indented\\n  lines")
  empty: Int @deprecated(reason: "")
  c(i: In): Date
}
enum E { A @tag @deprecated B C @deprecated(reason: "") }
extend type Query @tag(name: "ext")
extend enum E @tag(name: "e-ext")
extend scalar Date @tag(name: "s-ext")
extend schema @tag(name: "schema-ext")
input In { f: Int = 2 @tag }
'''


def code_schema():
    from py_gql.schema import (ID, Argument, Boolean, EnumType, Field, Float, InputField, InputObjectType, Int, InterfaceType, ListType,
                               NonNullType, ObjectType, Schema, String, UnionType)
    color = EnumType("Color", [("RED", 1), ("GREEN", "g"), ("BLUE", (0, 0, 255))], description="a color")
    inner = InputObjectType("Inner", lambda: [
        InputField("n", Int, default_value=7, description="count"),
        InputField("c", color, default_value=1),
        InputField("s", String, default_value='q"uote\\ and é'),
        InputField("l", ListType(NonNullType(Int)), default_value=[1, 2]),
        InputField("again", inner, default_value=None),
        InputField("cs", ListType(color), default_value=[1, "g"]),
        InputField("snake", Int, python_name="snake_py", default_value=3),
    ])
    named_in = InputObjectType("NamedIn", [InputField("someField", NonNullType(Int), python_name="some_field"), InputField("other", Int, python_name="other_py", default_value=3)])
    from py_gql.schema import RegexType

    class SubObject(ObjectType):
        pass

    class SubEnum(EnumType):
        pass
    from py_gql.schema import ScalarType
    def raw_literal(node, variables):
        from py_gql.lang import ast as _A
        if isinstance(node, _A.IntValue):
            return int(node.value)
        if isinstance(node, _A.FloatValue):
            return float(node.value)
        if isinstance(node, _A.ListValue):
            return [raw_literal(x, variables) for x in node.values]
        if isinstance(node, _A.ObjectValue):
            return {f.name.value: raw_literal(f.value, variables) for f in node.fields}
        if isinstance(node, _A.NullValue):
            return None
        return node.value
    raw = ScalarType("Raw", serialize=lambda v: v, parse=lambda v: v, parse_literal=raw_literal)
    code = ScalarType("Code", serialize=str, parse=str)
    email = RegexType("Email", r"^[^@]+@[^@]+$", description="an address")
    sub_object = SubObject("Sub", [Field("x", Int, description="LS\u2028PS\u2029NEL\u0085 are not line terminators")],
                           description="first\u2028still first\nsecond\u0085still second")
    from py_gql.schema import EnumValue
    sub_enum = SubEnum("Shade", [("DARK", "d"), ("LIGHT", "l"), EnumValue("GONE", "x", deprecation_reason=""), EnumValue("OLD", "o", deprecation_reason="No longer supported")])
    # descriptions the block form cannot carry as they are (trailing backslash / quote, form feed, common indentation, leading / trailing blank line)
    odd = ObjectType("Odd", [Field("a", Int, description="C:\\temp\\"), Field("b", Int, description="  a\n  b"), Field("c", Int, description="\nabc"),
                             Field("d", Int, description="abc\n"), Field("e", Int, description="ends with a quote\""), Field("f", Int, description="x\u000cy"),
                             Field("g", Int, description="a\n\n  b\n"), Field("h", Int, description="\\\"\"\"")], description="  indented type description")
    named = InterfaceType("Named", [Field("name", String)], resolve_type=lambda *a: "Dog")
    dog = ObjectType("Dog", [Field("name", String), Field("mood", color, deprecation_reason="moody"),
                             Field("old", String, deprecation_reason="first line\n  second, indented\n")], interfaces=[named], description="a dog\nwith two lines")
    pet = UnionType("Pet", [dog], resolve_type=lambda *a: "Dog")
    side = EnumType("Side", [("LEFT", "RIGHT"), ("RIGHT", "LEFT"), ("UP", "UP"), ("DOWN", "up")])
    sided = InputObjectType("Sided", [InputField("sd", side, default_value="LEFT"), InputField("sl", ListType(side), default_value=["RIGHT", "UP", "up"])])
    query = ObjectType("Query", [
        Field("odd", odd),
        Field("py", Int, args=[Argument("theArg", named_in, python_name="the_arg", default_value={"some_field": 1, "other_py": 4}),
                               Argument("inner", inner, default_value={"n": 2, "c": 1, "s": "x", "l": [1, 2], "again": None, "cs": [1, "g"], "snake_py": 9})]),
        Field("side", side, args=[Argument("s", side, default_value="RIGHT"), Argument("ss", NonNullType(ListType(NonNullType(side))), default_value=["LEFT", "RIGHT"]),
                                  Argument("o", sided, default_value={"sd": "RIGHT", "sl": ["LEFT"]}),
                                  # (keys in another order than the fields are declared in: the text is written in field order either way)
                                  Argument("o2", sided, default_value={"sl": ["UP"], "sd": "LEFT"})]),
        Field("f", String, description="desc", deprecation_reason="old", args=[
            Argument("a", inner, default_value={"n": 1, "c": "g", "s": "x", "l": [], "again": {"n": 2, "c": 1, "s": "", "l": [3], "again": None, "cs": [], "snake_py": 3}, "cs": [(0, 0, 255)], "snake_py": 4}),
            Argument("e", NonNullType(ListType(color)), default_value=[1, "g"]),
            Argument("fl", Float, default_value=1.5), Argument("b", Boolean, default_value=False), Argument("i", ID, default_value="x"),
            Argument("nul", String, default_value=None), Argument("z", Int, default_value=0), Argument("emp", String, default_value=""),
            Argument("one", Int, default_value=1), Argument("fz", Float, default_value=0.0), Argument("fo", Float, default_value=1.0),
            Argument("deep", NonNullType(ListType(NonNullType(ListType(NonNullType(ListType(NonNullType(Int))))))), default_value=[[[1]]]),
        ]),
        Field("pet", pet), Field("named", ListType(NonNullType(named))),
        # instances of SUBCLASSES of the type classes are types of the same kind (the library itself ships RegexType)
        # a pass-through custom scalar with defaults that are equal as Python values but different literals (1 / true / 1.0; 0 / false)
        Field("raw", raw, args=[Argument("r1", raw, default_value=1), Argument("r2", raw, default_value=True), Argument("r3", raw, default_value=1.0),
                                Argument("r4", ListType(raw), default_value=[0, False, 0.0]), Argument("r5", raw, default_value=False),
                                Argument("r6", raw, default_value=0),
                                # a JSON-like value of the scalar: written as a list / object literal
                                Argument("r7", raw, default_value={"tags": ["a", 1, None, True], "nested": {"k": [], "f": 1.5}}), Argument("r8", raw, default_value=[])]),
        Field("email", email, args=[Argument("like", email, default_value="a@b")]),
        # string defaults of a custom scalar that merely LOOK numeric
        Field("code", code, args=[Argument("c%d" % i, code, default_value=v) for i, v in enumerate(["nan", "Infinity", "0612345678", "1e5", "1_000", " 12 ", "1.50", "-0", "12", "1.5"])]), Field("sub", ListType(sub_object)), Field("shade", sub_enum), Field("e0", String, deprecation_reason=""),
        Field("deep7", NonNullType(ListType(NonNullType(ListType(NonNullType(ListType(NonNullType(String)))))))),
    ])
    return Schema(query)


def externalize(value, t):
    """default value in its external (SDL-level) form: enum internal values -> names, recursively"""
    from py_gql.schema import EnumType, InputObjectType, ListType, NonNullType
    if isinstance(t, NonNullType):
        return externalize(value, t.type)
    if value is None:
        return None
    if isinstance(t, ListType):
        return [externalize(v, t.type) for v in value] if isinstance(value, (list, tuple)) else [externalize(value, t.type)]
    if isinstance(t, EnumType):
        for ev in t.values:
            if ev.value == value and type(ev.value) is type(value):
                return ("enum", ev.name)
        return ("enum?", repr(value))
    if isinstance(t, InputObjectType):
        by_py = {f.python_name: f for f in t.fields}
        return {by_py[k].name: externalize(v, by_py[k].type) for k, v in value.items() if k in by_py}
    return value


def external_description(schema):
    """describe(schema) with every default in external form (comparable across enum internal values)"""
    from py_gql.lang import parse_type
    d = S6.describe(schema)

    def fix(args):
        for a in args:
            if a["default"] is not None:
                t = schema.get_type_from_literal(parse_type(a["type"]))
                a["default"] = ("external", externalize(a["default"][1], t))
    for t in d["types"].values():
        for f in t.get("fields", []):
            fix(f["args"])
        fix(t.get("input_fields", []))
    for dd in d["directives"].values():
        fix(dd["args"])
    return d


def first_diff(a, b, path=""):
    if type(a) is not type(b):
        return "%s: %r vs %r" % (path, a, b)
    if isinstance(a, dict):
        for k in sorted(set(a) | set(b)):
            if k not in a or k not in b:
                return "%s.%s only on one side" % (path, k)
            d = first_diff(a[k], b[k], "%s.%s" % (path, k))
            if d:
                return d
        return None
    if isinstance(a, (list, tuple)):
        if len(a) != len(b):
            return "%s: %d vs %d entries (%r vs %r)" % (path, len(a), len(b), a, b)
        for i, (x, y) in enumerate(zip(a, b)):
            d = first_diff(x, y, "%s[%d]" % (path, i))
            if d:
                return d
        return None
    return None if a == b else "%s: %r vs %r" % (path, a, b)


ROOT_SDL = [
    "schema { query: Query mutation: Subscription } type Query { a: Int } type Subscription { b: Int }",
    "schema { query: Mutation } type Mutation { a: Int }",
    "schema { query: Subscription subscription: Query } type Query { a: Int } type Subscription { b: Int }",
    "schema { query: Query subscription: Mutation } type Query { a: Int } type Mutation { b: Int }",
    "schema { query: Mutation mutation: Query subscription: Subscription } type Query { a: Int } type Mutation { b: Int } type Subscription { c: Int }",
    "type Query { a: Int } type Mutation { b: Int } type Subscription { c: Int }",
    "schema { query: Query } type Query { a: Int } type Mutation { b: Int }",
    "schema { query: Q mutation: Mutation } type Q { a: Int } type Mutation { b: Int }",
]


# string payloads the printer has to encode (astral characters, quotes, backslashes, controls, non-ASCII) at every place a string can stand, and type / directive
# names that differ by case only, referenced in an order that differs from their definition order (a sort that does not separate them leaves the tie to history)
TEXTS_SDL = r'''
"plain 😀 description with \"quotes\" and \\ backslash"
type Query {
  a(s: String = "x😀\"q\"\\b\u0007é", t: [String] = ["🚀", ""]): Item @deprecated(reason: "gone 😀 \"q\" \\ b")
  b: item
  box: Box
}
type item { v: Int }
"""
block 😀 description
  indented "quotes" and \\ backslash
"""
type Item { v: Int @deprecated(reason: "é😀") }
type Box { i: item, I: Item, e: E }
enum E { "member 😀" A @deprecated(reason: "") b B "first line\r\nsecond line\rthird" C @deprecated(reason: "a\rb\r\nc") }
"trailing return\r"
input In { "cr \r lf \n crlf \r\n end" f: String = "d\re\r\nf" }
directive @Tag(n: String = "😀") on FIELD
directive @tag(n: String = "\"") on FIELD
'''


def roots_code_schema():
    from py_gql.schema import Field, Int, ObjectType, Schema
    return Schema(query_type=ObjectType("Subscription", [Field("a", Int)]), mutation_type=ObjectType("Query", [Field("b", Int)]))


def schema_sources():
    out = [("base", lambda: __import__("py_gql").build_schema(schemas.BASE_SDL)), ("code", code_schema),
           ("directives", lambda: __import__("py_gql").build_schema(DIRECTIVE_SDL)),
           ("texts", lambda: __import__("py_gql").build_schema(TEXTS_SDL))]
    # root types whose names are the conventional names of OTHER operations (the schema block is then not redundant), and the redundant cases
    for i, sdl in enumerate(ROOT_SDL):
        out.append(("roots%d" % i, (lambda s: (lambda: __import__("py_gql").build_schema(s)))(sdl)))
    out.append(("roots-code", roots_code_schema))
    for i, sdl in enumerate(c11.EXTRA_VALID):
        if c11.self_referential_default(sdl):
            continue          # cannot be built at all: C11's listed finding (self-referential input default)
        out.append(("extra%d" % i, (lambda s: (lambda: __import__("py_gql").build_schema(s)))(sdl)))
    return out


REPO_SRC = os.path.join(os.environ.get("VF_REPO") or "/repo", "src")


def fresh_text(name, opts):
    """serialisation by the first call of a fresh process"""
    code = ("import sys, json; sys.path.insert(0, %r); sys.path.insert(0, %r); from vf.props import c12;"
            "s = dict(c12.schema_sources())[%r](); sys.stdout.write(json.dumps(s.to_string(**%r)))") % (
        os.path.dirname(os.path.dirname(os.path.dirname(os.path.abspath(__file__)))), REPO_SRC, name, opts)
    out = subprocess.run([sys.executable, "-c", code], capture_output=True, text=True, env=dict(os.environ, PYTHONHASHSEED="0"))
    if out.returncode != 0:
        if "/py_gql/" in out.stderr and "Traceback" in out.stderr:
            # the LIBRARY raised while building / serialising a schema of the corpus in a fresh process: that is an answer about the library, not harness trouble
            raise LibraryRaised(out.stderr.strip().splitlines()[-1][:300])
        raise MachineryDefect("fresh-process serialisation failed: %s" % out.stderr[-400:])
    return json.loads(out.stdout)


class LibraryRaised(Exception):
    pass


def consumable_module_state():
    """frame obligation: the serialisation code reads no module-level state that reading consumes.
    Every module-level object of the modules involved is typed at check time: generators / iterators
    referenced by name from a function of the module are consumable state."""
    import ast
    import inspect
    import py_gql._string_utils as m4
    import py_gql.lang.printer as m2
    import py_gql.sdl.ast_schema_printer as m1
    import py_gql.utilities.ast_node_from_value as m3
    obs = []
    for m in (m1, m2, m3, m4):
        tree = ast.parse(inspect.getsource(m))
        used = {n.id for fn in ast.walk(tree) if isinstance(fn, (ast.FunctionDef, ast.Lambda)) for n in ast.walk(fn) if isinstance(n, ast.Name)}
        for name, obj in vars(m).items():
            if name.startswith("__") or inspect.ismodule(obj) or inspect.isclass(obj) or inspect.isroutine(obj):
                continue
            consumable = isinstance(obj, pytypes.GeneratorType) or (hasattr(obj, "__next__") and hasattr(obj, "__iter__"))
            obs.append({"module": m.__name__, "name": name, "type": type(obj).__name__, "read_by_functions": name in used, "consumable": consumable})
    return obs


def aliased_mutations():
    """frame obligations (vf/aliascheck.py) on every method of ASTSchemaPrinter and every function of the modules it prints through"""
    import inspect
    import py_gql.sdl.ast_schema_printer as m1
    import py_gql.utilities.ast_node_from_value as m3
    from vf import aliascheck
    funcs = [("ASTSchemaPrinter.%s" % n, f) for n, f in vars(m1.ASTSchemaPrinter).items() if inspect.isfunction(f)]
    funcs += [("%s.%s" % (m.__name__.split(".")[-1], n), f) for m in (m1, m3) for n, f in vars(m).items() if inspect.isfunction(f) and f.__module__ == m.__name__]
    return aliascheck.obligations(funcs, "serialisation", "printing changes the schema, so a later call prints something else")


def check(tier, seed):
    from py_gql import build_schema
    from py_gql.exc import GraphQLError
    from py_gql.lang import parse
    run = Run("C12", tier, seed)
    n = nontrivial = 0
    # --- A. frame obligation ------------------------------------------------------------------------------------
    obs = consumable_module_state()
    if not obs:
        raise MachineryDefect("no module-level state found")
    for o in obs:
        run.cov["obligations"] += 1
        run.cov["backends"]["module-state typing"] = run.cov["backends"].get("module-state typing", 0) + 1
        if o["consumable"] and o["read_by_functions"]:
            run.violation("serialisation:reads-no-consumable-module-state", "%s.%s is a %s read by the serialisation code: reading consumes it"
                          % (o["module"], o["name"], o["type"]), o, False)
        else:
            run.cov["discharged"] += 1
    run.cov["functions_under_contract"].append("ASTSchemaPrinter.* / ASTPrinter.* (frame: module state)")
    from vf import aliascheck
    aliascheck.account(run, aliased_mutations())
    # --- B. round trip ----------------------------------------------------------------------------------------------
    for name, make in schema_sources():
        for opts in OPTION_SETS:
            n += 1
            w = {"schema": name, "options": opts}
            try:
                s = make()
                text = s.to_string(**opts)
            except Exception as e:
                run.violation("to_string:never-raises", "serialising raised %r" % (e,), dict(w, exc=type(e).__name__), True)
                continue
            try:
                parse(text, allow_type_system=True)
            except GraphQLError as e:
                run.violation("to_string:output-parses", "the serialised schema is rejected by the parser: %s" % (e,), dict(w, text=text[:400]), True)
                continue
            try:
                # SDL cannot carry the behaviour of a custom scalar: code-built custom scalars are handed to the builder, as the library documents
                from py_gql.schema import ScalarType as _ST
                customs = [t for t in s.types.values() if type(t) is _ST and t.name in ("Raw", "Code")]
                s2 = build_schema(text, additional_types=customs) if customs else build_schema(text)
            except Exception as e:
                run.violation("to_string:output-builds", "building a schema from the serialised text raised %r" % (e,), dict(w, text=text[:600], exc=type(e).__name__), True)
                continue
            nontrivial += 1
            d1, d2 = external_description(s), external_description(s2)
            if not opts.get("include_descriptions", True):
                d1, d2 = _strip_descriptions(d1), _strip_descriptions(d2)
            if not opts.get("include_custom_schema_directives") and name != "directives":
                pass
            diff = first_diff(d1, d2)
            if diff:
                run.violation("to_string:round-trip-identity", "schema -> SDL -> schema differs at %s" % diff, dict(w, diff=diff), True)
            text2 = s2.to_string(**opts)
            if text2 != text:
                run.violation("to_string:text-fixpoint", "serialising the rebuilt schema gives different text", dict(w, a=text[:300], b=text2[:300]), True)
    # --- C. history independence ------------------------------------------------------------------------------------
    hist_schemas = ["directives", "base", "code"]        # ("code" carries descriptions below the top level, whose layout depends on the indent option)
    for name in hist_schemas:
        try:
            fresh = {json.dumps(o, sort_keys=True): fresh_text(name, o) for o in OPTION_SETS}
        except LibraryRaised as e:
            run.violation("to_string:never-raises", "serialising the valid schema %r in a fresh process raised: %s" % (name, e), {"schema": name, "fresh_process": True}, True)
            continue
        make = dict(schema_sources())[name]
        seqs = list(itertools.product(range(len(OPTION_SETS)), repeat=2)) + [(i, i, i) for i in range(len(OPTION_SETS))]
        if tier == "thorough":
            seqs = list(itertools.product(range(len(OPTION_SETS)), repeat=3))
        s = make()
        for seq in seqs:
            for k, oi in enumerate(seq):
                opts = OPTION_SETS[oi]
                n += 1
                try:
                    text = s.to_string(**opts)
                except Exception as e:
                    run.violation("to_string:never-raises", "serialising raised %r (call %d of a sequence on one schema object)" % (e, k + 1), {"schema": name, "options": opts, "exc": type(e).__name__}, True)
                    break
                if text != fresh[json.dumps(opts, sort_keys=True)]:
                    run.violation("to_string:history-independent", "call %d of the sequence %r (options %r) differs from the first call of a fresh process"
                                  % (k + 1, [OPTION_SETS[i] for i in seq], opts),
                                  {"schema": name, "sequence": [OPTION_SETS[i] for i in seq], "call": k + 1}, True)
                    break
    # --- D. the text is a function of what the schema contains NOW: printed, edited in place (a description, a deprecation, a default), printed again -----------
    def edit_in_place(schema_):
        q = schema_.query_type
        q.description = "edited after the first print"
        f0 = q.fields[0]
        f0.description = "edited field"
        f0.deprecation_reason = "no longer"
        f0.deprecated = True
        return schema_
    for name in hist_schemas:
        make = dict(schema_sources())[name]
        for opts in OPTION_SETS[:3]:
            n += 1
            try:
                printed_first = make()
                before = printed_first.to_string(**opts)
                after = edit_in_place(printed_first).to_string(**opts)
                fresh = edit_in_place(make()).to_string(**opts)
            except Exception as e:
                run.violation("to_string:never-raises", "serialising raised %r (print / edit / print)" % (e,), {"schema": name, "options": opts, "exc": type(e).__name__}, True)
                continue
            if after != fresh:
                run.violation("to_string:history-independent", "a schema printed, edited in place and printed again gives another text than the same schema edited "
                              "before its first print (options %r)%s" % (opts, ": the second print still shows the old content" if after == before else ""),
                              {"schema": name, "sequence": ["to_string", "edit descriptions / deprecation in place", "to_string"], "options": opts}, True)
    if nontrivial == 0:
        raise MachineryDefect("nothing round-tripped")
    run.cov["evaluations"] = n
    run.cov["distinct_nontrivial"] = nontrivial
    run.cov["rule"] = "%d schemas (SDL-built incl. custom directives on every location, code-built with internal enum values and defaults of every input kind) x %d " \
                      "option sets; call sequences of length 2-3 over the option sets on one schema object vs fresh-process output" % (len(schema_sources()), len(OPTION_SETS))
    run.cov["bounded_functions"].append({"functions": ["ASTSchemaPrinter.*", "ast_node_from_value", "Schema.to_string"], "bound": "%d serialisations" % n})
    run.sample({"schema": "code", "options": OPTION_SETS[1], "contract": "describe(build_schema(to_string(s))) == describe(s); to_string fix-point"})
    run.trusted("vf/ref_sdl.describe as structural identity; build_schema (C11)")
    return run.finish("other", "frame obligation by typing the module state the serialisation code reads; bounded: round-trip identity, text fix-point and "
                               "history independence against fresh-process output",
                      checker_cmd="./check C12 --tier %s" % tier)


def _strip_descriptions(d):
    if isinstance(d, dict):
        return {k: (None if k == "description" else _strip_descriptions(v)) for k, v in d.items()}
    if isinstance(d, list):
        return [_strip_descriptions(x) for x in d]
    return d
