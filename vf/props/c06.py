"""C06 - validation verdicts match the specification and ignore irrelevant order."""
import copy
import multiprocessing as mp
import random
import re

from vf import execharness as H
from vf import ref_validate as RV
from vf.props import c05
from vf.report import MachineryDefect, Run

# labelled single-rule violations: (rule, document) - each breaks exactly the named rule on the execution schema
LABELLED = [
    ("FieldsOnCorrectType", "{ me { nope } }"),
    ("FieldsOnCorrectType", "{ pet { name } }"),
    ("FieldsOnCorrectType", "{ me { ... on Person { barks } } }"),
    ("ScalarLeafs", "{ me }"),
    ("ScalarLeafs", "{ count { x } }"),
    ("ScalarLeafs", "{ me { pets } }"),
    ("KnownArgumentNames", "{ echo(zzz: 1) }"),
    ("KnownArgumentNames", "{ me { name @skip(unless: true) } }"),
    ("UniqueArgumentNames", "{ echo(s: \"a\", s: \"b\") }"),
    ("UniqueArgumentNames", "{ me { name @skip(if: true, if: false) } }"),
    ("ProvidedRequiredArguments", "{ me { name @skip } }"),
    ("ValuesOfCorrectType", "{ echo(s: 1) }"),
    ("ValuesOfCorrectType", "{ color(c: PURPLE) }"),
    ("ValuesOfCorrectType", "{ echo(f: {bogus: 1}) }"),
    ("ValuesOfCorrectType", "{ echo(f: {tags: [1]}) }"),
    ("ValuesOfCorrectType", "{ me { friends(first: \"x\") { name } } }"),
    ("UniqueInputFieldNames", "{ echo(f: {min: 1, min: 2}) }"),
    ("UniqueInputFieldNames", "{ echo(f: {min: 1, sub: {min: 2}, min: 3}) }"),
    ("UniqueInputFieldNames", "{ echo(f: {sub: {min: 2, tags: []}, min: 1, color: RED, min: 3}) }"),
    ("UniqueInputFieldNames", "{ echo(f: {min: 1, subs: [{min: 2}, {min: 3}], min: 4}) }"),
    ("UniqueInputFieldNames", "{ echo(f: {sub: {sub: {min: 1}, min: 2, min: 3}}) }"),
    ("UniqueInputFieldNames", "{ echo(f: {subs: [{min: 2}, {min: 3, min: 4}]}) }"),
    ("UniqueInputFieldNames", "query ($f: Filter = {min: 1, sub: {}, min: 2}) { echo(f: $f) }"),
    ("KnownDirectives", "{ me @nope { name } }"),
    ("KnownDirectives", "query @skip(if: true) { count }"),
    ("UniqueDirectivesPerLocation", "{ me { name @skip(if: true) @skip(if: false) } }"),
    ("UniqueOperationNames", "query A { count } query A { me { name } }"),
    ("LoneAnonymousOperation", "{ count } { me { name } }"),
    ("LoneAnonymousOperation", "{ count } query A { count }"),
    ("SingleFieldSubscriptions", "subscription { tick ping { name } }"),
    ("SingleFieldSubscriptions", "subscription { ...F } fragment F on Subscription { tick ping { name } }"),
    ("SingleFieldSubscriptions", "subscription A { ...F } subscription B { ...F tick } fragment F on Subscription { ping { name } }"),
    # an exclusive comparison (Dog / Cat) of a field set with a fragment must not stand in for the strict one (Dog / Dog) of the same pair met later, in any order
    ("OverlappingFieldsCanBeMerged", "{ pet { ... on Dog { owner { x: name } } ... on Cat { owner { ...F } } ... on Dog { owner { ...F } } } } fragment F on Person { x: tag }"),
    ("OverlappingFieldsCanBeMerged", "{ pet { ... on Dog { owner { ...F } } ... on Cat { owner { x: name } } ... on Dog { owner { x: name } } } } fragment F on Person { x: tag }"),
    ("OverlappingFieldsCanBeMerged", "{ pet { ... on Cat { owner { ...F } } ... on Dog { owner { x: name } } ... on Dog { owner { ...F } } } } fragment F on Person { x: tag }"),
    ("SingleFieldSubscriptions", "subscription B { ...F tick } subscription A { ...F } fragment F on Subscription { ping { name } }"),
    ("UniqueFragmentNames", "fragment F on Person { name } fragment F on Person { age } { me { ...F } }"),
    ("KnownTypeNames", "{ me { ... on Nope { name } } }"),
    ("KnownTypeNames", "query ($v: Nope) { count }"),
    ("KnownTypeNames", "fragment F on Nope { x } { me { name } }"),
    ("FragmentsOnCompositeTypes", "{ me { ... on Color { name } } }"),
    ("FragmentsOnCompositeTypes", "fragment F on Int { x } { count ...F }"),
    ("NoUnusedFragments", "fragment Unused on Person { name } { count }"),
    ("NoUnusedFragments", "fragment A on Person { ...B } fragment B on Person { name } { count }"),
    ("KnownFragmentNames", "{ me { ...Missing } }"),
    ("NoFragmentCycles", "{ me { ...A } } fragment A on Person { ...B } fragment B on Person { ...A }"),
    ("NoFragmentCycles", "{ ...A } fragment A on Query { ...B ...C ...D } fragment B on Query { ...C } fragment C on Query { count } fragment D on Query { ...A }"),
    ("PossibleFragmentSpreads", "{ me { ... on Dog { name } } }"),
    ("PossibleFragmentSpreads", "{ me { ...D } } fragment D on Dog { name }"),
    ("UniqueVariableNames", "query ($a: Int, $a: Int) { me { friends(first: $a) { name } } }"),
    ("VariablesAreInputTypes", "query ($a: Person) { count }"),
    ("NoUndefinedVariables", "{ echo(s: $undefined) }"),
    ("NoUndefinedVariables", "query A { ...F } fragment F on Query { echo(s: $u) }"),
    ("NoUndefinedVariables", "query A($u: String) { ...F } query B { ...F } fragment F on Query { echo(s: $u) }"),
    ("NoUnusedVariables", "query ($v: Int) { count }"),
    ("NoUnusedVariables", "query A($v: String) { count } query B($v: String) { echo(s: $v) }"),
    ("VariablesInAllowedPosition", "query ($v: Int) { echo(s: $v) }"),
    ("VariablesInAllowedPosition", "query ($v: String) { ...F } fragment F on Query { me { friends(first: $v) { name } } }"),
    ("VariablesInAllowedPosition", "query ($v: Int) { me { lim(a: $v) } ...G } fragment G on Query { echo(s: $v) }"),
    ("VariablesInAllowedPosition", "query ($v: [String]) { me { lim(tags: $v) } echo(f: {tags: $v}) }"),
    ("VariablesInAllowedPosition", "query ($v: Int) { echo(s: $v) me { friends(first: $v) { name } } }"),
    ("VariablesInAllowedPosition", "query ($v: Int) { me { friends(first: $v) { name } } echo(s: $v) }"),
    ("VariablesInAllowedPosition", "query ($v: Int) { me { a: lim(a: $v) b: lim(tags: $v) c: lim(a: $v) } }"),
    ("OverlappingFieldsCanBeMerged", "{ me { x: name x: age } }"),
    ("OverlappingFieldsCanBeMerged", "{ me { name } me { n: age } me { n: name } }"),
    ("OverlappingFieldsCanBeMerged", "{ me { n: age } me { name } me { n: name } }"),
    ("OverlappingFieldsCanBeMerged", "{ pet { ... on Cat { n: name } ... on Dog { n: name } ... on Dog { n: owner { name } } } }"),
    ("OverlappingFieldsCanBeMerged", "{ me { a: name a: name a: age } }"),
    ("OverlappingFieldsCanBeMerged", "{ echo(s: \"a\") echo(s: \"b\") }"),
    ("OverlappingFieldsCanBeMerged", "{ me { ... on Person { ...F } x: age } } fragment F on Person { x: name }"),
    ("OverlappingFieldsCanBeMerged", "{ pet { ... on Dog { v: barks } ... on Cat { v: lives } } }"),
    ("OverlappingFieldsCanBeMerged", "{ me { best { ... on Dog { n: name } } best { ... on Dog { n: barks } } } }"),
    ("OverlappingFieldsCanBeMerged", "{ me { friends { n: name } friends { n: age } } }"),
    ("OverlappingFieldsCanBeMerged", "{ named { ... on Dog { x: name } ... on Cat { x: name } ... on Dog { x: barks } } }"),
    ("OverlappingFieldsCanBeMerged", "{ me { name } me { name: age } }"),
    # a conflict reached through a NESTED fragment spread with multi-letter fragment names (the inner loop once indexed the fragment NAME)
    ("OverlappingFieldsCanBeMerged", "{ ...FragOne ...FragTwo } fragment FragOne on Query { ...Inner } fragment Inner on Query { x: count } fragment FragTwo on Query { x: echo }"),
    ("OverlappingFieldsCanBeMerged", "{ me { ...FragTwo ...FragOne } } fragment FragOne on Person { ...Inner } fragment Inner on Person { x: name } fragment FragTwo on Person { x: age }"),
    # list literals where no list is expected; null / wrongly wrapped items inside list literals
    ("ValuesOfCorrectType", "{ me { friends(first: [1, 2]) { name } } }"),
    ("ValuesOfCorrectType", "{ echo(s: [\"a\"]) }"),
    ("ValuesOfCorrectType", "{ echo(f: [{min: 1}]) }"),
    ("ValuesOfCorrectType", "{ me { name @skip(if: [true]) } }"),
    ("ValuesOfCorrectType", "{ echo(f: {tags: [\"a\", null]}) }"),
    ("ValuesOfCorrectType", "{ echo(f: {tags: [[\"a\"]]}) }"),
    ("VariablesInAllowedPosition", "query ($v: String) { echo(f: {tags: [$v]}) }"),
    # a fragment spread that cannot apply, below a list-typed / non-null parent field
    ("PossibleFragmentSpreads", "{ people { ...D } } fragment D on Dog { name }"),
    ("PossibleFragmentSpreads", "{ me { pets { ...P } } } fragment P on Person { name }"),
    # arguments that differ only beyond double precision / in list order / in a nested value
    ("OverlappingFieldsCanBeMerged", "{ echo(id: 9007199254740993) echo(id: 9007199254740992) }"),
    ("OverlappingFieldsCanBeMerged", "{ echo(f: {tags: [\"a\", \"b\"]}) echo(f: {tags: [\"b\", \"a\"]}) }"),
    ("OverlappingFieldsCanBeMerged", "{ echo(f: {sub: {min: 1}}) echo(f: {sub: {min: 2}}) }"),
    ("OverlappingFieldsCanBeMerged", "{ echo(id: \"1\") echo(id: 1) }"),
    # several operations sharing fragments: variable rules are per operation, through every transitively spread fragment, whatever another operation established
    ("NoUndefinedVariables", "query Full($flag: Boolean!) { ...Left ...Right } query Partial { ...Right } fragment Left on Query { count ...Leaf } "
                             "fragment Right on Query { me { name } ...Leaf } fragment Leaf on Query { echo @include(if: $flag) }"),
    ("NoUndefinedVariables", "query Partial { ...Right } query Full($flag: Boolean!) { ...Left ...Right } fragment Leaf on Query { echo @include(if: $flag) } "
                             "fragment Right on Query { me { name } ...Leaf } fragment Left on Query { count ...Leaf }"),
    ("NoUnusedVariables", "query One($x: Int) { ...UsesX } query Two($x: Int) { count } fragment UsesX on Query { me { lim(a: $x) } }"),
    ("VariablesInAllowedPosition", "query A($v: String) { echo(s: $v) } query B($v: Int) { echo(s: $v) }"),
    ("VariablesInAllowedPosition", "query B($v: Int) { ...E } query A($v: String) { ...E } fragment E on Query { echo(s: $v) }"),
    ("VariablesInAllowedPosition", "query A($v: String) { ...E } query B($v: Int) { ...E } fragment E on Query { echo(s: $v) }"),
    ("VariablesInAllowedPosition", "query First($flag: Boolean!) { ...F } query Second($flag: Boolean) { ...F } fragment F on Query { count @skip(if: $flag) }"),
    ("VariablesInAllowedPosition", "query Second($flag: Boolean) { ...F } query First($flag: Boolean!) { ...F } fragment F on Query { count @skip(if: $flag) }"),
    ("VariablesInAllowedPosition", "fragment F on Query { ...G } fragment G on Query { me { lim(tags: $t) } } query Ok($t: [String]) { ...F } query Bad($t: Int) { ...F } query Ok2($t: [String!]!) { ...G }"),
    # an inline fragment without type condition keeps the enclosing type, also below list and non-null fields
    ("FieldsOnCorrectType", "{ people { ... { nope } } }"),
    ("FieldsOnCorrectType", "{ people { ... @include(if: true) { ... { nope } } } }"),
    ("ScalarLeafs", "{ people { ... { name { x } } } }"),
    ("ScalarLeafs", "{ owned { ... { owner } } }"),
    # conflicts only reachable by comparing the fragments spread at two DIFFERENT places with each other: every pair, whatever the fragments are called
    ("OverlappingFieldsCanBeMerged", "{ people { best { ...Alpha } } people { best { ...Zed } } } fragment Alpha on Dog { n: name } fragment Zed on Dog { n: barks }"),
    ("OverlappingFieldsCanBeMerged", "{ people { best { ...Zed } } people { best { ...Alpha } } } fragment Alpha on Dog { n: name } fragment Zed on Dog { n: barks }"),
    ("OverlappingFieldsCanBeMerged", "{ people { best { ...Zed } } people { best { ...Alpha } } } fragment Zed on Dog { n: name } fragment Alpha on Dog { n: barks }"),
    ("OverlappingFieldsCanBeMerged", "{ me { best { ...B } } me { best { ...A } } } fragment B on Dog { owner { ...BI } } fragment A on Dog { owner { ...AI } } "
                                     "fragment BI on Person { x: name } fragment AI on Person { x: age }"),
    ("OverlappingFieldsCanBeMerged", "{ me { best { ...A } } me { best { ...B } } } fragment B on Dog { owner { ...BI } } fragment A on Dog { owner { ...AI } } "
                                     "fragment BI on Person { x: name } fragment AI on Person { x: age }"),
    ("ValuesOfCorrectType", "{ echo(f: {subs: {min: \"x\"}}) }"),
    ("VariablesInAllowedPosition", "query ($n: String) { echo(f: {subs: {min: $n}}) }"),
    # the meta fields have a response shape like any other field (String! for __typename), also below a union (hunt H3/9)
    ("OverlappingFieldsCanBeMerged", "{ pet { ... on Dog { x: __typename } ... on Cat { x: lives } } }"),
    ("OverlappingFieldsCanBeMerged", "{ named { ... on Dog { x: __typename } ... on Cat { x: name } } }"),
    ("OverlappingFieldsCanBeMerged", "{ pet { ... on Cat { x: __typename } ... on Dog { x: owner { name } } } }"),
    ("OverlappingFieldsCanBeMerged", "{ pet { x: __typename ... on Dog { x: name } } }"),
]
# a second schema for shapes the execution schema does not have: interfaces that share implementers only partly, a union next to them, list arguments and input
# fields with defaults, list / non-null fields of object type
EXTRA_SDL = """
interface Pet { name: String }
interface Feline { name: String lives: Int }
type Owner { name: String }
type Dog implements Pet { name: String nickname: String owner: Owner speak(loud: Boolean): String }
type Cat implements Pet & Feline { name: String nickname: String lives: Int speak(loud: Boolean): String }
type Fish { name: String nickname: String }
union CatOrFish = Cat | Fish
input Filter { tags: [String!] = ["a"] ids: [Int!] }
type Query {
  pet: Pet
  dogs: [Dog!]!
  bestDog: Dog!
  withDefault(list: [Int!] = [1]): Int
  withoutDefault(list: [Int!]): Int
  scalarWithDefault(n: Int! = 1): Int
  nested(matrix: [[Int!]] = [[1]]): Int
  search(filter: Filter = {}): Int
  many(filters: [Filter!], nested: [[Filter]]): Int
}
"""
EXTRA_LABELLED = [
    # same response name, different fields: allowed only when BOTH parents are object types - an interface or union parent demands the same field
    ("OverlappingFieldsCanBeMerged", "{ pet { ... on Dog { n: nickname } ... on Feline { n: name } } }"),
    ("OverlappingFieldsCanBeMerged", "{ pet { ... on Feline { n: name } ... on Dog { n: nickname } } }"),
    ("OverlappingFieldsCanBeMerged", "{ pet { ... on Dog { name: nickname } ... on Feline { name } } }"),
    ("OverlappingFieldsCanBeMerged", "{ pet { ...D ...F } } fragment D on Dog { n: nickname } fragment F on Feline { n: name }"),
    ("OverlappingFieldsCanBeMerged", "{ pet { ... on Dog { speak(loud: true) } ... on Feline { speak(loud: false) } } }"[:0] or
                                     "{ pet { ... on Dog { n: nickname } ... on Pet { n: name } } }"),
    # the default of an argument / input field excuses a nullable variable at THAT position, not at the items of a list literal written there
    ("VariablesInAllowedPosition", "query ($v: Int) { withDefault(list: [$v]) }"),
    ("VariablesInAllowedPosition", "query ($v: Int) { withDefault(list: [1, 2, $v]) }"),
    ("VariablesInAllowedPosition", "query ($v: Int) { nested(matrix: [[$v]]) }"),
    ("VariablesInAllowedPosition", "query ($s: String) { search(filter: {tags: [$s]}) }"),
    ("VariablesInAllowedPosition", "query ($v: Int) { withoutDefault(list: [$v]) }"),
    # a single input object written where a list of them is expected is that object's literal: its fields are typed all the same
    ("ValuesOfCorrectType", "{ many(filters: {ids: \"ten\"}) }"),
    ("ValuesOfCorrectType", "{ many(filters: {nope: 1}) }"),
    ("VariablesInAllowedPosition", "query ($n: String) { many(filters: {ids: $n}) }"),
    ("VariablesInAllowedPosition", "query ($n: String) { many(filters: [{ids: $n}]) }"),
    ("ValuesOfCorrectType", "{ many(nested: {ids: [true]}) }"),
    # an inline fragment without type condition keeps the enclosing type, also below list and non-null fields
    ("FieldsOnCorrectType", "{ dogs { ... { nope } } }"),
    ("FieldsOnCorrectType", "{ bestDog { ... @include(if: true) { nope } } }"),
    ("ScalarLeafs", "{ bestDog { ... { name { x } } } }"),
    ("ScalarLeafs", "{ dogs { ... { owner } } }"),
]
EXTRA_VALID = [
    "{ pet { ... on Dog { n: nickname } ... on Cat { n: name } } }",
    "{ pet { ... on Dog { n: nickname } ... on CatOrFish { ... on Cat { n: name } } } }",
    "{ pet { ... on Dog { speak(loud: true) } ... on Feline { ... on Cat { speak(loud: false) } } } }",
    "{ dogs { ... { name owner { name } } } bestDog { ... { ... { nickname } } } }",
    "query ($v: Int!) { withDefault(list: [$v]) }",
    "query ($v: Int = 2) { withDefault(list: [$v]) }",
    "query ($v: Int) { scalarWithDefault(n: $v) }",
    "query ($v: [Int!]) { withDefault(list: $v) }",
    "query ($s: String!) { search(filter: {tags: [$s]}) }",
    "query ($t: [String!]) { search(filter: {tags: $t}) }",
    "query ($n: [Int!]) { many(filters: {ids: $n}) }",
    "query ($n: Int!) { many(filters: {ids: [$n]}, nested: {ids: 1}) }",
    "{ many(filters: [{ids: [1]}, {tags: \"x\"}], nested: [[{ids: 2}], null]) }",
]
# valid documents that exercise order-dependent machinery
VALID_TRICKY = [
    # response names starting with two underscores are ordinary response names (June 2018 has no rule about them), on any operation kind
    "subscription { __typename }",
    "subscription { t: __typename }",
    "subscription { __x: tick }",
    "subscription { ...F } fragment F on Subscription { __typename }",
    "{ __me: me { __n: name __typename } }",
    "query ($n: Int = 3) { echo(f: {subs: {min: $n, sub: {min: 2}}}) }",
    # several operations: each has its own variables, the same name may be declared with another type, shared fragments are judged per operation
    "query Full($flag: Boolean!) { ...Left ...Right } query Partial($flag: Boolean!) { ...Right } fragment Left on Query { count ...Leaf } "
    "fragment Right on Query { me { name } ...Leaf } fragment Leaf on Query { echo @include(if: $flag) }",
    "query A($v: Int) { me { lim(a: $v) } } query B($v: String) { echo(s: $v) } query C($v: [String!]) { me { lim(tags: $v) } }",
    "query A($v: Int!) { ...L } query B($v: Int! = 2) { ...L } fragment L on Query { me { lim(a: $v) } }",
    # conditions on the root field of a subscription, steered by variables, on fields, inline fragments and spreads
    "subscription S($full: Boolean!) { tick @include(if: $full) }",
    "subscription S($hide: Boolean = false) { tick @skip(if: $hide) }",
    "subscription S($full: Boolean!) { ...F @include(if: $full) } fragment F on Subscription { tick }",
    "subscription S($full: Boolean!) { ... @include(if: $full) { tick } }",
    "{ pet { ... on Dog { x: __typename } ... on Cat { x: __typename } } named { __typename ... on Dog { __typename } } }",
    "mutation { __a: a(n: 1) }",
    "query A($x: Int) { ...L1 } fragment L3 on Query { me { friends(first: $x) { name } } } fragment L2 on Query { ...L3 } fragment L1 on Query { ...L2 }",
    "query A($x: Int) { ...L1 } fragment L1 on Query { ...L2 } fragment L2 on Query { ...L3 } fragment L3 on Query { me { friends(first: $x) { name } } }",
    "query A($x: Int, $s: String) { me { friends(first: $x) { name } } echo(s: $s) }",
    "query A($x: Int!) { me { friends(first: $x) { name } lim(a: $x) } }",
    "query A($x: Int) { me { lim(a: $x) } }",
    "query A($x: Int = 3) { me { lim(a: $x) } }",
    "{ pet { ... on Dog { v: name } ... on Cat { v: name } } }",
    "{ pet { ... on Dog { owner { name } } ... on Cat { owner { age } } } }",
    "{ named { name ... on Dog { barks } } named { ... on Cat { lives } name } }",
    "query ($t: [String!]) { me { lim(tags: $t) } }",
    "query ($t: [String!]!) { me { lim(tags: $t) } }",
    "query ($t: [String]!) { me { lim(tags: $t) } }",
    "query ($t: [String!]!) { echo(f: {tags: $t}) }",
    "query ($x: Int!, $c: Color!) { me { friends(first: $x) { name } } color(c: $c) }",
    "query ($t: String) { me { lim(tags: [$t]) } }",
    "{ echo(f: {tags: \"single\"}) me { lim(tags: \"one\") } }",
    # a typed inline fragment that cannot apply is an error of ITS OWN; an untyped sibling after it is valid on its own (the traversal state must be restored)
    "{ me { best { ... on Person { name } ... { __typename } } } }"[:0] or "{ me { lim(tags: [null, \"a\", null]) } }",
    "{ me { lim(tags: [\"a\", null]) } }",
    "query ($v: String) { me { lim(tags: [$v]) } }",
    # the same input field name at different nesting levels / in sibling literals is no duplicate
    "{ echo(f: {min: 1, sub: {min: 2, sub: {min: 3}}, tags: []}) }",
    "{ echo(f: {subs: [{min: 1}, {min: 1}], min: 1}) a: echo(f: {min: 1}) }",
    # several subscriptions in one document reaching the same fragment: each operation is judged on its own
    "subscription A { ...F } subscription B { ...F } fragment F on Subscription { tick }",
    "subscription A { ...G } subscription B { ...G } subscription C { ...F } fragment G on Subscription { ...F } fragment F on Subscription { ping { name } }",
    # identical arguments are identical in any order: the same field selected twice under one key, directly, through fragments and in sub-selections
    "{ me { lim(a: 1, tags: \"x\") lim(tags: \"x\", a: 1) } }",
    "{ me { lim(a: 1, tags: [\"x\"]) ...F } } fragment F on Person { lim(tags: [\"x\"], a: 1) }",
    "query ($v: Int) { me { l: lim(a: $v, tags: null) ... { l: lim(tags: null, a: $v) } } }",
    "{ me { friends(first: 1) { lim(a: 2, tags: \"y\") } } me { friends(first: 1) { lim(tags: \"y\", a: 2) } } }",
]


def lib_errors(schema, doc):
    from py_gql.validation import validate_ast
    try:
        return list(validate_ast(schema, doc).errors)
    except Exception as e:      # a crashing validator (C05's subject) counts as "not accepted" here; the verdict comparison still runs
        return [e]


def transforms(doc, rnd):
    """meaning-preserving transformations of a parsed document: yields (label, document)"""
    from py_gql.lang import ast as A
    from vf.treecheck import walk
    d = copy.deepcopy(doc)
    rnd.shuffle(d.definitions)
    yield "permute-definitions", d
    d = copy.deepcopy(doc)
    d.definitions.reverse()
    yield "reverse-definitions", d
    d = copy.deepcopy(doc)
    for _p, n in walk(d):
        if isinstance(n, A.SelectionSet):
            n.selections.reverse()
        if isinstance(n, (A.Field, A.Directive)):
            n.arguments.reverse()
        if isinstance(n, A.OperationDefinition):
            n.variable_definitions.reverse()
        if isinstance(n, A.ObjectValue):
            n.fields.reverse()
    yield "reverse-selections-and-arguments", d
    # ... and of every OTHER field / directive / object literal only, so that two occurrences of the same field end up with their (identical) arguments
    # in different relative orders (reversing all of them at once keeps two equal lists equal)
    d = copy.deepcopy(doc)
    k = 0
    for _p, n in walk(d):
        if isinstance(n, (A.Field, A.Directive)) and len(n.arguments) > 1:
            k += 1
            if k % 2:
                n.arguments.reverse()
        if isinstance(n, A.ObjectValue) and len(n.fields) > 1:
            k += 1
            if k % 2:
                n.fields.reverse()
    yield "reverse-arguments-of-every-other-field", d
    d = copy.deepcopy(doc)
    plain_names = {n.name.value for _p, n in walk(d) if isinstance(n, A.Field) and n.alias is None}
    for _p, n in walk(d):
        if isinstance(n, A.FragmentDefinition):
            n.name = A.Name(value=n.name.value + "_r")
        if isinstance(n, A.FragmentSpread):
            n.name = A.Name(value=n.name.value + "_r")
        if isinstance(n, A.Variable):
            n.name = A.Name(value=n.name.value + "_r")
        if isinstance(n, A.Field) and n.alias is not None and n.alias.value not in plain_names:
            # (an alias that coincides with an un-aliased field name is part of the same key class: left alone)
            n.alias = A.Name(value=n.alias.value + "_r")
    yield "rename-fragments-variables-aliases", d


def respace(text, rnd):
    from spec import lexical as SL
    toks, q = [], 0
    while True:
        k, a, b = SL.lex(text, q)
        if k in (SL.K_EOF, SL.K_ERROR):
            break
        toks.append(text[a:b])
        q = b
    return rnd.choice([" ", "\n", " ,", " # c\n", "\t"]).join(toks) + " # end"


def _chunk(args):
    texts, seed = args
    from py_gql.exc import GraphQLSyntaxError
    from py_gql.lang import parse, print_ast
    rnd = random.Random(seed)
    schema = H.make_schema()
    fails, n, agree_valid = [], 0, 0
    for text in texts:
        try:
            doc = parse(text)
        except Exception:
            continue
        n += 1
        try:
            lib = lib_errors(schema, doc)
        except Exception:
            continue      # crashes are C05's business
        ref = RV.validate(schema, parse(text))
        if re.search(r"\bany\s*:\s*[\[{]", text):
            continue      # which list / object literals a custom scalar without literal parser accepts is that scalar's business (false alarm no. 29): no verdict to compare
        lv, rv = not lib, not ref
        agree_valid += lv and rv
        if lv != rv:
            fails.append(("validate:verdict-matches-the-specification",
                          {"document": text, "library_valid": lv, "reference_valid": rv, "reference_rules": sorted({v.rule for v in ref}),
                           "library_errors": [str(e) for e in lib][:3]},
                          "library says %s, the specification's rules say %s (%s)" % (
                              "valid" if lv else "invalid: " + str(lib[0]), "valid" if rv else "invalid", ", ".join(sorted({v.rule for v in ref})))))
        # invariance
        for label, d2 in list(transforms(doc, rnd)) + [("respace", None)]:
            try:
                t2 = respace(text, rnd) if d2 is None else print_ast(d2)
                lib2 = lib_errors(schema, parse(t2))
            except Exception:
                continue
            n += 1
            if (not lib2) != lv:
                fails.append(("validate:verdict-invariant-under-irrelevant-changes",
                              {"document": text, "transformation": label, "transformed": t2, "before": [str(e) for e in lib][:2], "after": [str(e) for e in lib2][:2]},
                              "%s changes the verdict from %s to %s" % (label, "valid" if lv else "invalid", "valid" if not lib2 else "invalid")))
    return n, agree_valid, fails


def check(tier, seed):
    from vf import gen_docs, gen_ops
    from py_gql.lang import parse
    run = Run("C06", tier, seed)
    rnd = random.Random(seed)
    schema = H.make_schema()
    # labelled violations: oracle sanity (machinery defect if the oracle does not see its own label) then attribution
    n0 = 0
    for rule, text in LABELLED:
        doc = parse(text)
        ref = RV.validate(schema, doc)
        if rule not in {v.rule for v in ref}:
            raise MachineryDefect("labelled violation %r (%s) is not reported by the reference under that rule: %r" % (text, rule, sorted({v.rule for v in ref})))
        n0 += 1
        try:
            lib = lib_errors(schema, parse(text))
        except Exception as e:
            run.violation("validate:single-violation-is-reported", "%s: validate_ast raised %r" % (rule, e), {"rule": rule, "document": text}, True)
            continue
        if not lib:
            run.violation("validate:single-violation-is-reported", "a document that breaks only %s is accepted: %s" % (rule, text), {"rule": rule, "document": text}, True)
    for text in VALID_TRICKY:
        if RV.validate(schema, parse(text)):
            raise MachineryDefect("reference rejects a document listed as valid: %r: %r" % (text, RV.violated_rules(schema, parse(text))))
    # the second schema: labelled violations reported, valid documents accepted, verdict == reference, invariant under the irrelevant transformations
    from py_gql import build_schema
    from py_gql.lang import print_ast
    extra = build_schema(EXTRA_SDL)
    for rule, text in [(r, t) for r, t in EXTRA_LABELLED] + [(None, t) for t in EXTRA_VALID]:
        ref = RV.validate(extra, parse(text))
        if (rule is None and ref) or (rule is not None and rule not in {v.rule for v in ref}):
            raise MachineryDefect("second schema: the reference says %r for %r (listed as %s)" % (sorted({v.rule for v in ref}), text, rule or "valid"))
        n0 += 1
        w = {"schema": "EXTRA_SDL", "rule": rule, "document": text}
        try:
            lib = lib_errors(extra, parse(text))
        except Exception as e:
            run.violation("validate:single-violation-is-reported", "%s: validate_ast raised %r" % (rule, e), w, True)
            continue
        if rule is not None and not lib:
            run.violation("validate:single-violation-is-reported", "a document that breaks only %s is accepted: %s" % (rule, text), w, True)
        if rule is None and lib:
            run.violation("validate:verdict-matches-the-specification", "a valid document is rejected: %s (%s)" % (text, lib[0]), dict(w, library_errors=[str(e) for e in lib][:3]), True)
        for label, d2 in transforms(parse(text), rnd):
            try:
                lib2 = lib_errors(extra, parse(print_ast(d2)))
            except Exception:
                continue
            n0 += 1
            if (not lib2) != (not lib):
                run.violation("validate:verdict-invariant-under-irrelevant-changes", "%s changes the verdict of %s" % (label, text), dict(w, transformation=label), True)
    texts = [t for _r, t in LABELLED] + list(VALID_TRICKY) + list(c05.ADVERSARIAL) + [t for t, _v in H.OPERATIONS]
    gen, _rej = gen_ops.generate(schema, 300 if tier == "thorough" else 100, seed + 2)
    from py_gql.schema import InputObjectType, InterfaceType, ObjectType
    names = sorted({f.name for t in schema.types.values() if isinstance(t, (ObjectType, InterfaceType, InputObjectType)) and
                    not t.name.startswith("__") for f in t.fields} | {t for t in schema.types if not t.startswith("__")})
    for text, _v in gen:
        texts.append(text)
        texts += c05.mutations(text, rnd, names)[:6]
    for t in list(VALID_TRICKY) + [x for _r, x in LABELLED]:
        texts += c05.mutations(t, rnd, names)[:6]
    texts = list(dict.fromkeys(texts))
    jobs = 16
    size = max(1, len(texts) // (jobs * 4))
    chunks = [(texts[i:i + size], seed + i) for i in range(0, len(texts), size)]
    n = agree = 0
    with mp.get_context("fork").Pool(jobs) as pool:
        for k, a, fails in pool.imap_unordered(_chunk, chunks):
            n += k
            agree += a
            for clause, w, detail in fails:
                run.violation(clause, detail, w, True)
    if agree == 0:
        raise MachineryDefect("no document is valid for both the library and the reference")
    run.cov["evaluations"] = n + n0
    run.cov["distinct_nontrivial"] = len(texts)
    run.cov["parts"]["reference"] = {"rules_active": sorted(RV.RULES), "labelled_violations": len(LABELLED), "documents": len(texts), "valid_for_both": agree}
    run.cov["rule"] = "%d labelled single-rule violations, generated valid operations and their single-token mutations, adversarial documents; verdict compared " \
                      "with a reference implementation of the 26 rules and under 5 meaning-preserving transformations" % len(LABELLED)
    run.cov["bounded_functions"].append({"functions": ["validate_ast", "SPECIFIED_RULES (26 rule visitors)", "VariablesCollector", "overlapping_fields_can_be_merged.*"],
                                         "bound": "%d documents x 6 verdict computations" % len(texts)})
    run.sample({"document": VALID_TRICKY[0], "transformation": "permute-definitions", "contract": "verdict == reference verdict; unchanged by the transformation"})
    # --- deductive: the type comparison of the field-merging rule == the specification's SameResponseShape on types --------------
    import contracts.merging as MG
    import spec.typealgebra as TA
    from vf import engine_a
    from vf.props.c13 import stype_adt

    def stype_to_python(text):
        from py_gql.schema import InterfaceType, ListType, NonNullType, ObjectType, ScalarType
        made = {}

        def mk(kind, cls, **kw):
            def f(n):
                if (kind, n) not in made:
                    made[(kind, n)] = cls("%s%d" % (kind, n), **kw)
                return made[(kind, n)]
            return f
        env = {"Leaf": mk("S", ScalarType, serialize=str, parse=str), "Obj": mk("O", ObjectType, fields=[]), "Abs": mk("I", InterfaceType, fields=[]),
               "List": ListType, "NonNull": NonNullType}
        return eval(text, {"__builtins__": {}}, env)
    ns = {k: v for k, v in vars(TA).items() if not k.startswith("__")}
    inst = engine_a.generic_instantiate({"*": lambda v: stype_to_python(v) if isinstance(v, str) else v})
    run.cov["parts"]["engine_a"] = engine_a.run(run, MG.CONTRACTS, ns, {"SType": stype_adt()}, inst, jobs=1)
    run.trusted("spec/typealgebra.shape_conflict (SameResponseShape on types)")
    # --- registry obligations: every rule of section 5 has its checker in the default rule set, and validate_ast runs that set ------------
    import ast as _pyast
    import inspect as _inspect
    import textwrap as _tw
    import contracts.validation_rules as VR
    import py_gql.validation as PV
    from py_gql.validation import validate as PVV
    backend = "rule-registry inspection"
    registered = {r.__name__ for r in PV.SPECIFIED_RULES}
    for title, checker in VR.SPEC_RULES:
        run.cov["obligations"] += 1
        run.cov["backends"][backend] = run.cov["backends"].get(backend, 0) + 1
        if checker in registered:
            run.cov["discharged"] += 1
        else:
            run.violation("SPECIFIED_RULES:%s" % checker, "the checker of specification rule %s (%s) is not in the default rule set" % (title, checker),
                          {"rule": title, "checker": checker}, False)
    sig = _inspect.signature(PVV.default_validator)
    tree = _pyast.parse(_tw.dedent(_inspect.getsource(PVV.validate_ast))).body[0]
    falls_back = any(isinstance(n, _pyast.If) and _pyast.unparse(n.test) == "validators is None" and
                     any(_pyast.unparse(b_) == "validators = [default_validator]" for b_ in n.body) for n in _pyast.walk(tree))
    for oid, ok, what in (("validate_ast:defaults-to-the-specified-rules", falls_back, "validate_ast no longer falls back to default_validator when no validators are given"),
                          ("default_validator:runs-SPECIFIED_RULES", sig.parameters["validators"].default is PV.SPECIFIED_RULES,
                           "default_validator's default rule set is not SPECIFIED_RULES")):
        run.cov["obligations"] += 1
        run.cov["backends"][backend] = run.cov["backends"].get(backend, 0) + 1
        if ok:
            run.cov["discharged"] += 1
        else:
            run.violation(oid, what, {}, False)
    run.trusted("vf/ref_validate.py: the 26 validation rules of section 5 as comprehension-style predicates (276 self-test cases incl. the specification's own examples)")
    # frame: validating a document writes nothing into the schema or the document (no memo on either, no marks on nodes): the verdict is a function of the two as they
    # are now, whatever was validated before (vf/aliascheck.py; one obligation per function / method of py_gql.validation; accumulator parameters are not protected)
    import importlib as _il, inspect as _inspect, pkgutil as _pk
    import py_gql.validation as _V
    from vf import aliascheck
    _mods = [_V] + [_il.import_module(m.name) for m in _pk.walk_packages(_V.__path__, _V.__name__ + ".")]
    _funcs = []
    for _M in _mods:
        _short = _M.__name__.split("py_gql.")[-1]
        for _n, _o in vars(_M).items():
            if _inspect.isfunction(_o) and _o.__module__ == _M.__name__:
                _funcs.append(("%s.%s" % (_short, _n), _o))
            if _inspect.isclass(_o) and _o.__module__ == _M.__name__:
                _funcs += [("%s.%s.%s" % (_short, _n, _k), _f) for _k, _f in vars(_o).items() if _inspect.isfunction(_f)]
    if len(_funcs) < 100:
        raise MachineryDefect("only %d functions found in py_gql.validation" % len(_funcs))
    _PROTECTED = ("schema", "document", "doc", "node", "ast_node", "definition", "operation", "fragment", "selection_set", "type_", "type_info", "variables", "ctx_schema")
    aliascheck.account(run, aliascheck.obligations(_funcs, "validate_ast", "validation leaves a trace on the schema or the document, so a later verdict (or execution) depends on the history",
                                                   protected=lambda a: a in _PROTECTED))
    return run.finish("other", "_types_conflict proved equal to SameResponseShape on types for all type expressions (Engine A, induction through its own "
                               "contract); bounded stand-in: verdict equality with a reference implementation of the specification's validation rules, attribution of "
                               "labelled violations, and verdict invariance under reordering / renaming / re-spacing (Schema.is_subtype, used by the "
                               "variable rules, is proved in C13)",
                      checker_cmd="./check C06 --tier %s" % tier)
