"""C02 - parsed trees mirror the source: structure, decoded values and spans."""
import contracts.lexer as LEX
from vf import engine_a, engine_b, frontend
from vf.report import MachineryDefect, Run


def check(tier, seed):
    run = Run("C02", tier, seed)
    ns = frontend.spec_namespace()
    jobs = 16
    # A. deductive: token payloads (verbatim names/numbers, escape decoding, raw block text, spans of tokens)
    verdicts = engine_a.run(run, LEX.CONTRACTS, ns, {}, engine_a.generic_instantiate(), jobs=jobs,
                            timeout_ms=20000 if tier == "thorough" else 10000,
                            skip=lambda oid: oid.endswith("position-in-text"))  # error positions belong to C01
    run.cov["parts"]["engine_a"] = verdicts
    # A1b. the same Lexer contracts evaluated at run time on the string and block-string families of the lexer corpus (every combination of the string pieces - escapes,
    # quotes, escaped and plain triple quotes, line ends, controls, astral characters - up to the tier's length): decoded values and token spans are the specification's;
    # this is what decides when a string reader leaves Engine A's subset (error positions stay with C01)
    total, accepted, sfails, evals = frontend.lexer_standin(LEX.CONTRACTS, tier, jobs, only=lambda t: '"' in t)
    if accepted == 0:
        raise MachineryDefect("no string text was tokenised")
    run.cov["evaluations"] += total
    run.cov["bounded_functions"].append({"functions": ["Lexer._read_string", "Lexer._read_block_string", "Lexer._read_escape_sequence", "Lexer._read_escaped_unicode", "Lexer.__next__"],
                                         "bound": "%d texts of the lexer corpus containing a quote (run-time contracts + whole-text tokenisation law)" % total})
    for clause, witness, detail in sfails:
        if "position-in-text" in clause:
            continue
        run.violation(clause, detail, witness if isinstance(witness, dict) else {"text": witness}, True)
    # A2. deductive: node class / constructor keywords / span discipline of every node the parser builds (Engine B, P5)
    engine_b.run(run, "C02")
    # B. bounded: parse_block_string == BlockStringValue
    nb, bfails = frontend.block_string_check(tier, jobs)
    run.cov["evaluations"] += nb
    run.cov["parts"]["block_string"] = {"raw_strings": nb, "alphabet": frontend.BLOCK_ALPHABET}
    run.cov["bounded_functions"].append({"functions": ["py_gql._string_utils.parse_block_string"],
                                         "bound": "all raw strings of length <= %d over %d class representatives + line compositions (%d inputs)"
                                                  % (6 if tier == "thorough" else 5, len(frontend.BLOCK_ALPHABET), nb)})
    for clause, witness, detail in bfails:
        run.violation(clause, detail, witness, True)
    # C. bounded: tree-vs-source contracts on every accepted corpus text
    nt, nodes, tfails = frontend.tree_check(tier, seed, jobs)
    if nt == 0 or nodes == 0:
        raise MachineryDefect("tree corpus is vacuous")
    run.cov["evaluations"] += nt
    run.cov["distinct_nontrivial"] += nt
    run.cov["parts"]["tree_contracts"] = {"accepted_texts": nt, "nodes_checked": nodes,
                                          "clauses": ["span-in-text", "nesting", "order", "leaf-verbatim", "string-decoded",
                                                      "operation-kind", "reparse", "no-location"]}
    run.cov["bounded_functions"].append({"functions": ["py_gql.lang.parser.Parser.parse_* (tree shape, spans)"],
                                         "bound": "%d accepted texts from the derivation enumerator (%d nodes)" % (nt, nodes)})
    for clause, witness, detail in tfails:
        run.violation(clause, detail, witness, True)
    run.sample({"text": "query Q($a: Int = 1) { f(x: \"\\u00e9\") }", "contract": "every node: span = first token start .. last token end; spanned text reparses to an equal node"})
    run.cov["rule"] = "accepted texts of the derivation corpus (distinct by construction); every node of each tree is checked"
    run.trusted("spec/lexical.py, spec/blockstring.py transcribe the specification (validated / reviewed; see C01 evidence)")
    run.assume("assumed contract of parse_block_string inside the lexer proof is exactly what part B checks at run time (bounded)")
    return run.finish("other",
                      "deductive: token payloads (Engine A on the real Lexer source); bounded: block string algorithm and tree/"
                      "span contracts over the enumerated corpus. Parser node-shape obligations (Engine B P5): see DESIGN.md",
                      checker_cmd="./check C02 --tier %s" % tier)
