"""C15 - introspection reports exactly the schema."""
from vf import engine_p
from vf import execharness as H
from vf import ref_coerce as RC
from vf import schemas
from vf.props import c11, c12
from vf.report import MachineryDefect, Run

KIND = None


def type_ref(t):
    from py_gql.schema import (EnumType, InputObjectType, InterfaceType, ListType, NonNullType, ObjectType, ScalarType, UnionType)
    if isinstance(t, NonNullType):
        return {"kind": "NON_NULL", "name": None, "ofType": type_ref(t.type)}
    if isinstance(t, ListType):
        return {"kind": "LIST", "name": None, "ofType": type_ref(t.type)}
    kind = {ScalarType: "SCALAR", ObjectType: "OBJECT", InterfaceType: "INTERFACE", UnionType: "UNION", EnumType: "ENUM", InputObjectType: "INPUT_OBJECT"}
    for cls, k in kind.items():
        if isinstance(t, cls):
            return {"kind": k, "name": t.name, "ofType": None}
    raise TypeError(t)


def norm_ref(r, depth=0):
    """introspection TypeRef result -> same shape as type_ref (the standard query asks for 7 ofType levels)"""
    if r is None:
        return None
    return {"kind": r["kind"], "name": r.get("name"), "ofType": norm_ref(r.get("ofType"), depth + 1)}


def expected_input_values(args):
    return [{"name": a.name, "description": a.description, "type": type_ref(a.type), "has_default": a.has_default_value,
             "default": a.default_value if a.has_default_value else None, "pytype": a.type} for a in args]


def expected_types(schema, include_deprecated=True):
    from py_gql.schema import (EnumType, InputObjectType, InterfaceType, ObjectType, ScalarType, UnionType)
    out = {}
    for name, t in schema.types.items():
        e = {"kind": type_ref(t)["kind"], "name": name, "description": t.description, "fields": None, "inputFields": None, "interfaces": None,
             "enumValues": None, "possibleTypes": None}
        if isinstance(t, (ObjectType, InterfaceType)):
            e["fields"] = [{"name": f.name, "description": f.description, "args": expected_input_values(f.arguments), "type": type_ref(f.type),
                            "isDeprecated": f.deprecation_reason is not None, "deprecationReason": f.deprecation_reason}
                           for f in t.fields if include_deprecated or f.deprecation_reason is None]
        if isinstance(t, ObjectType):
            e["interfaces"] = sorted(i.name for i in t.interfaces)
        if isinstance(t, (InterfaceType, UnionType)):
            # from the registry itself, not from the schema's own (memoised) index
            e["possibleTypes"] = sorted(o.name for o in schema.types.values() if isinstance(o, ObjectType) and (
                t in o.interfaces if isinstance(t, InterfaceType) else o in t.types))
        if isinstance(t, EnumType):
            e["enumValues"] = [{"name": v.name, "description": v.description, "isDeprecated": v.deprecation_reason is not None,
                                "deprecationReason": v.deprecation_reason} for v in t.values if include_deprecated or v.deprecation_reason is None]
        if isinstance(t, InputObjectType):
            e["inputFields"] = expected_input_values(t.fields)
        out[name] = e
    return out


def compare_input_values(where, got, want, run, w, schema):
    from py_gql.lang import parse_value
    from py_gql.utilities import value_from_ast
    if [g["name"] for g in got] != [x["name"] for x in want]:
        return "%s: input values %r, schema declares %r" % (where, [g["name"] for g in got], [x["name"] for x in want])
    for g, x in zip(got, want):
        if g.get("description") != x["description"]:
            return "%s.%s: description %r vs %r" % (where, x["name"], g.get("description"), x["description"])
        if norm_ref(g["type"]) != x["type"]:
            return "%s.%s: type %r vs %r" % (where, x["name"], norm_ref(g["type"]), x["type"])
        dv = g.get("defaultValue")
        if not x["has_default"]:
            if dv is not None:
                return "%s.%s: defaultValue %r although no default is declared" % (where, x["name"], dv)
            continue
        if not isinstance(dv, str):
            return "%s.%s: defaultValue %r is not a string for a declared default %r" % (where, x["name"], dv, x["default"])
        try:
            node = parse_value(dv)
            back = RC.coerce_literal(node, x["pytype"], {})
        except Exception as e:
            run.violation("introspection:default-value-is-graphql-syntax",
                          "%s.%s: defaultValue %r does not parse back as a value of type %s (%s); declared default %r"
                          % (where, x["name"], dv, c12.S6.type_str(x["pytype"]), type(e).__name__, x["default"]),
                          dict(w, where="%s.%s" % (where, x["name"]), default_value=dv, declared=repr(x["default"]), kind=_default_kind(x["default"])), True)
            continue
        if back != x["default"]:
            run.violation("introspection:default-value-is-graphql-syntax", "%s.%s: defaultValue %r parses back to %r, declared default is %r"
                          % (where, x["name"], dv, back, x["default"]),
                          dict(w, where="%s.%s" % (where, x["name"]), default_value=dv, declared=repr(x["default"]), kind=_default_kind(x["default"])), True)
    return None


def _default_kind(v):
    return type(v).__name__


def check_schema(run, schema, label):
    from py_gql import graphql_blocking
    from py_gql.utilities import introspection_query
    n = 0
    for descriptions in (True, False):
        n += 1
        w = {"schema": label, "descriptions": descriptions}
        try:
            res = graphql_blocking(schema, introspection_query(descriptions))
        except Exception as e:
            run.violation("introspection:standard-query-succeeds", "the standard introspection query raised %r" % (e,), dict(w, exc=type(e).__name__), True)
            continue
        if res.errors or not res.data:
            run.violation("introspection:standard-query-succeeds", "the standard introspection query fails: %r" % ([str(e) for e in res.errors][:2],), w, True)
            continue
        sch = res.data["__schema"]
        want = expected_types(schema)
        got_types = {t["name"]: t for t in sch["types"]}
        if set(got_types) != set(want):
            run.violation("introspection:exactly-the-schema-types", "types reported %r, schema has %r"
                          % (sorted(set(got_types) - set(want)), sorted(set(want) - set(got_types))), w, True)
            continue
        for name, e in want.items():
            g = got_types[name]
            diff = None
            if g["kind"] != e["kind"]:
                diff = "kind %r vs %r" % (g["kind"], e["kind"])
            elif descriptions and g.get("description") != e["description"]:
                diff = "description %r vs %r" % (g.get("description"), e["description"])
            elif (g["fields"] is None) != (e["fields"] is None) or (g["inputFields"] is None) != (e["inputFields"] is None) or \
                    (g["enumValues"] is None) != (e["enumValues"] is None):
                diff = "presence of fields / inputFields / enumValues differs"
            elif e["fields"] is not None:
                if [f["name"] for f in g["fields"]] != [f["name"] for f in e["fields"]]:
                    diff = "fields %r vs %r" % ([f["name"] for f in g["fields"]], [f["name"] for f in e["fields"]])
                else:
                    for gf, ef in zip(g["fields"], e["fields"]):
                        if norm_ref(gf["type"]) != ef["type"]:
                            diff = "%s: type %r vs %r" % (ef["name"], norm_ref(gf["type"]), ef["type"])
                        elif gf["isDeprecated"] != ef["isDeprecated"] or gf["deprecationReason"] != ef["deprecationReason"]:
                            diff = "%s: deprecation %r vs %r" % (ef["name"], (gf["isDeprecated"], gf["deprecationReason"]), (ef["isDeprecated"], ef["deprecationReason"]))
                        elif descriptions and gf.get("description") != ef["description"]:
                            diff = "%s: description" % ef["name"]
                        else:
                            diff = compare_input_values("%s.%s" % (name, ef["name"]), gf["args"], [dict(a, description=a["description"] if descriptions else None) for a in ef["args"]], run, w, schema)
                        if diff:
                            break
            if not diff and e["inputFields"] is not None:
                diff = compare_input_values(name, g["inputFields"], [dict(a, description=a["description"] if descriptions else None) for a in e["inputFields"]], run, w, schema)
            if not diff and e["enumValues"] is not None:
                gv = [{k: v.get(k) for k in ("name", "description", "isDeprecated", "deprecationReason")} for v in g["enumValues"]]
                ev = [dict(v, description=v["description"] if descriptions else None) for v in e["enumValues"]]
                if gv != ev:
                    diff = "enumValues %r vs %r" % (gv, ev)
            if not diff and e["interfaces"] is not None and sorted(i["name"] for i in (g["interfaces"] or [])) != e["interfaces"]:
                diff = "interfaces %r vs %r" % (g["interfaces"], e["interfaces"])
            if not diff and e["possibleTypes"] is not None and sorted(i["name"] for i in (g["possibleTypes"] or [])) != e["possibleTypes"]:
                diff = "possibleTypes %r vs %r" % (g["possibleTypes"], e["possibleTypes"])
            if diff:
                run.violation("introspection:reports-exactly-the-schema", "type %s: %s" % (name, diff), dict(w, type=name, diff=diff), True)
        roots = {"queryType": schema.query_type, "mutationType": schema.mutation_type, "subscriptionType": schema.subscription_type}
        for k, t in roots.items():
            if (sch[k] or {}).get("name") != (t.name if t else None):
                run.violation("introspection:reports-exactly-the-schema", "%s %r vs %r" % (k, sch[k], t.name if t else None), w, True)
        gd = {d["name"]: d for d in sch["directives"]}
        if set(gd) != set(schema.directives):
            run.violation("introspection:reports-exactly-the-schema", "directives %r vs %r" % (sorted(gd), sorted(schema.directives)), w, True)
        else:
            for dn, d in schema.directives.items():
                if list(gd[dn]["locations"]) != list(d.locations):
                    run.violation("introspection:reports-exactly-the-schema", "@%s locations %r vs %r" % (dn, gd[dn]["locations"], d.locations), w, True)
                diff = compare_input_values("@" + dn, gd[dn]["args"], [dict(a, description=a["description"] if descriptions else None) for a in expected_input_values(d.arguments)], run, w, schema)
                if diff:
                    run.violation("introspection:reports-exactly-the-schema", diff, w, True)
    # includeDeprecated false hides deprecated members
    q = "{ __schema { types { name fields(includeDeprecated: false) { name } enumValues(includeDeprecated: false) { name } d: fields { name } e: enumValues { name } } } }"
    try:
        res = graphql_blocking(schema, q)
    except Exception as e:
        run.violation("introspection:standard-query-succeeds", "includeDeprecated query raised %r" % (e,), {"schema": label, "exc": type(e).__name__}, True)
        return n + 1
    n += 1
    want = expected_types(schema, include_deprecated=False)
    if res.errors:
        run.violation("introspection:standard-query-succeeds", "includeDeprecated query fails: %r" % ([str(e) for e in res.errors][:2],), {"schema": label}, True)
    else:
        for t in res.data["__schema"]["types"]:
            e = want[t["name"]]
            for key, alias in (("fields", "d"), ("enumValues", "e")):
                exp = None if e[key] is None else [x["name"] for x in e[key]]
                for k in (key, alias):      # default of includeDeprecated is false
                    got = None if t[k] is None else [x["name"] for x in t[k]]
                    if got != exp:
                        run.violation("introspection:deprecated-members-hidden-unless-requested", "%s.%s: %r, non-deprecated members are %r" % (t["name"], k, got, exp),
                                      {"schema": label, "type": t["name"]}, True)
    # disable_introspection hides all of it, ordinary fields unaffected
    from py_gql import process_graphql_query
    root_field = schema.query_type.fields[0]
    for q, meta in (("{ __schema { types { name } } }", True), ("{ __type(name: \"Query\") { name } }", True), ("{ __typename }", False),
                    # the switch goes by the field, not by the response key it is given
                    ("{ s: __schema { types { name } } }", True), ("{ t: __type(name: \"Query\") { name } plain: __schema { queryType { name } } }", True),
                    ("{ ...F } fragment F on Query { inFragment: __schema { types { name } } }", True)):
        res = process_graphql_query(schema, q, disable_introspection=True)
        n += 1
        if meta and not res.errors and res.data and any(v is not None for v in res.data.values()):
            run.violation("introspection:disable-switch-hides-everything", "%s still resolves with disable_introspection=True: %r" % (q, res.data), {"schema": label, "query": q}, True)
    return n


def shared_type_schemas():
    from py_gql.schema import Field, Int, InterfaceType, ObjectType, Schema, String, UnionType
    shared = InterfaceType("Shared", [Field("x", Int)])
    a = ObjectType("A", [Field("x", Int)], interfaces=[shared])
    b = ObjectType("B", [Field("x", Int), Field("y", String)], interfaces=[shared])
    c = ObjectType("C", [Field("x", Int)], interfaces=[shared])
    small = Schema(ObjectType("Query", [Field("s", shared)]), types=[a])
    large = Schema(ObjectType("Query", [Field("s", shared), Field("b", b)]), types=[a, b, c])
    yield "shared-interface:small", small
    yield "shared-interface:large", large
    yield "shared-interface:small-again", small
    grown = Schema(ObjectType("Query", [Field("s", shared)]), types=[c])
    yield "shared-interface:other-member", grown


def check(tier, seed):
    from py_gql import build_schema
    run = Run("C15", tier, seed)
    n = 0
    sources = list(c12.schema_sources()) + [("exec", lambda: build_schema(H.EXEC_SDL))]
    if tier == "thorough":
        sources += [("edit:%s" % label, (lambda s: (lambda: build_schema(s)))(schemas.apply_edit(schemas.BASE_SDL, o, nw))) for label, o, nw, _e in schemas.EDITS]
    for name, make in sources:
        n += check_schema(run, make(), name)
    # two schemas built from SHARED type objects with different sets of implementations, and one schema introspected again after a type has been
    # added to it: the answer is a function of the schema being introspected, not of what was introspected earlier in the process
    for label, schema in shared_type_schemas():
        n += check_schema(run, schema, label)
    # ordinary fields are unaffected by the introspection switch (execution schema, world resolver)
    for cfg in ("blocking-executor", "executor-blocking"):
        for q in ("{ me { name age } count }", "{ __x: count me { __name: name __schema: age } __type: count }"):      # (aliases that merely look like meta fields)
            a = H.run_request(H.make_schema(), q, {}, {}, cfg)
            b = H.run_request(H.make_schema(), q, {}, {}, cfg, disable_introspection=True)
            n += 2
            if a["outcome"] != "result" or b["outcome"] != "result" or H.plain(a["result"].data) != H.plain(b["result"].data):
                run.violation("introspection:disable-switch-leaves-ordinary-fields-alone", "ordinary fields differ with disable_introspection=True", {"config": cfg, "query": q}, True)
    # a request that mixes ordinary fields with introspection: with the switch on, the ordinary fields are answered as if the meta fields were not there
    for cfg in ("blocking-executor", "executor-blocking"):
        mixed = "{ count s: __schema { types { name } } me { name __typename } __type(name: \"Query\") { name } }"
        plainq = "{ count me { name } }"
        a = H.run_request(H.make_schema(), plainq, {}, {}, cfg)
        b = H.run_request(H.make_schema(), mixed, {}, {}, cfg, disable_introspection=True)
        n += 2
        ok = a["outcome"] == "result" and b["outcome"] == "result" and isinstance(b["result"].data, dict)
        if ok:
            bd = b["result"].data
            ok = bd.get("count") == a["result"].data.get("count") and (bd.get("me") or {}).get("name") == a["result"].data["me"]["name"] \
                and bd.get("s") is None and bd.get("__type") is None
        if not ok:
            run.violation("introspection:disable-switch-leaves-ordinary-fields-alone", "with disable_introspection=True a request mixing ordinary fields and introspection "
                          "does not answer the ordinary fields (or answers the introspection ones): %s" % (b["result"].response() if b.get("result") else b.get("exc"),),
                          {"config": cfg, "query": mixed}, True)
    # a schema that other schemas were DERIVED from in the meantime (extended - members added to every kind of type -, cloned, transformed) still reports itself:
    # the answer of before and after are the same, and both pass the member-by-member comparison
    from py_gql import graphql_blocking
    from py_gql.schema.transforms import CamelCaseSchemaTransform, transform_schema
    from py_gql.sdl import extend_schema
    from py_gql.utilities import introspection_query
    EXT = ("extend enum Role { ROOT } extend type User { extra: Int } extend interface Named { alias: String } extend union Pet = User "
           "extend input Filter { more: Int = 1 } extend type Dog { alias: String } extend type Cat { alias: String } extend type User { alias: String } extend scalar Date @tag")
    base = build_schema(schemas.BASE_SDL)
    before = graphql_blocking(base, introspection_query()).response()
    for label, op in (("extend_schema", lambda: extend_schema(base, EXT)), ("extend_schema (refused)", lambda: extend_schema(base, "extend enum Role { ROOT, ADMIN }")),
                      ("clone", lambda: base.clone()), ("transform_schema", lambda: transform_schema(base, CamelCaseSchemaTransform()))):
        try:
            op()
        except Exception:
            pass            # (a refused extension is part of the history on purpose)
        after = graphql_blocking(base, introspection_query()).response()
        n += 1
        if after != before:
            diff = next((t for t in (after.get("data") or {}).get("__schema", {}).get("types", []) if t not in before["data"]["__schema"]["types"]), None)
            run.violation("introspection:answer-is-a-function-of-the-schema", "after %s was applied to a schema (deriving another one), the schema's own introspection result changed: %s" % (
                label, (diff or {}).get("name")), {"history": label, "changed_type": (diff or {}).get("name")}, True)
            break
    n += check_schema(run, base, "base-after-derivations")
    if n == 0:
        raise MachineryDefect("nothing introspected")
    run.cov["evaluations"] = n
    run.cov["distinct_nontrivial"] = len(sources)
    run.cov["rule"] = "%d schemas (SDL-built and code-built, defaults of enum / string / list / input-object / null kind, deprecations, custom directives) x " \
                      "standard introspection query with and without descriptions, includeDeprecated true / false / default, disable switch" % len(sources)
    run.cov["bounded_functions"].append({"functions": ["py_gql.schema.introspection (__Schema / __Type / __Field / __InputValue / __EnumValue / __Directive resolvers)",
                                                       "_format_default_value", "ResolutionContext.field_definition"], "bound": "%d introspection requests" % n})
    run.sample({"schema": "code", "contract": "every reported type / member / default == the schema object; parse_value(defaultValue) coerces to the declared default"})
    run.trusted("vf/ref_coerce.coerce_literal to read defaultValue strings back; execution itself (C04)")
    engine_p.run(run, 'C15')
    return run.finish("other", "bounded stand-in: the standard introspection query's result compared member by member with the schema objects; each "
                               "defaultValue parsed and coerced back to the declared default",
                      checker_cmd="./check C15 --tier %s" % tier)
