"""C07 - resolvers only receive arguments that conform to the declared input types."""
import json

import contracts.scalars as SC
import spec.scalars_spec as SS
from vf import engine_p
from vf import engine_a, ref_coerce as R
from vf.report import MachineryDefect, Run


def build_types():
    from py_gql.schema import (ID, Boolean, EnumType, Float, InputField, InputObjectType, Int, ListType, NonNullType, ScalarType,
                               String)
    color = EnumType("Color", [("RED", 1), ("GREEN", "g"), ("BLUE", 3)])
    any_ = ScalarType("Any", serialize=lambda x: x, parse=lambda x: x)
    inner = InputObjectType("Inner", lambda: [
        InputField("n", Int, default_value=7),
        InputField("req", NonNullType(String)),
        InputField("c", color, default_value=1),
        InputField("snake_name", Int, python_name="snakeName"),
        InputField("snake_def", Int, default_value=9, python_name="snakeDef"),        # a default AND another python name: filled in under the python name
        InputField("again", inner),
    ])
    outer = InputObjectType("Outer", [
        InputField("inner", inner),
        InputField("items", ListType(NonNullType(inner))),
        InputField("flag", Boolean, default_value=False),
        InputField("colors", ListType(color), default_value=[1, 3]),
    ])
    return {"Int": Int, "Float": Float, "String": String, "Boolean": Boolean, "ID": ID, "Color": color, "Any": any_,
            "Inner": inner, "Outer": outer}


def wrappers(tier):
    from py_gql.schema import ListType, NonNullType
    L, N = ListType, NonNullType
    ws = [("%s", lambda t: t), ("%s!", lambda t: N(t)), ("[%s]", lambda t: L(t)), ("[%s]!", lambda t: N(L(t))),
          ("[%s!]", lambda t: L(N(t))), ("[%s!]!", lambda t: N(L(N(t)))), ("[[%s]]", lambda t: L(L(t)))]
    if tier == "thorough":
        ws += [("[[%s!]!]!", lambda t: N(L(N(L(N(t)))))), ("[[%s]!]", lambda t: L(N(L(t))))]
    return ws


GOOD = {
    "Int": [0, 1, -1, 2147483647, -2147483648],
    "Float": [0.5, 1, -2.25, 1e10],
    "String": ["", "a", "é\"\\"],
    "Boolean": [True, False],
    "ID": ["x", 12],
    "Color": ["RED", "GREEN", "BLUE"],
    "Any": [1, "s"],
    "Inner": [{"req": "r"}, {"req": "r", "n": 1, "c": "BLUE", "snake_name": 4, "again": {"req": "q"}}, {"req": "r", "n": None}],
    "Outer": [{}, {"inner": {"req": "x"}, "items": [{"req": "y"}], "flag": True, "colors": ["RED"]}, {"items": {"req": "single"}}, {"colors": None}],
}
# natural JSON kind out of range, and structurally wrong values (object / list where a scalar or enum is expected,
# scalar where an object is expected, unknown fields / enum names, null / missing for non-null).  Cross-kind scalars
# (true for Int, 1 for String ...) are left out: the library's scalar parsers are lenient by design and the property
# only speaks about the natural JSON kind plus structurally wrong values.
BAD = {
    "Int": [2147483648, -2147483649, {"a": 1}, [1, 2]],
    "Float": [{"a": 1}, 10 ** 400, -(10 ** 400), float("inf"), float("nan")],
    "String": [{"a": 1}, ["a", "b"]],
    "Boolean": [],
    "ID": [{"a": 1}],
    "Color": ["PURPLE", "red", {"a": 1}],
    "Any": [],
    "Inner": [{}, {"req": None}, {"req": "r", "unknown": 1}, {"req": "r", "c": "PURPLE"}, "x", [1], {"req": "r", "again": {}}],
    "Outer": [{"inner": {}}, {"items": [None]}, {"items": [{"req": "r"}, {}]}, {"bogus": 1}, 3],
}


def literal(v, t):
    """GraphQL literal text of JSON value v at (unwrapped-named) type t; None when not expressible"""
    from py_gql.schema import EnumType, InputObjectType, ListType, NonNullType
    while isinstance(t, NonNullType):
        t = t.type
    if v is None:
        return "null"
    if isinstance(v, bool):
        return "true" if v else "false"
    if isinstance(v, (int, float)):
        return repr(v)
    if isinstance(v, str):
        if isinstance(t, EnumType) or (isinstance(t, ListType) and isinstance(_named(t), EnumType)):
            return v if v.isidentifier() else json.dumps(v)
        return json.dumps(v)
    if isinstance(v, (list, tuple)):
        it = t.type if isinstance(t, ListType) else t
        return "[" + ", ".join(literal(x, it) for x in v) + "]"
    if isinstance(v, dict):
        it = t
        while isinstance(it, (ListType, NonNullType)):
            it = it.type
        fm = {f.name: f.type for f in it.fields} if isinstance(it, InputObjectType) else {}
        return "{" + ", ".join("%s: %s" % (k, literal(x, fm.get(k, it))) for k, x in v.items()) + "}"
    return None


def _named(t):
    from py_gql.schema import ListType, NonNullType
    while isinstance(t, (ListType, NonNullType)):
        t = t.type
    return t


def values_for(base, wname, tier):
    g, b = GOOD[base], BAD[base]
    vals = [None] + g + b
    if "[" in wname:
        vals += [[], [g[0]], [g[0], None], [g[0], g[-1]], [[g[0]]], [[g[0], None], None], [None]]
        vals += [[x] for x in b[:2]]
    return vals


def check(tier, seed):
    from py_gql import graphql_blocking
    from py_gql.exc import CoercionError, InvalidValue
    from py_gql.lang import parse_value
    from py_gql.schema import Argument, Field, Int, ListType, NonNullType, ObjectType, Schema, String
    from py_gql.utilities import coerce_value, value_from_ast
    run = Run("C07", tier, seed)
    # --- A. deductive -------------------------------------------------------------------------------------
    ns = {k: v for k, v in vars(SS).items() if not k.startswith("__")}
    verdicts = engine_a.run(run, SC.CONTRACTS, ns, {}, engine_a.generic_instantiate(), jobs=1)
    run.cov["parts"]["engine_a"] = verdicts
    # coerce_int on str inputs: bounded stand-in of the part outside the subset
    from py_gql.schema.scalars import coerce_int
    n = nontrivial = 0
    for s_ in ["0", "12", "-7", "2147483647", "-2147483648", "2147483648", "-2147483649", "1.0", "1.5", "1e3", "", " ", "x", "1_0", "inf", "nan", "٣"]:
        n += 1
        try:
            r = coerce_int(s_)
            ok = isinstance(r, int) and R.MIN_INT <= r <= R.MAX_INT
            if not ok:
                run.violation("coerce_int:ensures:signed-32-bit", "coerce_int(%r) returned %r" % (s_, r), {"arg": s_}, True)
        except ValueError:
            pass
        except Exception as e:
            run.violation("coerce_int:raises:undeclared:%s" % type(e).__name__, "coerce_int(%r) raised %r" % (s_, e), {"arg": s_}, True)
    # --- B. bounded: function-level conformance and literal/variable agreement --------------------------------
    bases = build_types()
    calls = []

    def make_schema(t):
        def resolve_f(root, ctx, info, **kw):
            calls.append(dict(kw))
            return "ok"
        f = Field("f", String, args=[Argument("arg", t)], resolver=resolve_f)
        g = Field("g", String, args=[Argument("a", NonNullType(Int), default_value=5), Argument("b", bases["Inner"], default_value={"req": "d", "n": 7, "c": 1}),
                                      Argument("py_arg", Int, python_name="pyArg"), Argument("lst", ListType(String)), Argument("lst2", ListType(NonNullType(String)))], resolver=resolve_f)
        return Schema(ObjectType("Query", [f, g]))

    for base, bt in bases.items():
        for wname, wrap in wrappers(tier):
            t = wrap(bt)
            tname = wname % base
            schema = make_schema(t)
            fdef = schema.query_type.field_map["f"]
            for v in values_for(base, wname, tier):
                w = {"type": tname, "value": v}
                # (1) variable route, function level
                n += 1
                try:
                    want = ("ok", R.coerce_json(v, t))
                except R.Reject as e:
                    want = ("reject", str(e))
                try:
                    got = ("ok", coerce_value(v, t))
                except CoercionError as e:
                    got = ("reject", str(e))
                except Exception as e:
                    run.violation("coerce_value:raises:undeclared:%s" % type(e).__name__, "coerce_value(%r, %s) raised %r" % (v, tname, e), dict(w, exc=type(e).__name__), True)
                    got = None
                if got is not None:
                    nontrivial += want[0] == "ok"
                    _compare(run, "coerce_value", w, want, got, t, v, tname)
                # (2) literal route, function level
                lit = literal(v, t) if base != "Any" else None     # literal parsing of a custom scalar is the scalar's own business
                if lit is not None:
                    n += 1
                    try:
                        node = parse_value(lit)
                    except Exception:
                        node = None
                    if node is not None:
                        try:
                            want2 = ("ok", R.coerce_literal(node, t, {}))
                        except R.Reject as e:
                            want2 = ("reject", str(e))
                        try:
                            got2 = ("ok", value_from_ast(node, t, variables={}))
                        except InvalidValue as e:
                            got2 = ("reject", str(e))
                        except Exception as e:
                            run.violation("value_from_ast:raises:undeclared:%s" % type(e).__name__, "value_from_ast(%s, %s) raised %r" % (lit, tname, e),
                                          dict(w, literal=lit, exc=type(e).__name__), True)
                            got2 = None
                        if got2 is not None:
                            _compare(run, "value_from_ast", dict(w, literal=lit), want2, got2, t, v, tname)
                # (3) end to end: what the resolver sees through both routes
                for route in ("variable", "literal"):
                    if route == "literal" and lit is None:
                        continue
                    n += 1
                    del calls[:]
                    if route == "variable":
                        res = graphql_blocking(schema, "query ($v: %s) { f(arg: $v) }" % tname, variables={"v": v})
                        try:
                            vv = {"v": R.coerce_json(v, t)}
                            want3 = ("ok", R.coerce_arguments(fdef, _field_node("query ($v: %s) { f(arg: $v) }" % tname), vv))
                        except R.Reject as e:
                            want3 = ("reject", str(e))
                    else:
                        res = graphql_blocking(schema, "{ f(arg: %s) }" % lit)
                        try:
                            want3 = ("ok", R.coerce_arguments(fdef, _field_node("{ f(arg: %s) }" % lit), {}))
                        except R.Reject as e:
                            want3 = ("reject", str(e))
                    w3 = dict(w, route=route, literal=lit)
                    if want3[0] == "reject":
                        if calls:
                            run.violation("resolver:rejected-before-any-resolver-runs", "%s route, %s <- %r: the specification rejects (%s) but the resolver ran with %r"
                                          % (route, tname, v, want3[1], calls[0]), dict(w3, seen=repr(calls[0])), True)
                        elif not res.errors:
                            run.violation("resolver:rejected-before-any-resolver-runs", "%s route, %s <- %r: rejected input produced no error" % (route, tname, v), w3, True)
                    else:
                        if len(calls) != 1:
                            run.violation("resolver:receives-conforming-arguments", "%s route, %s <- %r: accepted by the specification but the resolver ran %d times (%s)"
                                          % (route, tname, v, len(calls), [str(e) for e in (res.errors or [])][:1]), dict(w3, why="resolver-not-called"), True)
                        else:
                            seen = calls[0]
                            if not _same(seen, want3[1]):
                                run.violation("resolver:receives-conforming-arguments", "%s route, %s <- %r: resolver saw %r, specification says %r"
                                              % (route, tname, v, seen, want3[1]), dict(w3, seen=repr(seen), expected=repr(want3[1])), True)
                            elif "arg" in seen and not R.conforms(seen["arg"], t):
                                run.violation("resolver:receives-conforming-arguments", "%s route: %r does not conform to %s" % (route, seen["arg"], tname), w3, True)
    # (4) absent / null / default handling of arguments
    schema = make_schema(bases["Int"])
    gdef = schema.query_type.field_map["g"]
    for q, variables in [("{ g }", {}), ("{ g(a: 1) }", {}), ("{ g(a: null) }", {}), ("query ($x: Int) { g(a: $x) }", {}), ("query ($x: Int) { g(a: $x) }", {"x": None}),
                         ("query ($x: Int) { g(a: $x) }", {"x": 3}), ("query ($x: Int!) { g(a: $x) }", {"x": 3}), ("{ g(b: null) }", {}), ("{ g(b: {req: \"z\"}) }", {}),
                         ("query ($b: Inner) { g(b: $b) }", {"b": {"req": "z"}}), ("query ($b: Inner) { g(b: $b) }", {"b": None}), ("query ($b: Inner) { g(b: $b) }", {}),
                         ("{ g(py_arg: 2) }", {}), ("query ($p: Int) { g(py_arg: $p) }", {}), ("query ($p: Int) { g(py_arg: $p) }", {"p": None}),
                         ("query ($p: Int = 9) { g(py_arg: $p) }", {}),
                         ("query ($t: String) { g(lst: [$t, \"k\"]) }", {}), ("query ($t: String) { g(lst: [$t]) }", {"t": None}),
                         ("query ($t: String) { g(lst: [$t]) }", {"t": "v"}),
                         ("query ($t: String!) { g(lst2: [$t]) }", {"t": "v"}),
                         # a defaulted nullable variable may stand at a non-null position; an explicit null for it is refused there, also as a list item / input field
                         ("query ($t: String = \"d\") { g(lst2: [$t]) }", {}), ("query ($t: String = \"d\") { g(lst2: [$t]) }", {"t": None}),
                         ("query ($t: String = \"d\") { g(lst2: [\"k\", $t]) }", {"t": None}), ("query ($t: String = \"d\") { g(lst2: [\"k\", $t]) }", {"t": "v"}),
                         ("query ($r: String = \"z\") { g(b: {req: $r}) }", {"r": None}), ("query ($r: String = \"z\") { g(b: {req: $r}) }", {}),
                         ("query ($r: String = \"z\") { g(b: {req: \"q\", again: {req: $r}}) }", {"r": None}), ("query ($o: Inner) { g(b: $o) }", {"o": {"req": "q", "again": {"req": "w"}}})]:
        n += 1
        nontrivial += 1
        del calls[:]
        res = graphql_blocking(schema, q, variables=variables)
        doc_vars = _coerced_variables(schema, q, variables)
        w = {"query": q, "variables": variables}
        if doc_vars is None:
            if calls:
                run.violation("resolver:rejected-before-any-resolver-runs", "%s with %r: variables are rejected by the specification but the resolver ran" % (q, variables), w, True)
            continue
        try:
            want = ("ok", R.coerce_arguments(gdef, _field_node(q), doc_vars))
        except R.Reject as e:
            want = ("reject", str(e))
        if want[0] == "reject":
            if calls:
                run.violation("resolver:rejected-before-any-resolver-runs", "%s with %r: the specification rejects (%s) but the resolver ran with %r"
                              % (q, variables, want[1], calls[0]), dict(w, seen=repr(calls[0]), why=want[1]), True)
        elif len(calls) != 1 or not _same(calls[0], want[1]):
            run.violation("resolver:receives-conforming-arguments", "%s with %r: resolver saw %r, specification says %r" % (q, variables, calls, want[1]),
                          dict(w, seen=repr(calls), expected=repr(want[1])), True)
    # (5) one selection resolved on several concrete types: each field definition gets its own coerced arguments
    from py_gql import build_schema
    sdl = """
    enum Mood { CALM ANGRY }
    interface Pet { speak(times: Int = 1): String }
    type Dog implements Pet { speak(times: Int = 2, mood: Mood = CALM): String }
    type Cat implements Pet { speak(times: Int = 9, mood: Mood = ANGRY, purr: Boolean = true): String }
    union Animal = Dog | Cat
    type Query { pets: [Pet] animals: [Animal] }
    """
    for order in (("Dog", "Cat", "Dog"), ("Cat", "Dog"), ("Cat", "Cat", "Dog")):
        for field, sel in (("pets", "speak"), ("pets", "speak(times: 4)"), ("animals", "... on Dog { speak } ... on Cat { speak }"),
                           ("pets", "a: speak b: speak(times: 3)")):
            s2 = build_schema(sdl)
            seen = []
            for tn in ("Dog", "Cat"):
                def rs(root, ctx, info, _tn=tn, **kw):
                    seen.append((_tn, info.path[-1] if hasattr(info, "path") else None, dict(kw)))
                    return "x"
                s2.register_resolver(tn, "speak", rs)
            for ab in ("Pet", "Animal"):
                s2.types[ab].resolve_type = lambda value, ctx, info: value["t"]
            root = {field: [{"t": t} for t in order]}
            n += 1
            nontrivial += 1
            res = graphql_blocking(s2, "{ %s { %s } }" % (field, sel), root=root)
            want = []
            for t in order:
                defaults = {"Dog": {"times": 2, "mood": "CALM"}, "Cat": {"times": 9, "mood": "ANGRY", "purr": True}}[t]
                if sel.startswith("a:"):
                    want += [(t, dict(defaults)), (t, dict(defaults, times=3))]
                elif "times: 4" in sel:
                    want.append((t, dict(defaults, times=4)))
                else:
                    want.append((t, dict(defaults)))
            got = [(t, kw) for t, _p, kw in seen]
            if res.errors or got != want:
                run.violation("resolver:receives-conforming-arguments",
                              "{ %s { %s } } over %r: resolvers saw %r, each type's own declared defaults give %r (errors %r)"
                              % (field, sel, order, got, want, [str(e) for e in (res.errors or [])][:1]),
                              {"query": "{ %s { %s } }" % (field, sel), "runtime_types": list(order), "seen": repr(got), "expected": repr(want)}, True)
    # (5) arguments of a custom directive, as handed to a resolver by ResolveInfo.get_directive_arguments: same coercion, same defaults, same python names;
    #     None when the directive is not used on the field
    from py_gql.schema import Directive
    dcalls = []

    def resolve_d(root, ctx, info, **kw):
        dcalls.append(info.get_directive_arguments("opts"))
        return "ok"
    ddef = Directive("opts", ["FIELD"], args=[Argument("n", NonNullType(Int), default_value=3), Argument("inner", bases["Inner"]), Argument("tags", ListType(NonNullType(String))),
                                              Argument("c", bases["Color"], default_value=1), Argument("py_arg", Int, python_name="pyArg")])
    dschema = Schema(ObjectType("Query", [Field("d", String, resolver=resolve_d)]), directives=[ddef])
    for q, variables in [("{ d }", {}), ("{ d @opts }", {}), ('{ d @opts(n: 5, tags: "x", c: GREEN, py_arg: 2) }', {}), ('{ d @opts(inner: {req: "r"}) }', {}),
                         ('{ d @opts(tags: ["a", "b"], inner: {req: "r", again: {req: "q", snake_name: 4}}) }', {}),
                         ("query ($n: Int!, $t: [String!], $c: Color) { d @opts(n: $n, tags: $t, c: $c) }", {"n": 7, "t": ["x"], "c": "BLUE"}),
                         ("query ($n: Int = 4, $t: [String!]) { d @opts(n: $n, tags: $t) }", {}), ("query ($i: Inner) { d @opts(inner: $i) }", {"i": {"req": "v"}}),
                         ("query ($i: Inner) { d @opts(inner: $i) }", {}), ("query ($i: Inner) { d @opts(inner: $i) }", {"i": None}),
                         ("query ($p: Int) { d @opts(py_arg: $p) }", {"p": 9}), ("{ d @opts(c: null, tags: null) }", {})]:
        n += 1
        nontrivial += 1
        del dcalls[:]
        res = graphql_blocking(dschema, q, variables=variables)
        w = {"query": q, "variables": variables, "directive": "@opts"}
        doc_vars = _coerced_variables(dschema, q, variables)
        if doc_vars is None:
            continue
        node = _field_node(q)
        used = [d_ for d_ in node.directives if d_.name.value == "opts"]
        try:
            want = ("ok", R.coerce_arguments(ddef, used[0], doc_vars)) if used else ("ok", None)
        except R.Reject as e:
            want = ("reject", str(e))
        if want[0] == "reject":
            if dcalls and dcalls[0] is not None:
                run.violation("resolver:rejected-before-any-resolver-runs", "%s with %r: the specification rejects the directive arguments (%s) but the resolver was handed %r"
                              % (q, variables, want[1], dcalls[0]), w, True)
            continue
        if len(dcalls) != 1:
            run.violation("resolver:receives-conforming-arguments", "%s with %r: accepted by the specification but the resolver ran %d times (%s)"
                          % (q, variables, len(dcalls), [str(e) for e in (res.errors or [])][:1]), dict(w, why="resolver-not-called"), True)
        elif (dcalls[0] is None) != (want[1] is None) or (want[1] is not None and not _same(dcalls[0], want[1])):
            run.violation("resolver:receives-conforming-arguments", "%s with %r: get_directive_arguments gave %r, the specification's coercion gives %r"
                          % (q, variables, dcalls[0], want[1]), dict(w, seen=repr(dcalls[0]), expected=repr(want[1])), True)
    if nontrivial == 0:
        raise MachineryDefect("no accepted case")
    run.cov["evaluations"] += n
    run.cov["distinct_nontrivial"] += nontrivial
    run.cov["rule"] = "9 named input types (5 built-in scalars, custom scalar, enum with internal values, two input objects, one recursive, defaults and " \
                      "python names) x %d wrapper shapes x value grids (conforming, null, boundary, wrong kind, unknown field / enum name, single-for-list); " \
                      "non-trivial = accepted by the reference coercion" % len(wrappers(tier))
    run.cov["bounded_functions"].append({"functions": ["coerce_value", "_coerce_list_value", "_coerce_input_object", "value_from_ast", "_extract_input_object",
                                                       "coerce_argument_values", "coerce_variable_values", "ResolutionContext.argument_values"],
                                         "bound": "%d (type, value, route) cases" % n})
    run.sample({"type": "[Inner!]", "value": [{"req": "r", "c": "BLUE"}], "expected_resolver_argument": [{"req": "r", "c": 3, "n": 7}]})
    run.trusted("vf/ref_coerce.py transcribes the specification's input coercion (sections 3.5-3.12, 6.1.2, 6.4.1)")
    run.assume("finite floats are modelled as arbitrary reals in the coerce_int proof (sound: the function only compares and truncates)")
    engine_p.run(run, 'C07')
    return run.finish("other", "deductive: coerce_int accepts exactly the integral values of the signed 32-bit range for int / bool / float / None inputs "
                               "and raises only ValueError (z3); bounded: coercion conformance, rejection before resolvers run, literal == variable route",
                      checker_cmd="./check C07 --tier %s" % tier)


def _field_node(query):
    from py_gql.lang import parse
    return parse(query).definitions[0].selection_set.selections[0]


def _coerced_variables(schema, query, variables):
    """variable values per the specification (defaults applied, absent stays absent); None when rejected"""
    from py_gql.lang import parse
    from py_gql.utilities import value_from_ast
    op = parse(query).definitions[0]
    out = {}
    for vd in op.variable_definitions:
        name = vd.variable.name.value
        t = schema.get_type_from_literal(vd.type)
        if name in variables:
            try:
                out[name] = R.coerce_json(variables[name], t)
            except R.Reject:
                return None
        elif vd.default_value is not None:
            out[name] = R.coerce_literal(vd.default_value, t, {})
        else:
            from py_gql.schema import NonNullType
            if isinstance(t, NonNullType):
                return None
    return out


def _same(a, b):
    return a == b and _types(a) == _types(b)


def _types(v):
    if isinstance(v, dict):
        return {k: _types(x) for k, x in v.items()}
    if isinstance(v, list):
        return [_types(x) for x in v]
    return type(v).__name__


def _compare(run, fn, w, want, got, t, v, tname):
    if want[0] == "reject" and got[0] == "ok":
        run.violation("%s:rejects-non-conforming" % fn, "%s accepts %r at type %s -> %r; the specification rejects it (%s)" % (fn, v, tname, got[1], want[1]),
                      dict(w, got=repr(got[1]), why=want[1]), True)
    elif want[0] == "ok" and got[0] == "reject":
        run.violation("%s:accepts-conforming" % fn, "%s rejects %r at type %s (%s); the specification coerces it to %r" % (fn, v, tname, got[1][:80], want[1]),
                      dict(w, expected=repr(want[1])), True)
    elif want[0] == "ok" and not _same(want[1], got[1]):
        run.violation("%s:ensures:conforms" % fn, "%s(%r, %s) == %r; the specification says %r" % (fn, v, tname, got[1], want[1]),
                      dict(w, got=repr(got[1]), expected=repr(want[1])), True)
