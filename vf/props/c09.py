"""C09 - top-level mutation fields run strictly one after another in document order."""
import multiprocessing as mp
import random

from vf import engine_p
from vf import execharness as H
from vf.props.c04 import _below, abandoned_below, compare
from vf.report import MachineryDefect, Run

MUTATIONS = [
    ("mutation { a(n: 1) b { name } c d }", {}),
    ("mutation { b { name friends { name age } } x: b { age strict } d }", {}),
    ("mutation { first: a(n: 1) second: a(n: 2) third: a(n: 3) }", {}),
    ("mutation { b { pets { ... on Dog { name owner { name } } ... on Cat { lives } } } c b2: b { name } }", {}),
    ("mutation { ...M d } fragment M on Mutation { a b { name } }", {}),
    ("mutation { ... on Mutation { c b { age } } a }", {}),
    ("mutation { only: b { name age } }", {}),
    ("mutation { ...All } fragment All on Mutation { a b { name } d }", {}),
    ("mutation { ... on Mutation { a c d } }", {}),
    ("mutation { ... { b { name } a } }", {}),
    ("mutation ($s: Boolean = true) { a @skip(if: $s) b { name } d }", {}),
    # the meta field among the root fields: one more response key at ITS place in document order
    ("mutation { a(n: 1) __typename b { name __typename } t: __typename d }", {}),
    ("mutation { b { name } kind: __typename }", {}),
    # a response key written more than once (directly, through a spread, through an inline fragment) keeps the place of its FIRST occurrence: that is its turn
    ("mutation { first: a(n: 1) second: b { name } ...F third: d } fragment F on Mutation { first: a(n: 1) }", {}),
    ("mutation { a(n: 1) c ... on Mutation { a(n: 1) d } c }", {}),
    ("mutation { x: b { name } d ... { x: b { age } } }", {}),
]
DEFERRED = [
    [("Mutation", "a"), ("Mutation", "b"), ("Mutation", "c"), ("Mutation", "d")],
    [("Person", "name"), ("Person", "age"), ("Person", "friends"), ("Person", "strict")],
    [("Mutation", "b"), ("Person", "name"), ("Person", "friends"), ("Person", "pets"), ("Dog", "name"), ("Dog", "owner"), ("Cat", "lives")],
    [("Mutation", "a"), ("Mutation", "c"), ("Person", "age"), ("Person", "name")],
]


SAME_ROOT_SDL = H.EXEC_SDL + "\nschema { query: Query mutation: Query subscription: Subscription }\n"
SAME_ROOT_MUTATIONS = [("mutation { count me { name age } people { name } again: count }", {}), ("mutation { me { friends { name } } count }", {})]
SAME_ROOT_DEFERRED = [[("Query", "me"), ("Query", "count"), ("Query", "people"), ("Person", "name")], [("Person", "name"), ("Person", "age"), ("Person", "friends")]]


def serial_contract(log, top_keys, expected_paths):
    """invoke(k[i+1]) after finished(k[i]) incl. its whole sub-selection; returns failure text or None"""
    first_invoke, last_finish, finished = {}, {}, {}
    for i, ev in enumerate(log):
        k = ev[1][0]
        if ev[0] == "invoke":
            first_invoke.setdefault(k, i)
        else:
            last_finish[k] = i
            finished.setdefault(k, set()).add(ev[1])
    for a, b in zip(top_keys, top_keys[1:]):
        if b not in first_invoke:
            return "top-level field %r was never resolved" % b
        if a not in last_finish:
            return "top-level field %r never finished" % a
        if first_invoke[b] < last_finish[a]:
            return "resolver of %r was invoked (event %d) before %r and its sub-selection had finished (event %d)" % (b, first_invoke[b], a, last_finish[a])
        missing = [p for p in expected_paths if p[0] == a and p not in finished.get(a, ())]
        if missing:
            return "%r started although %d resolvers below %r never ran: %r" % (b, len(missing), a, missing[:2])
    return None


def _chunk(args):
    items, cap = args
    fails, n, orders, tmax = [], 0, 0, 0
    for query, variables, wname, world, dset, *more in items:
        sdl = more[0] if more else H.EXEC_SDL
        ref_schema = H.make_schema(sdl=sdl)
        exp = H.reference(ref_schema, query, variables, world)
        if exp[0] != "result":
            continue
        top = [k for k, _v in exp[1][1]]
        paths = [p for p, _pt, _fn, _t in exp[3].visited]
        # (meta fields are answered by the library itself, not by a resolver of the world: the serial contract speaks of resolver invocations; their place in
        #  the response is judged by the comparison with the reference)
        top = [k for k in top if any(p_[0] == k for p_ in paths)]
        w = {"query": query, "world": wname, "deferred": [".".join(x) for x in dset]}
        for cfg, asyn in (("blocking-executor", False), ("executor-blocking", False), ("executor-threadpool", False), ("executor-asyncio", True)):
            prefix, runs = [], 0
            while prefix is not None and runs < cap:
                sched = H.Schedule(prefix)
                got = H.run_request(H.make_schema(dset, asynchronous=asyn, sdl=sdl), query, variables, world, cfg, schedule=sched)
                runs += 1
                n += 1
                tmax = max(tmax, got.get("tasks", 0))
                ww = dict(w, config=cfg, schedule=list(sched.taken))
                if got["outcome"] != "result":
                    fails.append(("mutation:completes", ww, "mutation did not produce a result: %s %r" % (got["outcome"], got.get("exc"))))
                else:
                    gone = abandoned_below(world)
                    bad = compare(exp, got, ignore_below=gone)
                    if bad:
                        fails.append(("mutation:result-in-document-order", ww, bad[1]))
                    bad2 = serial_contract([ev for ev in got["log"] if not _below(ev[1], gone)], top, [p_ for p_ in paths if not _below(p_, gone)])
                    if bad2:
                        fails.append(("mutation:top-level-fields-run-serially", ww, "%s, order %r: %s" % (cfg, sched.taken, bad2)))
                prefix = H.next_prefix(sched) if cfg in ("executor-threadpool", "executor-asyncio") else None
            orders += runs
    return n, orders, tmax, fails


def check(tier, seed):
    run = Run("C09", tier, seed)
    rnd = random.Random(seed)
    schema = H.make_schema()
    items = []
    for (query, variables) in MUTATIONS:
        _n, worlds = H.worlds_for(schema, query, variables, with_boom=False)
        if tier != "thorough":
            worlds = worlds[:1] + rnd.sample(worlds[1:], min(len(worlds) - 1, 5))
        for dset in DEFERRED:
            for wname, world in worlds:
                items.append((query, variables, wname, world, dset))
    # a schema whose mutation root is the SAME type as its query root: what makes an operation serial is that it is a mutation, not what its root type is
    same_root = H.make_schema(sdl=SAME_ROOT_SDL)
    for query, variables in SAME_ROOT_MUTATIONS:
        _n, worlds = H.worlds_for(same_root, query, variables, with_boom=False)
        worlds = worlds[:1] + rnd.sample(worlds[1:], min(len(worlds) - 1, 3))
        for dset in SAME_ROOT_DEFERRED:
            for wname, world in worlds:
                items.append((query, variables, wname, world, dset, SAME_ROOT_SDL))
    cap = 240 if tier == "thorough" else 30
    jobs = 16
    size = max(1, len(items) // (jobs * 4))
    chunks = [(items[i:i + size], cap) for i in range(0, len(items), size)]
    n = orders = tmax = 0
    with mp.get_context("fork").Pool(jobs) as pool:
        for k, o, t, fails in pool.imap_unordered(_chunk, chunks):
            n += k
            orders += o
            tmax = max(tmax, t)
            for clause, w, detail in fails:
                run.violation(clause, detail, w, True)
    if n == 0 or tmax < 2:
        raise MachineryDefect("no deferred mutation schedule explored")
    run.cov["evaluations"] = n
    run.cov["distinct_nontrivial"] = orders
    run.cov["parts"]["mutations"] = {"requests": len(items), "executions": n, "max_tasks": tmax, "cap_per_request": cap}
    run.cov["rule"] = "%d mutation documents (1..4 top-level fields, fragments at the top, nested deferred sub-fields) x 4 deferred-field sets x worlds with a " \
                      "ResolverError / null at each position x 4 configurations x every completion order up to %d per request" % (len(MUTATIONS), cap)
    run.cov["bounded_functions"].append({"functions": ["Executor.execute_fields_serially", "execute (strategy selection)", "BlockingExecutor.execute_fields"],
                                         "bound": "%d executions" % n})
    run.sample({"mutation": MUTATIONS[1][0], "contract": "invoke(x) only after every resolver below the first b has finished"})
    run.assume("callbacks run atomically (one thread); pre-emptive interleavings are outside this family's reach")
    engine_p.run(run, 'C09')
    return run.finish("other", "trace contracts over every syntactic path of the real function (Engine P, unbounded in the inputs, values abstracted) + bounded stand-in: serial-trace contract on the resolver event log + result == reference for every enumerated completion order",
                      checker_cmd="./check C09 --tier %s" % tier)
