"""C04 - execution yields the specified result for every valid operation."""
import json
import multiprocessing as mp
import random

from vf import engine_p
from vf import memocheck
from vf import execharness as H
from vf.report import MachineryDefect, Run


def abandoned_below(world):
    """paths of list fields whose value fails while it is consumed (world kind gen-error): what happens to the resolvers of the items already handed out -
    in flight on a deferring runtime, abandoned when the list fails - is not specified; events strictly below such a path are not judged"""
    return [k for k, v in (world or {}).items() if isinstance(k, tuple) and v and v[0] == "gen-error"]


def _below(path, roots):
    return any(len(path) > len(r) and tuple(path[:len(r)]) == r for r in roots)


def compare(expected, got, arguments=True, ignore_below=()):
    """expected: H.reference(...) tuple; got: H.run_request(...) dict -> (clause, detail) or None; arguments=False leaves the resolver-argument
    comparison out (C05: how a custom scalar without a literal parser reads a literal is the scalar's business)"""
    kind = expected[0]
    if kind == "exception" and str(expected[1]).startswith("unrepresentable leaf at ") and got["outcome"] == "result":
        # a resolver result the leaf type cannot represent: the library fails the request; reporting it as an error of that field (null + one error with
        # its path) is the other reading the specification allows - accepted as long as the error is there (agreement between configurations is C08's
        # comparison of each configuration with this same judgement)
        where = str(expected[1])[len("unrepresentable leaf at "):].split(": ")[0]
        if any(repr(tuple(e.path)) == where for e in got["result"].errors if getattr(e, "path", None) is not None):
            return None
        return ("execute:unrepresentable-leaf-is-reported", "a resolver result the leaf type cannot represent at %s gave a result without an error for that path" % where)
    if kind == "exception":
        if got["outcome"] != "exception":
            return ("execute:unexpected-exception-fails-the-request", "the reference fails the whole request (%s) but the library returned %s"
                    % (expected[1], got["outcome"]))
        if expected[1] == "unexpected" and not (isinstance(got["exc"], RuntimeError) and str(got["exc"]) == "unexpected"):
            return ("execute:unexpected-exception-surfaces-unchanged", "the resolver's RuntimeError('unexpected') was replaced by %r" % (got["exc"],))
        import py_gql.exc as X
        for cls in (IndexError, KeyError, X.UnknownEnumValue, X.InvalidValue):
            if expected[1].startswith(cls.__name__) and not isinstance(got["exc"], cls):
                return ("execute:unexpected-exception-surfaces-unchanged", "the resolver's %s was replaced by %r" % (cls.__name__, got["exc"]))
        return None
    if kind == "request-error":
        if got["outcome"] != "result" or got["result"].data is not None or not got["result"].errors:
            return ("execute:request-error", "reference: request error (%s); library: %s" % (expected[1], got["outcome"]))
        return None
    if got["outcome"] != "result":
        return ("execute:never-raises-for-valid-requests", "library %s: %r" % (got["outcome"], got.get("exc")))
    res = got["result"]
    if H.plain(res.data) != expected[1]:
        return ("execute:data-is-the-specified-result", "data %r; the specification's algorithm gives %r" % (_short(H.plain(res.data)), _short(expected[1])))
    le = H.lib_errors(res)
    if ignore_below:
        le = [e for e in le if e[0] is None or not _below(e[0], ignore_below)]
        expected = (expected[0], expected[1], [e for e in expected[2] if e[0] is None or not _below(e[0], ignore_below)], expected[3])
    if le != expected[2]:
        return ("execute:one-error-per-failed-position", "errors %r; the specification's algorithm gives %r" % (le[:4], expected[2][:4]))
    # every error names each field node of its position once (a fragment collected twice would list a location twice)
    for e in res.errors:
        locs = [n.loc for n in (getattr(e, "nodes", None) or []) if getattr(n, "loc", None)]
        if len(locs) != len(set(locs)):
            return ("execute:error-locations-are-distinct", "an error lists the same field node twice: %r" % (locs,))
    # ResolveFieldValue(objectType, objectValue, fieldName, argumentValues): every resolver is handed CoerceArgumentValues of the field
    # definition of ITS runtime object type (6.4.1), whatever was executed before it
    want = sorted(((ev[1], H._freeze(ev[2])) for ev in expected[3].trace if ev[0] == "invoke" and not _below(ev[1], ignore_below)), key=repr)
    have = sorted(((ev[1], H._freeze(ev[2])) for ev in got["log"] if ev[0] == "invoke" and not _below(ev[1], ignore_below)), key=repr)
    if arguments and want != have:
        diff = [x for x in have if x not in want][:3]
        return ("execute:resolvers-receive-the-coerced-arguments-of-their-own-field-definition",
                "resolver invocations (path, arguments) %r; the specification's algorithm gives %r" % (diff, [x for x in want if x not in have][:3]))
    return None


def _short(x):
    s = repr(x)
    return s if len(s) < 300 else s[:300] + "..."


def type_resolution_contract(run):
    from py_gql import build_schema, process_graphql_query
    from py_gql.execution import BlockingExecutor, Executor
    sdl = "interface Named { name: String } union Pet = Dog | Cat type Dog implements Named { name: String barks: Int } type Cat implements Named { name: String lives: Int } " \
          "type Query { byName: [Named] byObject: [Named] byDefault: [Pet] byClass: [Pet] wrong: Named }"

    class Dog:
        name, barks = "d", 1

    class Cat:
        name, lives = "c", 9
    query = "{ byName { __typename name ... on Dog { barks } ... on Cat { lives } } byObject { __typename name } byDefault { __typename ... on Dog { barks } ... on Cat { lives } } " \
            "byClass { __typename ... on Cat { lives } } wrong { name } }"
    want = {"byName": [{"__typename": "Dog", "name": "d", "barks": 1}, {"__typename": "Cat", "name": "c", "lives": 9}],
            "byObject": [{"__typename": "Cat", "name": "c"}, {"__typename": "Dog", "name": "d"}],
            "byDefault": [{"__typename": "Dog", "barks": 1}, {"__typename": "Cat", "lives": 9}, {"__typename": "Cat", "lives": 7}],
            "byClass": [{"__typename": "Cat", "lives": 9}, {"__typename": "Dog"}], "wrong": None}
    n = 0
    for label, ex in (("blocking-executor", BlockingExecutor), ("executor-blocking", Executor)):
        for derived in (False, True):
            schema = build_schema(sdl)
            named = schema.get_type("Named")
            dog_t, cat_t = schema.get_type("Dog"), schema.get_type("Cat")
            mode = {"m": "name"}
            named.resolve_type = lambda value, ctx, info: ("Nope" if value == "bad" else
                                                           (type(value).__name__ if mode["m"] == "name" else {"Dog": dog_t, "Cat": cat_t}[type(value).__name__]))
            root = {"byName": [Dog(), Cat()], "byObject": [Cat(), Dog()], "byDefault": [{"__typename__": "Dog", "barks": 1}, {"__typename__": "Cat", "lives": 9},
                    type("Other", (), {"__typename__": "Cat", "lives": 7})()], "byClass": [Cat(), Dog()], "wrong": "bad"}
            if derived:
                schema = schema.clone()          # (a type resolver written against the source's type objects keeps working on a copy)
            n += 1
            w = {"schema": sdl, "query": query, "config": label, "cloned": derived}
            got = {}
            try:
                # byName with names, byObject with type objects: two requests, the resolver's mode switched in between
                r1 = process_graphql_query(schema, "{ byName { __typename name ... on Dog { barks } ... on Cat { lives } } byDefault { __typename ... on Dog { barks } ... on Cat { lives } } "
                                                   "byClass { __typename ... on Cat { lives } } }", root=root, executor_cls=ex)
                mode["m"] = "object"
                r2 = process_graphql_query(schema, "{ byObject { __typename name } }", root=root, executor_cls=ex)
                got = dict(r1.data or {})
                got.update(r2.data or {})
                errs = list(r1.errors or []) + list(r2.errors or [])
            except Exception as e:
                run.violation("execute:abstract-type-resolution", "resolving abstract types made the request raise %r" % (e,), dict(w, exc=type(e).__name__), True)
                continue
            plain_ = json.loads(json.dumps(got))
            expect = {k: v for k, v in want.items() if k != "wrong"}
            if errs or plain_ != expect:
                bad = [k for k in expect if plain_.get(k) != expect[k]]
                run.violation("execute:abstract-type-resolution", "abstract type resolution differs from the documented order at %r: %r (errors %r)"
                              % (bad, {k: plain_.get(k) for k in bad}, [str(e) for e in errs][:2]), dict(w, differs_at=bad), True)
    run.cov["bounded_functions"].append({"functions": ["Executor.resolve_type"], "bound": "type resolver answering by name / by object type, __typename__ key / attribute, "
                                                                                       "class name; source and cloned schema; 2 executors"})
    return n


def default_resolver_contract(run):
    """the library's own default resolver (the harness installs a schema default resolver, so the requests above never reach it) against its documented lookup:
    a mapping answers with the value under the field's python name or null - whatever the name is; another object with its attribute of that name, called
    with (context, info, **arguments) when callable; null otherwise.  Run through the public entry point on both synchronous executors."""
    from py_gql import build_schema, process_graphql_query
    from py_gql.execution import BlockingExecutor, Executor
    names = ["title", "items", "keys", "values", "get", "copy", "pop", "update", "count", "index"]      # field names that are also methods of dict / list / str
    sdl = "type Thing { %s } type Query { asDict: Thing asObject: Thing asEmptyDict: Thing asBareObject: Thing asMethods: Thing }" % " ".join(
        "%s(n: Int = 2): String" % x for x in names)

    class Obj:
        pass

    class Methods:
        pass
    full = {x: "v-" + x for x in names}
    obj = Obj()
    for x in names:
        setattr(obj, x, "o-" + x)
        setattr(Methods, x, (lambda x_: lambda self, ctx, info, n=None: "m-%s-%s-%s" % (x_, ctx, n))(x))
    root = {"asDict": full, "asObject": obj, "asEmptyDict": {}, "asBareObject": Obj(), "asMethods": Methods()}
    want = {"asDict": full, "asObject": {x: "o-" + x for x in names}, "asEmptyDict": dict.fromkeys(names), "asBareObject": dict.fromkeys(names),
            "asMethods": {x: "m-%s-CTX-2" % x for x in names}}
    query = "{ %s }" % " ".join("%s { %s }" % (k, " ".join(names)) for k in want)
    n = 0
    for label, ex in (("blocking-executor", BlockingExecutor), ("executor-blocking", Executor)):
        n += 1
        w = {"schema": sdl, "query": query, "config": label}
        try:
            res = process_graphql_query(build_schema(sdl), query, root=root, context="CTX", executor_cls=ex)
        except Exception as e:
            run.violation("default_resolver:documented-lookup", "the default resolver made the request raise %r" % (e,), dict(w, exc=type(e).__name__), True)
            continue
        got = {k: dict(v) if v is not None else None for k, v in (res.data or {}).items()}
        if res.errors or got != want:
            bad = [(k, x) for k in want for x in names if (got.get(k) or {}).get(x) != want[k][x]][:4]
            run.violation("default_resolver:documented-lookup", "default resolution differs from the documented lookup at %r (errors: %r)" % (bad, [str(e) for e in res.errors][:2]),
                          dict(w, differs_at=bad), True)
    run.cov["bounded_functions"].append({"functions": ["py_gql.execution.default_resolver.default_resolver"],
                                         "bound": "5 kinds of parent value x %d field names (incl. names of dict / list / str methods), 2 executors" % len(names)})
    return n


def _chunk(items):
    schema = H.make_schema()
    fails, n, nontriv = [], 0, 0
    for query, variables, opname, wname, world in items:
        exp = H.reference(schema, query, variables, world, opname)
        nontriv += exp[0] == "result"
        for cfg in ("blocking-executor", "executor-blocking"):
            n += 1
            got = H.run_request(schema, query, variables, world, cfg, operation_name=opname)
            bad = compare(exp, got, ignore_below=abandoned_below(world))
            if bad:
                fails.append((bad[0], {"query": query, "variables": variables, "world": wname, "config": cfg}, bad[1]))
    return n, nontriv, fails


def corpus(tier, seed=0):
    from vf import gen_ops
    schema = H.make_schema()
    items = []
    for query, variables in H.OPERATIONS:
        name, worlds = H.worlds_for(schema, query, variables, with_boom=True, limit=None if tier == "thorough" else 40)
        for wname, world in worlds:
            items.append((query, variables, name, wname, world))
    gen, _rej = gen_ops.generate(schema, 600 if tier == "thorough" else 150, seed)
    for query, variables in gen:
        try:
            name, worlds = H.worlds_for(schema, query, variables, with_boom=True, limit=30 if tier == "thorough" else 10)
        except Exception:
            worlds, name = [("default", {})], None       # the reference itself rejects the request (variables): still compared
        for wname, world in worlds:
            items.append((query, variables, name, wname, world))
    return items


def check(tier, seed):
    run = Run("C04", tier, seed)
    rnd = random.Random(seed)
    items = corpus(tier, seed)
    jobs = 16
    size = max(1, len(items) // (jobs * 4))
    chunks = [items[i:i + size] for i in range(0, len(items), size)]
    n = nontriv = 0
    ctx = mp.get_context("fork")
    with ctx.Pool(jobs) as pool:
        for k, nt, fails in pool.imap_unordered(_chunk, chunks):
            n += k
            nontriv += nt
            for clause, w, detail in fails:
                run.violation(clause, detail, w, True)
    if nontriv == 0:
        raise MachineryDefect("no request produced a result")
    # history independence: the same request after every ordered pair of earlier requests on ONE schema object
    schema = H.make_schema()
    fresh = {}
    sample = rnd.sample(items, min(len(items), 60 if tier != "thorough" else 240))
    for it in sample:
        query, variables, opname, wname, world = it
        fresh[id(it)] = H.reference(H.make_schema(), query, variables, world, opname)
    hist = 0
    for a in sample[:12]:
        for b in sample[12:24]:
            for it in (a, b, a):
                query, variables, opname, wname, world = it
                got = H.run_request(schema, query, variables, world, "blocking-executor", operation_name=opname)
                bad = compare(fresh[id(it)], got)
                hist += 1
                if bad:
                    run.violation("execute:independent-of-earlier-requests", "after earlier requests on the same schema object: " + bad[1],
                                  {"query": query, "world": wname, "history": [a[0], b[0]]}, True)
    n += default_resolver_contract(run)
    # ResolveAbstractType: a type resolver of the abstract type decides (answering with a type name or the object type itself), otherwise the value's
    # __typename__ (key or attribute), otherwise the name of its Python class
    n += type_resolution_contract(run)
    # GetOperation: the operation name selects among the operations, and must name one of them - also when the document has only one
    for query, opname in [("query A { count }", "A"), ("query A { count }", "Nope"), ("{ count }", "X"), ("{ count }", None), ("query A { count } query B { me { name } }", "B"),
                          ("query A { count } query B { me { name } }", None), ("query A { count } query B { me { name } }", "C"), ("mutation M { d }", "Other"),
                          ("mutation M { d }", "M"), ("query A { count } mutation A2 { d }", "A2")]:
        for cfg in ("blocking-executor", "executor-blocking"):
            n += 1
            exp = H.reference(H.make_schema(), query, {}, {}, opname)
            got = H.run_request(H.make_schema(), query, {}, {}, cfg, operation_name=opname)
            bad = compare(exp, got)
            if bad:
                run.violation(bad[0].replace("execute:request-error", "execute:operation-selected-by-name"), "operation_name=%r on %r: %s" % (opname, query, bad[1]),
                              {"query": query, "operation_name": opname, "config": cfg}, True)
    run.cov["evaluations"] = n + hist
    run.cov["distinct_nontrivial"] = nontriv
    run.cov["parts"]["requests"] = {"operations": len({i[0] for i in items}), "request_world_pairs": len(items), "executions": n, "history_runs": hist}
    run.cov["rule"] = "%d operations over one schema covering all output kinds x (default world + null / ResolverError / list-with-null / empty list / " \
                      "unexpected exception at every resolved path); non-trivial = reference yields a result (distinct (operation, world) pairs)" % len(H.OPERATIONS)
    run.cov["bounded_functions"].append({"functions": ["collect_fields", "Executor.execute_fields", "Executor.resolve_field", "Executor.complete_value",
                                                       "Executor.resolve_type", "BlockingExecutor.*", "execute", "process_graphql_query"],
                                         "bound": "%d (operation, world) pairs x 2 synchronous configurations + %d history runs" % (len(items), hist)})
    run.sample({"operation": H.OPERATIONS[3][0], "world": "error@('me', 'pets', 0, 'name')", "contract": "ordered data and error multiset == reference executor"})
    run.trusted("vf/ref_exec.py transcribes section 6 of the specification (with the non-propagating null documented by C04); vf/ref_coerce.py")
    run.assume("no deductive obligation: the executor is continuation-passing code over closures and runtime protocol objects (outside the VC generator's subset)")
    engine_p.run(run, "C04")
    memocheck.run(run)
    # BlockingExecutor has no separate serial strategy: its loop is sequential by construction
    from py_gql.execution.blocking_executor import BlockingExecutor
    run.cov["obligations"] += 1
    run.cov["backends"]["class attribute identity"] = 1
    if BlockingExecutor.__dict__.get("execute_fields_serially") is BlockingExecutor.__dict__.get("execute_fields"):
        run.cov["discharged"] += 1
    else:
        run.violation("BlockingExecutor:serial-is-the-sequential-loop", "BlockingExecutor.execute_fields_serially is no longer its (sequential) execute_fields", {}, False)
    # frame: executing a request writes nothing into the schema, the document or the supplied variables (no memo on a type, a field definition or a node, no mark):
    # "the result does not depend on requests previously served by the same schema object" for every request (vf/aliascheck.py, protected roots; one obligation per function)
    import importlib as _il, inspect as _inspect
    from vf import aliascheck
    _funcs = []
    for _m in ("py_gql.execution.executor", "py_gql.execution.blocking_executor", "py_gql.execution.wrappers", "py_gql.execution.execute", "py_gql.execution.subscribe",
               "py_gql.execution.get_operation", "py_gql.utilities.collect_fields", "py_gql.utilities.coerce_value", "py_gql.utilities.value_from_ast", "py_gql._graphql"):
        try:
            _M = _il.import_module(_m)
        except ImportError:
            continue
        _short = _m.split("py_gql.")[-1]
        for _n, _o in vars(_M).items():
            if _inspect.isfunction(_o) and _o.__module__ == _M.__name__:
                _funcs.append(("%s.%s" % (_short, _n), _o))
            if _inspect.isclass(_o) and _o.__module__ == _M.__name__:
                _funcs += [("%s.%s.%s" % (_short, _n, _k), _f) for _k, _f in vars(_o).items() if _inspect.isfunction(_f)]
    if len(_funcs) < 40:
        raise MachineryDefect("only %d execution functions found" % len(_funcs))
    _PROT = ("schema", "document", "doc", "node", "nodes", "field_definition", "field_def", "parent_type", "operation", "fragment", "fragments", "selection_set", "selections", "type_",
             "variables", "coerced_variables", "field_type", "inner_type", "abstract_type", "object_type", "ast")
    aliascheck.account(run, aliascheck.obligations(_funcs, "execute", "executing a request leaves a trace on the schema, the document or the variables, so a later request depends on the history",
                                                   protected=lambda a: a in _PROT))
    return run.finish("other", "trace contracts over every path of the executor's skeleton (complete_value dispatch, _handle_non_nullable_value, execute_fields; Engine P) + "
                               "bounded stand-in: end-to-end functional contract (ordered data + error multiset == reference execution algorithm) over "
                               "enumerated operations x resolver worlds, and independence from earlier requests on the same schema object",
                      checker_cmd="./check C04 --tier %s" % tier)
