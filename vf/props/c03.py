"""C03 - printing a parsed document and parsing it again is the identity."""
from vf import frontend
from vf.report import MachineryDefect, Run


def check(tier, seed):
    run = Run("C03", tier, seed)
    nitems, total, fails = frontend.roundtrip_check(tier, seed)
    if total == 0:
        raise MachineryDefect("round-trip corpus is vacuous")
    run.cov["evaluations"] += total * len(frontend.INDENTS)
    run.cov["distinct_nontrivial"] += total
    run.cov["parts"]["roundtrip"] = {"corpus_texts": nitems, "accepted_parses": total, "indents": [str(i) for i in frontend.INDENTS],
                                     "clauses": ["never-raises", "deterministic", "output-parses", "roundtrip-equal", "fixpoint"]}
    run.cov["bounded_functions"].append({"functions": ["py_gql.lang.printer.ASTPrinter.*", "py_gql.lang.printer._block_string"],
                                         "bound": "%d accepted trees (derivation corpus + string payloads of length <= %d over %d class representatives in 8 "
                                                  "syntactic positions, quoted and block form) x %d indent settings"
                                                  % (total, 3 if tier == "thorough" else 2, len(frontend.PAYLOAD_ALPHABET), len(frontend.INDENTS))})
    for clause, witness, detail in fails:
        run.violation(clause, detail, witness, True)
    run.sample({"text": 'query ($v: String = "\\u00e9\\n" @d(r: """b""")) { f }', "law": "parse(print(parse(t))) == parse(t); print(parse(print(parse(t)))) == print(parse(t))"})
    run.cov["rule"] = "one case per (accepted text, fragment-variable flag); non-trivial = accepted by the parser; distinct texts by construction"
    run.trusted("the parser as established by C01/C02; Node.__eq__ as structural equality")
    run.assume("no deductive obligation: the printer's string encoders are json.dumps / str.replace (outside the VC generator's reach); "
               "the round-trip law is checked as a run-time contract on the enumerated corpus only")
    # static slot coverage of the printer (for all trees): every slot of every node kind is read by its print method
    import contracts.parser_map as PM
    from py_gql.lang.printer import ASTPrinter
    from vf import printstatic
    backend = "print-method slot analysis"
    try:
        pobs = printstatic.obligations(ASTPrinter, PM.ORDER)
    except printstatic.Unsupported as e:
        pobs = []
        run.cov["degraded_functions"].append({"function": "ASTPrinter", "reason": str(e)})
    if pobs:
        run.cov["functions_under_contract"].append("ASTPrinter.print_* (slot coverage)")
    for o in pobs:
        run.cov["obligations"] += 1
        run.cov["backends"][backend] = run.cov["backends"].get(backend, 0) + 1
        if o["holds"]:
            run.cov["discharged"] += 1
            continue
        before = len(run.violations)
        run.violation(o["id"], o["detail"], {"parent": o["cls"], "slot": o["slot"], "detail": o["detail"]}, False,
                      extra={"obligation": o["id"], "solver": backend, "solver_status": "refuted"})
        if len(run.violations) == before:
            run.cov["refuted_known"] += 1
    # the parse half of the law reads strings back through the lexer's decoders: their contracts (Engine A, all texts), position clauses left to C01
    import contracts.lexer as LEX
    from vf import engine_a
    decoders = ("Lexer._read_string", "Lexer._read_block_string", "Lexer._read_escape_sequence", "Lexer._read_escaped_unicode")
    todo = [c for c in LEX.CONTRACTS if c.qualname in decoders]
    if len(todo) != len(decoders):
        raise MachineryDefect("lexer decoder contracts not found: %r" % [c.qualname for c in todo])
    run.cov["parts"]["engine_a"] = engine_a.run(run, todo, frontend.spec_namespace(), {}, engine_a.generic_instantiate(), jobs=8,
                                               timeout_ms=20000 if tier == "thorough" else 10000, all_contracts=LEX.CONTRACTS,
                                               skip=lambda oid: oid.endswith("position-in-text"))
    return run.finish("other", "Engine A on the lexer's string decoders + printer slot coverage + bounded stand-in: round-trip / fix-point / determinism contracts evaluated on every tree of the "
                               "enumerated corpus under 5 indent settings; not a proof",
                      checker_cmd="./check C03 --tier %s" % tier)
