"""C16 - instrumentation and middlewares see every field exactly once, properly nested."""
import multiprocessing as mp
import random

from vf import engine_p
from vf import execharness as H
from vf.report import MachineryDefect, Run

STAGES = ("query", "parsing", "validation", "execution")
_BaseCtx = H.Ctx


def make_instr(tag, log):
    from py_gql.execution import Instrumentation

    class Rec(Instrumentation):
        def on_query_start(self):
            log.append(("stage", "query", "start", tag))

        def on_query_end(self):
            log.append(("stage", "query", "end", tag))

        def on_parsing_start(self):
            log.append(("stage", "parsing", "start", tag))

        def on_parsing_end(self):
            log.append(("stage", "parsing", "end", tag))

        def on_validation_start(self):
            log.append(("stage", "validation", "start", tag))

        def on_validation_end(self):
            log.append(("stage", "validation", "end", tag))

        def on_execution_start(self):
            log.append(("stage", "execution", "start", tag))

        def on_execution_end(self):
            log.append(("stage", "execution", "end", tag))

        def on_field_start(self, root, context, info):
            log.append(("field", tuple(info.path), "start", tag))

        def on_field_end(self, root, context, info):
            log.append(("field", tuple(info.path), "end", tag))
    # how a member of a stack comes by its hooks must not matter: defined on its class, inherited from a base, or a nested stack
    if tag.endswith("1"):
        class Inherits(Rec):
            # ... or what else the member is: here also a sized collection of what it recorded, empty - hence falsy - when the request starts
            def __len__(self):
                return 0

            def __bool__(self):
                return False
        return Inherits()
    if tag.endswith("2"):
        from py_gql.execution import MultiInstrumentation

        class Nested(MultiInstrumentation):
            pass
        return Nested(Rec())
    return Rec()


def make_mw(tag, log):
    def mw(next_, root, ctx, info, **kw):
        log.append(("mw", tuple(info.path), "enter", tag))
        try:
            return next_(root, ctx, info, **kw)
        finally:
            log.append(("mw", tuple(info.path), "exit", tag))
    return mw


def check_stage_trace(log, tags, started_expected):
    """stage hooks: pairs nest properly, each at most once per instrumentation, every started stage ended;
    combined instrumentations: starts in order, ends in reverse"""
    out = []
    stack, seen = [], {}
    for ev in log:
        if ev[0] != "stage":
            continue
        _k, stage, what, tag = ev
        key = (stage, tag)
        if what == "start":
            if key in seen:
                out.append("%s start hook fired twice for instrumentation %r" % (stage, tag))
            seen[key] = "open"
            stack.append(key)
        else:
            if seen.get(key) != "open":
                out.append("%s end hook fired without a pending start (instrumentation %r)" % (stage, tag))
                continue
            if not stack or stack[-1] != key:
                out.append("%s end hook (instrumentation %r) is not properly nested: innermost open stage is %r" % (stage, tag, stack[-1] if stack else None))
                if key in stack:
                    stack.remove(key)
            else:
                stack.pop()
            seen[key] = "closed"
    for key, st in seen.items():
        if st == "open":
            out.append("%s stage started but its end hook never fired (instrumentation %r)" % key)
    for stage in started_expected:
        for tag in tags:
            if (stage, tag) not in seen:
                out.append("%s stage hooks did not fire for instrumentation %r" % (stage, tag))
    # order across stacked instrumentations: starts in order, ends reversed
    for stage in STAGES:
        starts = [ev[3] for ev in log if ev[0] == "stage" and ev[1] == stage and ev[2] == "start"]
        ends = [ev[3] for ev in log if ev[0] == "stage" and ev[1] == stage and ev[2] == "end"]
        if starts and starts != list(tags):
            out.append("%s start hooks ran in order %r, expected %r" % (stage, starts, list(tags)))
        if ends and ends != list(reversed(tags)):
            out.append("%s end hooks ran in order %r, expected %r" % (stage, ends, list(reversed(tags))))
    return out


def check_field_trace(log, res_log, tags, mw_tags, expected_paths):
    """field hooks exactly once per resolved field and per instrumentation, start before the resolver is invoked, end after it
    finished; every middleware exactly once around the resolver call, in the documented nesting order"""
    out = []
    idx = {}
    for i, ev in enumerate(log):
        idx.setdefault((ev[0], ev[1], ev[2], ev[3]), []).append(i)
    inv = {}
    for i, ev in enumerate(log):
        if ev[0] == "resolver":
            inv.setdefault((ev[1], ev[2]), []).append(i)
    for path in expected_paths:
        for tag in tags:
            s, e = idx.get(("field", path, "start", tag), []), idx.get(("field", path, "end", tag), [])
            if len(s) != 1 or len(e) != 1:
                out.append("field %r: on_field_start fired %d times and on_field_end %d times for instrumentation %r" % (path, len(s), len(e), tag))
                continue
            i0 = inv.get((path, "invoke"), [])
            i1 = inv.get((path, "finish"), [])
            if i0 and not (s[0] < i0[0]):
                out.append("field %r: on_field_start fired after the resolver was invoked" % (path,))
            if i1 and not (i1[-1] < e[0]):
                out.append("field %r: on_field_end fired before the resolver had returned / raised" % (path,))
        i0 = inv.get((path, "invoke"), [])
        for tag in mw_tags:
            a, b = idx.get(("mw", path, "enter", tag), []), idx.get(("mw", path, "exit", tag), [])
            if i0 and (len(a) != 1 or len(b) != 1):
                out.append("field %r: middleware %r entered %d times, exited %d times" % (path, tag, len(a), len(b)))
        if i0 and mw_tags:
            enters = [ev[3] for ev in log if ev[0] == "mw" and ev[1] == path and ev[2] == "enter"]
            if enters != list(reversed(mw_tags)):
                out.append("field %r: middlewares entered in order %r, documented nesting (last listed outermost) gives %r" % (path, enters, list(reversed(mw_tags))))
    # properly nested: every field hook lies inside the execution stage of the same instrumentation
    for tag in tags:
        st = [i for i, ev in enumerate(log) if ev[0] == "stage" and ev[1] == "execution" and ev[3] == tag]
        if len(st) == 2:
            outside = [ev for i, ev in enumerate(log) if ev[0] == "field" and ev[3] == tag and not (st[0] < i < st[1])]
            if outside:
                out.append("field hook %s of %r (instrumentation %r) fired outside the execution stage (on_execution_start at event %d, on_execution_end at event %d)"
                           % (outside[0][2], outside[0][1], tag, st[0], st[1]))
    # (introspection fields are resolved fields too, but the reference executor delegates them: not compared here)
    extra = {ev[1] for ev in log if ev[0] == "field" and not any(isinstance(k, str) and k.startswith("__") for k in ev[1])} - set(expected_paths)
    if extra:
        out.append("field hooks fired for paths that are not resolved fields: %r" % (sorted(extra, key=repr)[:3],))
    return out


def _chunk(args):
    items, cap = args
    fails, n = [], 0
    for query, variables, wname, world, dset, n_instr, n_mw, kind in items:
        for cfg in H.CONFIGS:
            prefix, runs = [], 0
            while prefix is not None and runs < cap:
                sched = H.Schedule(prefix)
                from py_gql.execution import MultiInstrumentation
                log = []
                tags = ["i%d" % i for i in range(n_instr)]
                mw_tags = ["m%d" % i for i in range(n_mw)]
                instrs = [make_instr(t, log) for t in tags]
                instr = instrs[0] if n_instr == 1 else MultiInstrumentation(*instrs)
                mws = [make_mw(t, log) for t in mw_tags]
                schema = H.make_schema(dset, asynchronous=cfg == "executor-asyncio")
                ctx_log = log

                class LogCtx(_BaseCtx):
                    def __init__(self, world_):
                        _BaseCtx.__init__(self, world_)
                        self.log = _ResolverLog(ctx_log)
                old = H.Ctx
                H.Ctx = LogCtx
                try:
                    got = H.run_request(schema, query, variables, world, cfg, schedule=sched, instrumentation=instr, middlewares=mws or None)
                finally:
                    H.Ctx = old
                runs += 1
                n += 1
                w = {"query": query, "variables": variables, "world": wname, "config": cfg, "schedule": list(sched.taken), "instrumentations": n_instr, "middlewares": n_mw}
                started = {"syntax": ["query", "parsing"], "validation": ["query", "parsing", "validation"], "request": ["query", "parsing", "validation"],
                           "ok": ["query", "parsing", "validation", "execution"]}[kind]
                for msg in check_stage_trace(log, tags, started):
                    fails.append(("hooks:stages-paired-and-nested", dict(w, kind=kind, trace=[e[1] + ("+" if e[2] == "start" else "-") for e in log if e[0] == "stage" and e[3] == tags[0]]), msg))
                if kind == "ok" and got["outcome"] == "result":
                    exp = H.reference(H.make_schema(), query, variables, world)
                    if exp[0] == "result":
                        paths = [p for p, _a, _b, _c in exp[3].visited]
                        # a list value that fails while it is consumed abandons the items already started: what happens to the hooks of fields below
                        # them (in flight on a deferring runtime) is not specified - only the failing field itself and everything outside it is judged
                        failing = [k for k, v in world.items() if v[0] == "gen-error"]
                        paths = [p for p in paths if not any(len(p) > len(f) and p[:len(f)] == f for f in failing)]
                        if failing:
                            log = [ev for ev in log if not (ev[0] in ("field", "mw", "resolver") and any(len(ev[1]) > len(f) and tuple(ev[1][:len(f)]) == f for f in failing))]
                        for msg in check_field_trace(log, None, tags, mw_tags, paths):
                            fails.append(("hooks:field-exactly-once", w, msg))
                prefix = H.next_prefix(sched) if cfg in ("executor-threadpool", "executor-asyncio") else None
    return n, fails


class _ResolverLog(list):
    """resolver invoke/finish events written into the shared hook log"""

    def __init__(self, shared):
        list.__init__(self)
        self.shared = shared

    def append(self, ev):
        list.append(self, ev)
        self.shared.append(("resolver", ev[1], ev[0], None))


REQUESTS = [
    ("{ me { name age } count }", {}, "ok"),
    ("{ me { name strict } people { name } }", {}, "ok"),
    ("{ me { pets { ... on Dog { name } ... on Cat { lives } } } }", {}, "ok"),
    ("mutation { a(n: 1) b { name } d }", {}, "ok"),
    # meta fields next to ordinary ones: every ordinary field still passes through every middleware, whatever was resolved before it
    ("{ __typename me { __typename name } count }", {}, "ok"),
    ("{ __type(name: \"Person\") { name kind } me { name age } }", {}, "ok"),
    ("{ __schema { queryType { name } } people { name } }", {}, "ok"),
    ("{ me { name ", {}, "syntax"),
    ('{ echo(s: "\\', {}, "syntax"),
    ("{ nope }", {}, "validation"),
    ("{ me }", {}, "validation"),
    ("query ($x: Int!) { me { friends(first: $x) { name } } }", {}, "request"),
    ("query ($x: Int) { me { friends(first: $x) { name } } }", {"x": "bad"}, "request"),
    ("query A { count } query B { count }", {}, "request"),
]
DEFERRED = [[], [("Query", "me"), ("Person", "name"), ("Person", "age"), ("Person", "strict")], [("Person", "pets"), ("Dog", "name"), ("Cat", "lives"), ("Mutation", "a"), ("Mutation", "b")]]


HOOKS = ["on_query_start", "on_query_end", "on_parsing_start", "on_parsing_end", "on_validation_start", "on_validation_end",
         "on_execution_start", "on_execution_end", "on_field_start", "on_field_end"]


def partial_members(run):
    """a member of a combined instrumentation may implement ANY subset of the hooks (the others are inherited no-ops): for a stack made of one full recorder and
    ten members that implement one hook each - flat, and nested in a second stack - every one-hook member is called exactly as often, and with the same fields,
    as the full recorder's hook of that name, in member order for starts and reverse order for ends"""
    from py_gql.execution import Instrumentation, MultiInstrumentation
    n = 0
    for shape in ("flat", "nested", "full-last"):
        for cfg in ("blocking-executor", "executor-blocking", "executor-asyncio"):
            for query, variables, kind in REQUESTS[:3] + REQUESTS[-6:-4]:
                log = []

                def rec(tag, hooks):
                    def mk(h):
                        if h.startswith("on_field"):
                            return lambda self, root, context, info: log.append((h, tuple(info.path), tag))
                        return lambda self: log.append((h, None, tag))
                    return type("Only_%s" % tag, (Instrumentation,), {h: mk(h) for h in hooks})()
                full = rec("full", HOOKS)
                singles = [rec(h, [h]) for h in HOOKS]
                if shape == "flat":
                    stack = MultiInstrumentation(full, *singles)
                elif shape == "nested":
                    stack = MultiInstrumentation(full, MultiInstrumentation(*singles[:5]), MultiInstrumentation(*singles[5:]))
                else:
                    stack = MultiInstrumentation(*(singles + [full]))
                schema = H.make_schema(asynchronous=cfg == "executor-asyncio")
                H.run_request(schema, query, variables, {}, cfg, schedule=H.Schedule([]), instrumentation=stack)
                n += 1
                for h in HOOKS:
                    want = [(a, b) for a, b, t in log if t == "full" and a == h]
                    got = [(a, b) for a, b, t in log if t == h]
                    if sorted(want, key=repr) != sorted(got, key=repr):
                        run.violation("hooks:every-member-sees-every-hook", "a member of a %s combined instrumentation that implements only %s saw %d calls where a member implementing "
                                      "all hooks saw %d (%s, request %r)" % (shape, h, len(got), len(want), cfg, query),
                                      {"shape": shape, "hook": h, "config": cfg, "query": query}, True)
                if shape != "nested":
                    # order between the full recorder and the one-hook member around the same event: starts in member order, ends reversed
                    for h in HOOKS:
                        pairs = [(a, b, t) for a, b, t in log if a == h]
                        first = "full" if (shape == "flat") == h.endswith("_start") else h
                        for i in range(0, len(pairs) - 1, 2):
                            if pairs[i][1] == pairs[i + 1][1] and pairs[i][2] != first and cfg != "executor-asyncio":
                                run.violation("hooks:stacked-order", "in a %s stack %s reached %r before %r" % (shape, h, pairs[i][2], first), {"shape": shape, "hook": h, "config": cfg, "query": query}, True)
    return n


def shared_instance_histories(run):
    """one instrumentation object (a recorder, a flat and a nested combined one) serves several requests in a row, including requests that die - unexpected resolver
    exception, syntax error, validation error - : every request's own stage trace is the trace a fresh object would record (paired, nested, at most once), whatever the
    earlier requests left behind"""
    from py_gql.execution import MultiInstrumentation
    n = 0
    q_ok = "{ me { name age } count }"
    histories = [[("boom", q_ok, {("me", "name"): ("boom", "unexpected")}), ("ok", q_ok, {})],
                 [("boom", q_ok, {("count",): ("boom", "unexpected")}), ("boom", q_ok, {("me",): ("boom", "unexpected")}), ("ok", q_ok, {}), ("ok", q_ok, {})],
                 [("syntax", "{ me { name ", {}), ("ok", q_ok, {}), ("validation", "{ nope }", {}), ("ok", q_ok, {})]]
    for cfg in ("blocking-executor", "executor-blocking", "executor-asyncio"):
        for shape in ("single", "flat", "nested"):
            for hist in histories:
                log = []
                members = [make_instr("i%d" % k, log) for k in range(3)]
                instr = members[0] if shape == "single" else MultiInstrumentation(*members) if shape == "flat" else MultiInstrumentation(members[0], MultiInstrumentation(*members[1:]))
                tags = ["i0"] if shape == "single" else ["i0", "i1", "i2"]
                for step, (kind, query, world) in enumerate(hist):
                    del log[:]
                    schema = H.make_schema(asynchronous=cfg == "executor-asyncio")
                    H.run_request(schema, query, {}, world, cfg, schedule=H.Schedule([]), instrumentation=instr)
                    n += 1
                    if kind == "boom":
                        continue            # (what a request that dies leaves unfinished is not judged here; what it does to the NEXT request is)
                    started = {"syntax": ["query", "parsing"], "validation": ["query", "parsing", "validation"], "ok": ["query", "parsing", "validation", "execution"]}[kind]
                    for msg in check_stage_trace(log, tags, started):
                        run.violation("hooks:stages-paired-and-nested", "request %d of a history on one %s instrumentation object (%s): %s" % (step + 1, shape, [k for k, _q, _w in hist], msg),
                                      {"history": [k for k, _q, _w in hist], "step": step, "shape": shape, "config": cfg}, True)
                        break
    return n


def check(tier, seed):
    run = Run("C16", tier, seed)
    rnd = random.Random(seed)
    schema = H.make_schema()
    items = []
    for query, variables, kind in REQUESTS:
        worlds = [("default", {})]
        if kind == "ok":
            _n, ws = H.worlds_for(schema, query, variables, with_boom=False)
            worlds = ws if tier == "thorough" else ws[:1] + rnd.sample(ws[1:], min(len(ws) - 1, 5))
            worlds += [x for x in ws if x[0].startswith(("gen-error@", "shared-error@")) and x not in worlds]       # fixed members
        for wname, world in worlds:
            for dset in (DEFERRED if kind == "ok" else DEFERRED[:1]):
                for n_instr, n_mw in ((1, 0), (3, 0), (1, 2), (2, 3)):
                    items.append((query, variables, wname, world, dset, n_instr, n_mw, kind))
    cap = 60 if tier == "thorough" else 8
    jobs = 16
    size = max(1, len(items) // (jobs * 4))
    chunks = [(items[i:i + size], cap) for i in range(0, len(items), size)]
    n = 0
    with mp.get_context("fork").Pool(jobs) as pool:
        for k, fails in pool.imap_unordered(_chunk, chunks):
            n += k
            for clause, w, detail in fails:
                run.violation(clause, detail, w, True)
    if n == 0:
        raise MachineryDefect("nothing executed")
    n += partial_members(run)
    n += shared_instance_histories(run)
    run.cov["evaluations"] = n
    run.cov["distinct_nontrivial"] = len(items)
    run.cov["rule"] = "%d requests (successful, partially failing, syntax / validation / variable / operation-selection errors) x resolver worlds x deferred-field " \
                      "sets x (1|2|3 stacked instrumentations, 0|2|3 middlewares) x 4 configurations x completion orders (cap %d per request)" % (len(REQUESTS), cap)
    run.cov["bounded_functions"].append({"functions": ["process_graphql_query", "execute", "Executor.resolve_field", "BlockingExecutor.resolve_field",
                                                       "MultiInstrumentation.*", "apply_middlewares", "Executor.field_resolver"], "bound": "%d executions" % n})
    run.sample({"request": REQUESTS[0][0], "trace": "query+ parsing+ parsing- validation+ validation- execution+ field(me)+ ... execution- query-"})
    run.assume("callbacks are atomic in the stand-in; middleware nesting and ResolutionContext._resolver_cache are bounded only")
    engine_p.run(run, 'C16')
    # middlewares are applied when the wrapped resolver is memoised per base resolver: the memo key must determine everything the wrapping depends on
    from vf import memocheck
    memocheck.run(run, only=("Executor.field_resolver",))
    return run.finish("other", "trace contracts over every syntactic path of the real function (Engine P, unbounded in the inputs, values abstracted) + bounded stand-in: hook / middleware trace contracts evaluated on every enumerated request outcome, runtime and completion order",
                      checker_cmd="./check C16 --tier %s" % tier)
