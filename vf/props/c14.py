"""C14 - extending, cloning and transforming schemas keeps them closed and intact."""
import itertools
import random

from vf import ref_sdl as S6
from vf import schemas
from vf.report import MachineryDefect, Run

EXTENSIONS = [
    "extend type User { nick: String }",
    "extend type Query { extra(f: Filter): [Pet!] }",
    "extend enum Role { ROOT }",
    "extend union Pet = User",
    "extend input Filter { more: [Filter!] = [] }",
    "extend interface Named { alias: String } extend type User { alias: String } extend type Dog { alias: String } extend type Cat { alias: String }",
    "type Extra implements Named { name: String } extend type Query { extraThing: Extra }",
    "extend scalar Date @tag",
    "extend type Subscription { tock: Int }",
]


# explicit null defaults (distinct from "no default") at every input position, and a directive whose arguments have input-object / enum types
SOURCE_EXTRA_SDL = """
directive @cfg(f: Filter = {minAge: 1}, r: Role = ADMIN, opt: String = null, d: Date) on FIELD | FIELD_DEFINITION
"""


# (the source holds no `extend` block: it must not itself be the product of the extension code under check)
SOURCE_NULL_DEFAULTS = [("filter: Filter)", "filter: Filter = null)"), ("  minAge: Int\n", "  minAge: Int = null\n  maybeList: [String] = null\n"), ("n: Int) on", "n: Int = null) on"),
                        ("  at(p: Point): Int\n", "  at(p: Point): Int\n  nulls(a: String = null, f: Filter = null, l: [Int] = null, plain: Int): Int\n")]


def make_source():
    from py_gql import build_schema
    sdl = schemas.BASE_SDL
    for old, new in SOURCE_NULL_DEFAULTS:
        assert old in sdl, old
        sdl = sdl.replace(old, new, 1)
    from py_gql.schema import ScalarType

    class Cents(ScalarType):
        """a scalar whose behaviour lives in overridden methods (the documented subclassing style)"""

        def serialize(self, value):
            return "%.2f" % (float(value) / 100)

        def parse(self, value):
            return int(round(float(value) * 100))
    s = build_schema(sdl + SOURCE_EXTRA_SDL, additional_types=[Cents("Date", serialize=str, parse=str)])

    def r_me(root, ctx, info):
        return {"id": "1", "name": "n"}

    def r_default(root, ctx, info, **kw):
        return None

    def r_sub(root, ctx, info):
        return iter(())
    s.types["User"].field_map["friends"].argument_map["first"].python_name = "first_py"
    s.register_resolver("Query", "me", r_me)
    s.register_resolver("User", "friends", lambda root, ctx, info, first_py=10, filter=None: [])
    def r_schema_default(root, ctx, info, **kw):
        from py_gql.execution.default_resolver import default_resolver as _d
        return _d(root, ctx, info, **kw)
    s.default_resolver = r_schema_default    # the documented way to set the schema-wide default resolver
    s.register_default_resolver("User", r_default)
    s.register_subscription("Subscription", "tick", r_sub)
    s.types["Pet"].resolve_type = lambda value, ctx, info: "Dog"
    s.types["Named"].resolve_type = lambda value, ctx, info: "User"
    s.types["Node"].resolve_type = lambda value, ctx, info: "User"
    s.types["Filter"].field_map["minAge"].python_name = "min_age"
    s.types["User"].field_map["score"].python_name = "score_py" if hasattr(s.types["User"].field_map["score"], "python_name") else None
    s.validate()
    return s


def visibility(hidden_types=(), hidden_fields=(), hidden_input_fields=(), hidden_directives=()):
    from py_gql.schema.transforms import VisibilitySchemaTransform

    class V(VisibilitySchemaTransform):
        def is_type_visible(self, name):
            return name not in hidden_types

        def is_field_visible(self, typename, fieldname):
            return (typename, fieldname) not in hidden_fields

        def is_input_field_visible(self, typename, fieldname):
            return (typename, fieldname) not in hidden_input_fields

        def is_directive_visible(self, name):
            return name not in hidden_directives
    return V()


VISIBILITIES = [
    ("hide-type-Cat", dict(hidden_types=("Cat",))),
    ("hide-type-Date", dict(hidden_types=("Date",))),
    ("hide-type-Filter", dict(hidden_types=("Filter",))),
    ("hide-field-User.age", dict(hidden_fields=(("User", "age"),))),
    ("hide-field-Query.search", dict(hidden_fields=(("Query", "search"),))),
    ("hide-input-field-Filter.nested", dict(hidden_input_fields=(("Filter", "nested"),))),
    ("hide-directive-tag", dict(hidden_directives=("tag",))),
    ("hide-Mutation", dict(hidden_types=("Mutation",))),
    ("hide-Subscription", dict(hidden_types=("Subscription",))),
    ("hide-interface-Node", dict(hidden_types=("Node",))),
    ("hide-field-Query.me", dict(hidden_fields=(("Query", "me"),))),          # a field with a registered resolver
    ("hide-several", dict(hidden_types=("Dog",), hidden_fields=(("User", "tags"), ("Query", "echo")), hidden_input_fields=(("Filter", "names"),))),
]


def wrap_resolvers():
    """a visitor-based transform that REPLACES the resolver of every field that has one (also those registered on the schema)"""
    from py_gql.schema import Field, SchemaVisitor

    class Wrap(SchemaVisitor):
        def on_field(self, field):
            field = super().on_field(field)
            if field is None or field.resolver is None:
                return field
            inner = field.resolver

            def wrapped(root, ctx, info, **kw):
                return inner(root, ctx, info, **kw)
            return Field(field.name, field.type, args=field.arguments, resolver=wrapped, description=field.description,
                         deprecation_reason=field.deprecation_reason, node=field.node, python_name=field.python_name,
                         subscription_resolver=field.subscription_resolver)
    return Wrap()


def operations():
    """(label, function(schema) -> schema, targets) - targets: names the operation is allowed to change"""
    from py_gql.schema.transforms import CamelCaseSchemaTransform, transform_schema
    from py_gql.sdl import extend_schema
    ops = [("clone", lambda s: s.clone(), {})]
    for label, kw in VISIBILITIES:
        ops.append((label, (lambda kw_: (lambda s: transform_schema(s, visibility(**kw_))))(kw), kw))
    ops.append(("camel-case", lambda s: transform_schema(s, CamelCaseSchemaTransform()), {"camel": True}))
    ops.append(("wrap-resolvers", lambda s: transform_schema(s, wrap_resolvers()), {"wrap": True}))
    for i, ext in enumerate(EXTENSIONS):
        ops.append(("extend-%d" % i, (lambda e: (lambda s: extend_schema(s, e)))(ext), {"extension": ext}))
    return ops


def removed_unreachable(result, kw):
    """hidden elements are not reachable from the result's registry nor through introspection"""
    from py_gql import graphql_blocking
    bad = []
    for t in kw.get("hidden_types", ()):
        if t in result.types:
            bad.append("type %s is still registered" % t)
        for name, ty in result.types.items():
            for ref in _refs(ty):
                if ref == t:
                    bad.append("%s still refers to hidden type %s" % (name, t))
    for t, f in kw.get("hidden_fields", ()):
        if t in result.types and f in {x.name for x in result.types[t].fields}:
            bad.append("field %s.%s is still present" % (t, f))
    for t, f in kw.get("hidden_input_fields", ()):
        if t in result.types and f in {x.name for x in result.types[t].fields}:
            bad.append("input field %s.%s is still present" % (t, f))
    for d in kw.get("hidden_directives", ()):
        if d in result.directives:
            bad.append("directive @%s is still present" % d)
    res = graphql_blocking(result, "{ __schema { queryType { name } mutationType { name } subscriptionType { name } types { name fields(includeDeprecated: true) { name } inputFields { name } } directives { name } } }")
    if res.errors:
        bad.append("introspection of the result fails: %s" % res.errors[0])
    else:
        sch = res.data["__schema"]
        names = {t["name"] for t in sch["types"]}
        for t in kw.get("hidden_types", ()):
            if t in names:
                bad.append("introspection still lists type %s" % t)
            for k in ("queryType", "mutationType", "subscriptionType"):
                if sch[k] and sch[k]["name"] == t:
                    bad.append("introspection still reports %s as %s" % (t, k))
        for t, f in kw.get("hidden_fields", ()):
            for ty in sch["types"]:
                if ty["name"] == t and f in {x["name"] for x in (ty["fields"] or [])}:
                    bad.append("introspection still lists field %s.%s" % (t, f))
    for op, root in (("query", result.query_type), ("mutation", result.mutation_type), ("subscription", result.subscription_type)):
        if root is not None and root.name in kw.get("hidden_types", ()):
            bad.append("root %s type %s is hidden but still the schema's %s_type" % (op, root.name, op))
    return bad


def _refs(t):
    from py_gql.schema import InputObjectType, InterfaceType, ObjectType, UnionType
    out = []
    if isinstance(t, (ObjectType, InterfaceType)):
        for f in t.fields:
            out.append(S6.named(f.type).name)
            out += [S6.named(a.type).name for a in f.arguments]
    if isinstance(t, ObjectType):
        out += [i.name for i in t.interfaces]
    if isinstance(t, UnionType):
        out += [m.name for m in t.types]
    if isinstance(t, InputObjectType):
        out += [S6.named(f.type).name for f in t.fields]
    return out


def preserved(before, after, kw):
    """everything the operation does not target is preserved (compared on snapshots)"""
    bad = []
    hidden_t = set(kw.get("hidden_types", ()))
    camel = kw.get("camel")
    for key, val in before["extra"].items():
        tname = key.split(".")[0].split(":")[0]
        if tname in hidden_t:
            continue
        if key not in after["extra"]:
            if camel or "." in key and (tuple(key.split(".")) in set(kw.get("hidden_fields", ())) or tname in hidden_t):
                continue
            if "extension" in kw:
                bad.append("%s disappeared" % key)
            continue
        a = after["extra"][key]
        if a != val and kw.get("wrap") and isinstance(val, tuple) and val[0] is not None and a[1:] == val[1:] and a[0] is not None:
            continue          # the transform's purpose: the field's resolver is replaced by its wrapper; everything else about the field stays
        if a != val:
            if camel and isinstance(val, tuple):
                # names change; resolvers, subscription resolvers and python names must not
                if a[0] == val[0] and a[1] == val[1] and a[2] == val[2] and [p for _n, p in a[3]] == [p for _n, p in val[3]]:
                    continue
            if isinstance(val, tuple) and hidden_t and not camel:
                # arguments whose type is hidden go away with the type; everything else about the field stays
                gone = {x["name"] for f in before["types"].get(tname, {}).get("fields", []) if f["name"] == key.split(".")[1]
                        for x in f["args"] if x["type"].strip("[]!") in hidden_t}
                if gone and a[:3] == val[:3] and a[3] == [x for x in val[3] if x[0] not in gone]:
                    continue
            if isinstance(val, list) and (kw.get("hidden_input_fields") or "extension" in kw):
                if all(x in a for x in val if (tname, x[0]) not in set(kw.get("hidden_input_fields", ()))):
                    continue
            bad.append("%s: %r became %r" % (key, val, a))
    if before.get("default_resolver") != after.get("default_resolver"):
        bad.append("schema.default_resolver: %r became %r" % (before.get("default_resolver"), after.get("default_resolver")))
    # no type or directive the operation did not hide goes missing (also those nothing refers to: clients name them in type conditions, variables, __type)
    for tname in before["types"]:
        if tname not in hidden_t and tname not in after["types"]:
            bad.append("type %s disappeared" % tname)
    if not camel:
        for tname, t in before["types"].items():
            if tname in hidden_t or tname not in after["types"]:
                continue
            a = after["types"][tname]
            if t.get("description") != a.get("description"):
                bad.append("description of %s: %r became %r" % (tname, t.get("description"), a.get("description")))
            for f in t.get("fields", []):
                af = [x for x in a.get("fields", []) if x["name"] == f["name"]]
                if af and (af[0]["description"], af[0]["deprecation"]) != (f["description"], f["deprecation"]):
                    bad.append("description / deprecation of %s.%s changed" % (tname, f["name"]))
                if af and [(x["name"], x["default"]) for x in af[0]["args"] if S6 and True] != [(x["name"], x["default"]) for x in f["args"]] and not (
                        hidden_t & {y["type"].strip("[]!") for y in f["args"]}):
                    bad.append("arguments / defaults of %s.%s changed" % (tname, f["name"]))
            hidden_if = {x for tn, x in kw.get("hidden_input_fields", ()) if tn == tname}
            for f in t.get("input_fields", []):
                if f["name"] in hidden_if or f["type"].strip("[]!") in hidden_t:
                    continue
                af = [x for x in a.get("input_fields", []) if x["name"] == f["name"]]
                if not af:
                    bad.append("input field %s.%s disappeared" % (tname, f["name"]))
                elif (af[0]["default"], af[0]["description"], af[0]["type"]) != (f["default"], f["description"], f["type"]):
                    bad.append("input field %s.%s: %r became %r" % (tname, f["name"], (f["type"], f["default"], f["description"]),
                                                                      (af[0]["type"], af[0]["default"], af[0]["description"])))
        hidden_d = set(kw.get("hidden_directives", ()))
        for dname, d in before["directives"].items():
            if dname in hidden_d:
                continue
            a = after["directives"].get(dname)
            if a is None:
                bad.append("directive @%s disappeared" % dname)
                continue
            want = [x for x in d["args"] if x["type"].strip("[]!") not in hidden_t]
            if (a["description"], a["locations"], a["args"]) != (d["description"], d["locations"], want):
                bad.append("directive @%s: %r became %r" % (dname, (d["locations"], want), (a["locations"], a["args"])))
    return bad


def emptied(before, kw):
    """types of the snapshot that the visibility predicate `kw` leaves without any member / field (from the snapshot alone)"""
    ht = set(kw.get("hidden_types", ()))
    hf = set(kw.get("hidden_fields", ())) | set(kw.get("hidden_input_fields", ()))
    out = []
    for name, t in before["types"].items():
        if name in ht:
            continue
        if t["kind"] == "union" and t["members"] and all(m in ht for m in t["members"]):
            out.append(name)
        fields = t.get("fields") if t["kind"] in ("object", "interface") else t.get("input_fields") if t["kind"] == "input" else None
        if fields and all((name, f["name"]) in hf or f["type"].strip("[]!") in ht for f in fields):
            out.append(name)
    return out


def shared_elements(source, result):
    from py_gql.schema import EnumType, InputObjectType, InterfaceType, ObjectType
    from py_gql.schema.directives import SPECIFIED_DIRECTIVES
    if result is source:
        return []

    def elements(schema):
        out = {}
        for name, t in schema.types.items():
            if name.startswith("__") or name in ("Int", "Float", "String", "Boolean", "ID"):
                continue
            out[id(t)] = "type %s" % name
            if isinstance(t, (ObjectType, InterfaceType)):
                for f in t.fields:
                    out[id(f)] = "field %s.%s" % (name, f.name)
                    for a_ in f.arguments:
                        out[id(a_)] = "argument %s.%s(%s:)" % (name, f.name, a_.name)
            elif isinstance(t, InputObjectType):
                for f in t.fields:
                    out[id(f)] = "input field %s.%s" % (name, f.name)
            elif isinstance(t, EnumType):
                for v in t.values:
                    out[id(v)] = "enum value %s.%s" % (name, v.name)
        for name, d in schema.directives.items():
            if d in SPECIFIED_DIRECTIVES:
                continue
            out[id(d)] = "directive @%s" % name
            for a_ in d.arguments:
                out[id(a_)] = "argument @%s(%s:)" % (name, a_.name)
        return out
    a, b = elements(source), elements(result)
    return sorted(a[i] for i in a if i in b)


def check(tier, seed):
    run = Run("C14", tier, seed)
    rnd = random.Random(seed)
    ops = operations()
    n = nontrivial = 0

    def apply_and_check(source, before, label, fn, kw, history):
        nonlocal n, nontrivial
        n += 1
        w = {"operation": label, "history": history}
        try:
            result = fn(source)
        except Exception as e:
            from py_gql.exc import SchemaValidationError
            gone = emptied(before, kw)
            if isinstance(e, SchemaValidationError) and gone:
                # hiding every member of a union / every field of a type cannot give a valid schema: refusing with the library's validation
                # error is the specified behaviour, not a case of the property (which speaks about operations whose result is a schema)
                run.cov.setdefault("refused_compositions", []).append({"operation": label, "history": history, "emptied": gone})
                return None
            run.violation("schema-op:never-raises-on-valid-input", "%s raised %r" % (label, e), dict(w, exc=type(e).__name__, first_in_history=not history), True)
            return None
        nontrivial += 1
        bad = S6.closed(result)
        if bad:
            run.violation("schema-op:result-is-closed", "%s: %s" % (label, "; ".join(bad[:3])), dict(w, dangling=bad[:6]), True)
        after_source = S6.snapshot(source)
        if after_source != before:
            run.violation("schema-op:source-unmodified", "%s modified its source schema: %s" % (label, _snap_diff(before, after_source)), w, True)
        bad = S6.closed(source)
        if bad:
            run.violation("schema-op:source-stays-closed", "after %s the SOURCE schema refers to foreign type objects: %s" % (label, "; ".join(bad[:3])),
                          dict(w, dangling=bad[:6]), True)
        # "leave the source schema unmodified ... any number of times": the result owns its elements - no field, argument, input field, enum value, user type or user
        # directive OBJECT of the source is part of the result (whoever edits the result in place, registers a resolver on it or heals it would edit the source)
        shared = shared_elements(source, result) if not label.startswith("extend") else []          # (the property says this of the clone-based operations)
        if shared:
            run.violation("schema-op:result-shares-nothing-mutable-with-its-source", "%s: the result contains objects of the source schema: %s" % (label, "; ".join(shared[:4])),
                          dict(w, shared=shared[:8]), True)
        bad = removed_unreachable(result, kw)
        if bad:
            run.violation("schema-op:removed-elements-unreachable", "%s: %s" % (label, "; ".join(bad[:3])), dict(w, reachable=bad[:6]), True)
        bad = preserved(before, S6.snapshot(result), kw)
        if bad:
            run.violation("schema-op:untargeted-attributes-preserved", "%s: %s" % (label, "; ".join(bad[:3])), dict(w, lost=bad[:8]), True)
        try:
            result.validate()
            result.to_string()
        except Exception as e:
            run.violation("schema-op:result-is-usable", "%s: validating / printing the result raised %r" % (label, e), dict(w, exc=type(e).__name__), True)
        return result

    # every single operation on a fresh source
    for label, fn, kw in ops:
        source = make_source()
        apply_and_check(source, S6.snapshot(source), label, fn, kw, [])
    # sequences applied to the SAME source: the source must stay usable any number of times
    seqs = list(itertools.permutations(range(len(ops)), 2))
    rnd.shuffle(seqs)
    seqs = seqs[: (400 if tier == "thorough" else 60)]
    triples = [tuple(rnd.sample(range(len(ops)), 3)) for _ in range(100 if tier == "thorough" else 20)]
    for seq in seqs + triples:
        source = make_source()
        before = S6.snapshot(source)
        hist = []
        for i in seq:
            label, fn, kw = ops[i]
            apply_and_check(source, before, label, fn, kw, list(hist))
            hist.append(label)
    # chains: the result of one operation is the source of the next
    labels = [l for l, _f, _k in ops]
    forced = [(labels.index("hide-Subscription"), labels.index("clone")), (labels.index("hide-field-Query.me"), labels.index("hide-type-Cat")),
              (labels.index("hide-Mutation"), labels.index("extend-0")), (labels.index("extend-0"), labels.index("clone")), (labels.index("wrap-resolvers"), labels.index("clone")),
              (labels.index("wrap-resolvers"), labels.index("hide-type-Cat")), (labels.index("wrap-resolvers"), labels.index("wrap-resolvers"))]
    for seq in forced + seqs[: (60 if tier == "thorough" else 15)]:
        cur = make_source()
        hist = []
        for i in seq:
            label, fn, kw = ops[i]
            if kw.get("camel") or any(h == "camel-case" for h in hist):
                break
            # an extension of something an earlier step of the chain removed is invalid input (rightly refused), not a case of the property
            removed = set()
            for h in hist:
                hk = dict(ops[[l for l, _f, _k in ops].index(h)][2])
                removed |= set(hk.get("hidden_types", ())) | {f for _t, f in hk.get("hidden_fields", ())} | {f for _t, f in hk.get("hidden_input_fields", ())} \
                    | set(hk.get("hidden_directives", ()))
            if "extension" in kw and any(__import__("re").search(r"\b%s\b" % r, kw["extension"]) for r in removed):
                continue
            nxt = apply_and_check(cur, S6.snapshot(cur), label, fn, kw, ["chain"] + hist)
            if nxt is None:
                break
            hist.append(label)
            cur = nxt
    if nontrivial == 0:
        raise MachineryDefect("no operation succeeded")
    # --- frame obligations: extending builds new elements and never writes into the ones it was given (vf/aliascheck.py) -----------------
    import inspect as _inspect
    import py_gql.sdl.ast_type_builder as _tb
    import py_gql.sdl.schema_from_ast as _sfa
    from vf import aliascheck
    _funcs = [("ASTTypeBuilder.%s" % n_, f_) for n_, f_ in vars(_tb.ASTTypeBuilder).items() if _inspect.isfunction(f_) and n_.startswith(("_extend", "extend"))]
    _funcs += [("%s.%s" % (m_.__name__.split(".")[-1], n_), f_) for m_ in (_tb, _sfa) for n_, f_ in vars(m_).items()
               if _inspect.isfunction(f_) and f_.__module__ == m_.__name__]
    aliascheck.account(run, aliascheck.obligations(_funcs, "extend", "extending a schema changes its source, which is still in use"))
    # --- derived state of Schema: every attribute a method fills on demand (`self.X[k] = v` outside __init__ and the rebuild helper, i.e. a memo over the type map) is
    # assigned afresh by `_invalidate_and_rebuild_caches`, the helper every in-place change of types / directives ends with (that it does is a C13 obligation) -------------
    import ast as _ast_, textwrap as _tw
    from py_gql.schema.schema import Schema as _Schema
    _cls = _ast_.parse(_tw.dedent(_inspect.getsource(_Schema))).body[0]
    _methods = {m.name: m for m in _cls.body if isinstance(m, (_ast_.FunctionDef, _ast_.AsyncFunctionDef))}
    _helper = _methods.get("_invalidate_and_rebuild_caches")
    if _helper is not None:
        _reset = {t.attr for n_ in _ast_.walk(_helper) if isinstance(n_, (_ast_.Assign, _ast_.AnnAssign)) for t in (n_.targets if isinstance(n_, _ast_.Assign) else [n_.target])
                  if isinstance(t, _ast_.Attribute) and isinstance(t.value, _ast_.Name) and t.value.id == "self"}
        _memos = {}
        for mname, m in _methods.items():
            if mname in ("__init__", "_invalidate_and_rebuild_caches", "_replace_types_and_directives", "_rebuild_caches"):
                continue
            for n_ in _ast_.walk(m):
                tgts = n_.targets if isinstance(n_, _ast_.Assign) else []
                for t in tgts:
                    if isinstance(t, _ast_.Subscript) and isinstance(t.value, _ast_.Attribute) and isinstance(t.value.value, _ast_.Name) and t.value.value.id == "self":
                        _memos.setdefault(t.value.attr, mname)
                if isinstance(n_, _ast_.Call) and isinstance(n_.func, _ast_.Attribute) and n_.func.attr in ("setdefault", "update") and isinstance(n_.func.value, _ast_.Attribute) \
                        and isinstance(n_.func.value.value, _ast_.Name) and n_.func.value.value.id == "self":
                    _memos.setdefault(n_.func.value.attr, mname)
        for attr, mname in sorted(_memos.items()):
            if attr in ("types", "directives", "implementations"):
                continue        # primary state, not derived
            run.cov["obligations"] += 1
            run.cov["backends"]["syntactic-path enumeration"] = run.cov["backends"].get("syntactic-path enumeration", 0) + 1
            if attr in _reset:
                run.cov["discharged"] += 1
            else:
                run.violation("Schema.%s:reset-by-_invalidate_and_rebuild_caches" % attr, "Schema.%s fills self.%s on demand, but _invalidate_and_rebuild_caches does not assign it afresh: after an "
                              "in-place change of the type map it keeps answering with the objects of before (removed / replaced types stay reachable)" % (mname, attr),
                              {"obligation": "Schema.%s" % attr}, False, extra={"obligation": "Schema.%s:reset" % attr, "solver": "syntactic-path enumeration", "solver_status": "refuted"})
        run.cov["functions_under_contract"].append("Schema (derived state reset by _invalidate_and_rebuild_caches: %s)" % ", ".join(sorted(_memos)))
    # --- attribute-preservation obligations on every rebuild site (syntactic, per function, for all inputs) -------------------
    from vf import ctorcheck
    funcs = ctorcheck.rebuild_functions()
    if len(funcs) < 10:
        raise MachineryDefect("only %d rebuild sites found (pattern out of date?)" % len(funcs))
    backend = "constructor-argument analysis"
    for label, f in funcs:
        obs = ctorcheck.obligations(f, label)
        run.cov["functions_under_contract"].append(label + " (attribute preservation)")
        for o in obs:
            run.cov["obligations"] += 1
            run.cov["backends"][backend] = run.cov["backends"].get(backend, 0) + 1
            if o["holds"] is True:
                run.cov["discharged"] += 1
            elif o["holds"] is None:
                run.cov["undecided"].append({"obligation": o["id"], "status": "not analysable", "reason": o["detail"]})
                run.cov["degraded_functions"].append({"function": label, "reason": o["detail"]})
            else:
                run.violation(o["id"], "rebuilt %s loses the source's `%s`: %s" % (o["cls"], o["param"], o["detail"]),
                              {"function": label, "class": o["cls"], "parameter": o["param"], "detail": o["detail"]}, False,
                              extra={"obligation": o["id"], "solver": backend, "solver_status": "constructor call does not derive the parameter from the source element"})
    run.sample({"obligation": "ASTTypeBuilder._extend_field#0:Field.python_name", "meaning": "Field(...) built by _extend_field passes python_name read from field_def"})
    run.cov["evaluations"] = n
    run.cov["distinct_nontrivial"] = nontrivial
    run.cov["rule"] = "clone, %d visibility predicates, camel-casing and %d extension documents: each on a fresh source, in sequences of 2-3 on the SAME source, and " \
                      "chained; source = base schema with field / default / subscription resolvers, type resolvers and explicit python names" % (len(VISIBILITIES), len(EXTENSIONS))
    run.cov["bounded_functions"].append({"functions": ["Schema.clone", "transform_schema", "VisibilitySchemaTransform", "CamelCaseSchemaTransform", "extend_schema",
                                                       "fix_type_references", "Schema._replace_types_and_directives", "ASTTypeBuilder._extend_*"], "bound": "%d operation applications" % n})
    run.sample({"sequence": ["hide-type-Cat", "clone", "extend-0"], "contracts": ["closed(result)", "snapshot(source) unchanged", "removed unreachable", "untargeted preserved"]})
    run.trusted("vf/ref_sdl.closed / snapshot")
    return run.finish("other", "attribute-preservation obligations on every rebuild site (constructor-argument analysis of the real source, for all inputs) + "
                               "bounded stand-in: data-structure invariants (closed registry, source unmodified, removed elements unreachable, untargeted "
                               "attributes preserved) as postconditions of every operation over operation sequences",
                      checker_cmd="./check C14 --tier %s" % tier)


def _snap_diff(a, b):
    from vf.props.c12 import first_diff
    return first_diff(a, b)
