"""Driver for Engine P (vf/tracecheck.py): runs the trace contracts of contracts/traces.py that carry a property and accounts for
them in the property's Run.  One obligation per (function, clause).  Verdicts:
  clause holds on every path and applies to at least one      -> discharged
  clause violated on some path                                -> VIOLATION ... no-failing-input-found (witness = the path; the
                                                                 property's bounded stand-in supplies a failing input if there is one)
  obligation generation failed (code left the subset, an iteration form is not recognised, a clause applies to no path)
                                                              -> function reported degraded, never a violation
"""
import importlib
import time

from vf import tracecheck as T
from vf.report import MachineryDefect

BACKEND = "trace-path enumeration"


def resolve(target):
    mod, qn = target.split(":")
    obj = importlib.import_module(mod)
    parts = qn.split(".")
    if len(parts) == 2:
        return getattr(obj, parts[0]).__dict__[parts[1]]
    return getattr(obj, parts[0])


def run(run, pid, only=None):
    import contracts.traces as C
    verdicts = {}
    todo = [c for c in C.TRACE_CONTRACTS if pid in c["props"] and (only is None or c["id"] in only)]
    if not todo:
        raise MachineryDefect("no trace contract carries %s" % pid)
    cov = run.cov
    for c in todo:
        t0 = time.time()
        q = c["id"]
        cov["functions_under_contract"].append(q + " (trace contract)")
        try:
            func = resolve(c["target"])
            if isinstance(func, (staticmethod, classmethod)):
                func = func.__func__
            eng = T.Engine(func, c["config"], inner=c.get("inner"))
            paths = eng.paths()
            # a contract shared by several properties may assign single clauses to some of them only
            clauses = [cl for cl in c["clauses"] if pid in c.get("clause_props", {}).get(cl[0], c.get("default_props", c["props"]))]
            if not clauses:
                continue
            results = T.check(paths, clauses)
        except T.Unsupported as e:
            cov["degraded_functions"].append({"function": q, "reason": "trace obligations could not be generated: %s" % e})
            verdicts[q] = "degraded"
            continue
        except (AttributeError, ImportError, KeyError) as e:
            cov["degraded_functions"].append({"function": q, "reason": "target not found: %r" % (e,)})
            verdicts[q] = "degraded"
            continue
        dt = time.time() - t0
        verdict = "proved"
        for r in results:
            oid = "%s:%s" % (q, r["id"])
            cov["obligations"] += 1
            cov["backends"][BACKEND] = cov["backends"].get(BACKEND, 0) + 1
            if r["holds"] and r["covered"]:
                cov["discharged"] += 1
                run.sample({"obligation": oid, "paths": len(paths), "covered_by": r["covered"], "status": "discharged"}, limit=6)
            elif r["holds"]:
                cov["undecided"].append({"obligation": oid, "status": "vacuous", "reason": "the clause applies to none of the %d paths" % len(paths)})
                verdict = "degraded" if verdict == "proved" else verdict
            else:
                w = r["witness"]
                reported = run.violation(oid, "%s - violated on path [%s] with event word [%s], outcome %s %s" % (
                    r["text"], w["path"], " ".join(w["events"]), w["outcome"], w["payload"]),
                    dict(w, function=q, clause=r["text"]), False,
                    extra={"obligation": oid, "solver": BACKEND, "solver_status": "counter-path (may be infeasible: values are abstracted)"})
                if not reported:
                    cov["refuted_known"] += 1          # the failing path is a listed finding
                verdict = "violated" if reported else ("known" if verdict == "proved" else verdict)
        cov["solver_time_s"] += dt
        if verdict == "degraded":
            cov["degraded_functions"].append({"function": q, "reason": "a clause applies to no path (contract out of date?)"})
        verdicts[q] = verdict
        for a in c.get("assumes", []):
            run.assume("%s: %s" % (q, a))
    run.cov["parts"]["engine_p"] = verdicts
    return verdicts
