"""Attribute-preservation obligations on every site that rebuilds a schema element (C14).

A *rebuild site* is a function of the repository that takes a schema element `src` (parameter annotated with one of the element
classes) and calls that same class's constructor.  For every parameter p of the class's real `__init__` (inspect.signature, read at
check time) there is one obligation: the constructor call passes an argument for p whose expression - after expanding the
function's local aliases (`name = object_type.name`, `fields = [... for f in object_type.fields]`) - reads the attribute of `src`
that `__init__` stores p in (or the property of the same name).  A parameter that is not passed at all silently takes its default,
which is exactly how resolvers / python names / descriptions get lost; an argument that does not read the source's attribute
replaces it.  The obligation says nothing about *how* the value is transformed (renamed, extended, healed) - that is the
operation's purpose - only that it is derived from the source's value.  Syntactic, per function, for all inputs.
"""
import ast
import inspect
import textwrap

ALIASES = {"type_": {"type", "_type", "_ltype"}, "args": {"arguments", "_args", "_source_args"}, "fields": {"fields", "_fields", "_source_fields"},
           "types": {"types", "_types", "_source_types"}, "interfaces": {"interfaces", "_interfaces", "_source_interfaces"},
           "default_value": {"default_value", "_default_value", "has_default_value"}, "serialize": {"serialize", "_serialize"},
           "parse": {"parse", "_parse"}, "parse_literal": {"parse_literal", "_parse_literal"}, "deprecation_reason": {"deprecation_reason"}}


def element_classes():
    from py_gql.schema import types as T
    return {n: getattr(T, n) for n in ("ObjectType", "InterfaceType", "UnionType", "EnumType", "InputObjectType", "ScalarType", "Field",
                                       "Argument", "InputField", "Directive", "EnumValue")}


def init_params(cls):
    sig = inspect.signature(cls.__init__)
    return [p for p in list(sig.parameters.values())[1:] if p.kind in (p.POSITIONAL_OR_KEYWORD, p.KEYWORD_ONLY)]


def stored_as(cls, pname):
    """attribute names `__init__` assigns the parameter to (self.X = <expr mentioning pname>)"""
    out = set()
    try:
        tree = ast.parse(textwrap.dedent(inspect.getsource(cls.__init__)))
    except (OSError, TypeError):
        return out
    for n in ast.walk(tree):
        if isinstance(n, ast.Assign):
            if any(isinstance(x, ast.Name) and x.id == pname for x in ast.walk(n.value)):
                for t in n.targets:
                    for x in ast.walk(t):
                        if isinstance(x, ast.Attribute) and isinstance(x.value, ast.Name) and x.value.id == "self":
                            out.add(x.attr)
    return out


def sites(func):
    """-> list of (class name, src param name, Call node, local alias map) for one function"""
    classes = element_classes()
    try:
        tree = ast.parse(textwrap.dedent(inspect.getsource(func))).body[0]
    except (OSError, TypeError, IndentationError):
        return []
    if not isinstance(tree, (ast.FunctionDef, ast.AsyncFunctionDef)):
        return []
    params = {}
    for a in tree.args.args + tree.args.kwonlyargs:
        ann = a.annotation
        if isinstance(ann, ast.Constant) and isinstance(ann.value, str):
            name = ann.value
        else:
            name = ast.unparse(ann) if ann is not None else None
        if name in classes:
            params[a.arg] = name
    if not params:
        return []
    aliases = {}
    for n in ast.walk(tree):
        if isinstance(n, ast.Assign) and len(n.targets) == 1 and isinstance(n.targets[0], ast.Name):
            aliases.setdefault(n.targets[0].id, []).append(n.value)
        elif isinstance(n, ast.AnnAssign) and isinstance(n.target, ast.Name) and n.value is not None:
            aliases.setdefault(n.target.id, []).append(n.value)
        elif isinstance(n, ast.For) and isinstance(n.target, ast.Name):
            aliases.setdefault(n.target.id, []).append(n.iter)
        elif isinstance(n, ast.comprehension) and isinstance(n.target, ast.Name):
            aliases.setdefault(n.target.id, []).append(n.iter)
    # statements that grow a local list also feed it: xs.append(e) / xs += e
    for n in ast.walk(tree):
        if isinstance(n, ast.Call) and isinstance(n.func, ast.Attribute) and n.func.attr in ("append", "extend", "add", "update") and isinstance(n.func.value, ast.Name):
            aliases.setdefault(n.func.value.id, []).extend(n.args)
    out = []
    for n in ast.walk(tree):
        if isinstance(n, ast.Call) and isinstance(n.func, ast.Name) and n.func.id in classes:
            for src, cname in params.items():
                if cname == n.func.id:
                    out.append((cname, src, n, aliases))
    return out


def reads(expr, src, aliases, seen=None, inner=None):
    """attribute names of `src` read by expr, expanding local aliases (and nested local function bodies) transitively"""
    seen = seen if seen is not None else set()
    found = set()
    for x in ast.walk(expr):
        if isinstance(x, ast.Attribute) and isinstance(x.value, ast.Name) and x.value.id == src:
            found.add(x.attr)
        elif isinstance(x, ast.Name) and x.id != src and x.id in aliases and x.id not in seen:
            seen.add(x.id)
            for v in aliases[x.id]:
                found |= reads(v, src, aliases, seen)
        elif isinstance(x, ast.Name) and inner and x.id in inner and x.id not in seen:
            seen.add(x.id)
            for stmt in inner[x.id].body:
                found |= reads(stmt, src, aliases, seen, inner)
    return found


def obligations(func, label):
    """-> list of dicts {id, cls, param, holds, detail}"""
    classes = element_classes()
    out = []
    try:
        tree = ast.parse(textwrap.dedent(inspect.getsource(func))).body[0]
    except (OSError, TypeError, IndentationError):
        return out
    inner = {n.name: n for n in ast.walk(tree) if isinstance(n, ast.FunctionDef) and n is not tree}
    for k, (cname, src, call, aliases) in enumerate(sites(func)):
        cls = classes[cname]
        params = init_params(cls)
        names = [p.name for p in params]
        passed = {}
        for i, a in enumerate(call.args):
            if isinstance(a, ast.Starred) or i >= len(names):
                passed = None
                break
            passed[names[i]] = a
        if passed is None or any(kw.arg is None for kw in call.keywords):
            out.append({"id": "%s#%d:%s(*)" % (label, k, cname), "cls": cname, "param": "*", "holds": None, "detail": "star-arguments: not analysable"})
            continue
        for kw in call.keywords:
            passed[kw.arg] = kw.value
        for p in params:
            want = {p.name, "_" + p.name} | ALIASES.get(p.name, set()) | stored_as(cls, p.name)
            oid = "%s#%d:%s.%s" % (label, k, cname, p.name)
            if p.name not in passed:
                out.append({"id": oid, "cls": cname, "param": p.name, "holds": False,
                            "detail": "%s(...) at line %d does not pass `%s`: the rebuilt element takes the default instead of %s.%s" % (
                                cname, call.lineno + func.__code__.co_firstlineno - 1, p.name, src, p.name)})
                continue
            got = reads(passed[p.name], src, aliases, inner=inner)
            ok = bool(got & want)
            out.append({"id": oid, "cls": cname, "param": p.name, "holds": ok,
                        "detail": "ok" if ok else "argument `%s=%s` of %s(...) at line %d does not read %s.%s (reads: %s)" % (
                            p.name, ast.unparse(passed[p.name])[:60], cname, call.lineno + func.__code__.co_firstlineno - 1, src, "/".join(sorted(want)), sorted(got))})
    return out


def rebuild_functions():
    """every function / method of the modules that rebuild schema elements which has at least one rebuild site"""
    import importlib
    mods = ["py_gql.sdl.ast_type_builder", "py_gql.schema.schema_visitor", "py_gql.schema.transforms.camel_case", "py_gql.schema.transforms.visibility",
            "py_gql.schema.fix_type_references", "py_gql.sdl.schema_directives", "py_gql.schema.schema"]
    out = []
    for m in mods:
        mod = importlib.import_module(m)
        for name, obj in vars(mod).items():
            if inspect.isfunction(obj) and obj.__module__ == m and sites(obj):
                out.append(("%s.%s" % (m.split(".")[-1], name), obj))
            elif inspect.isclass(obj) and obj.__module__ == m:
                for an, av in vars(obj).items():
                    f = av.__func__ if isinstance(av, (staticmethod, classmethod)) else av
                    f = getattr(f, "__wrapped__", f)
                    if inspect.isfunction(f) and sites(f):
                        out.append(("%s.%s" % (obj.__name__, an), f))
    return out
