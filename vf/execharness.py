"""Common harness of the execution-side contracts (C04, C05, C08, C09, C10, C16, C17).

* one execution schema covering objects, interface, union, enum, custom scalar, lists, non-null,
  arguments with defaults, mutations, subscriptions;
* resolver behaviour as data (worlds, see vf/ref_exec.py): one generic resolver looks the response
  path up in the world carried by the context value and logs invoke / finish events;
* four executor / runtime configurations; deferred fields become *parked tasks* that the harness
  completes in a chosen order on the calling thread (ThreadPoolRuntime._inner is replaced by a
  parking executor; asyncio resolvers await harness-owned futures), so every completion order of the
  in-flight tasks can be enumerated (stateless DFS over schedules);
* normalisation of results for comparison with the reference executor.
"""
import asyncio
import itertools
from collections import OrderedDict
from concurrent.futures import Future

from . import ref_exec as RX

EXEC_SDL = '''
enum Color { RED GREEN BLUE }
scalar Any
interface Named { name: String  tag(prefix: String = "n"): String }
interface Owned { owner: Person }
type Dog implements Named & Owned { name: String  tag(prefix: String = "dog", loud: Boolean = false): String  barks: Boolean  owner: Person  tricks: [String!] }
type Cat implements Named & Owned { name: String  tag(prefix: String = "cat"): String  lives: Int!  owner: Person }
union Pet = Dog | Cat
type Person implements Named {
  name: String
  tag(prefix: String = "p"): String
  age: Int
  pets: [Pet!]
  best: Pet
  friends(first: Int = 2): [Person]
  strict: String!
  color: Color
  any: Any
  sure: Any!
  scores: [Int!]!
  lim(a: Int! = 5, tags: [String]): Int
}
input Filter { min: Int = 1  tags: [String!]  color: Color  sub: Filter  subs: [Filter!] }
type Query {
  me: Person
  pet: Pet
  named: [Named]
  owned: [Owned!]
  people: [Person!]!
  echo(s: String = "d", f: Filter, id: ID, any: Any, func: String, fn: String, args: String, kwargs: String, self: String, cls: String, callback: String, value: String): String
  count: Int!
  color(c: Color = RED): Color
  need(n: Int! = 1): Int!
}
type Mutation { a(n: Int): Int  b: Person  c: Int!  d: Int }
type Subscription { tick: Int  ping: Person }
'''

CONFIGS = ("blocking-executor", "executor-blocking", "executor-asyncio", "executor-threadpool")


class Ctx:
    def __init__(self, world):
        self.world = world
        self.log = []
        self.gates = []          # asyncio: parked (path, future)


def _outcome(ctx, root, info):
    from py_gql.exc import ResolverError
    path = tuple(info.path)
    oc = ctx.world.get(path)
    if oc is None:
        if isinstance(root, dict) and info.field_definition.name in root:
            return root[info.field_definition.name]
        v = RX.default_value(info.schema, info.parent_type, info.field_definition, path)
        return _as_objects(v) if ctx.world.get(OBJECTS) else v
    if oc[0] == "value":
        return oc[1]
    if oc[0] == "null":
        return None
    if oc[0] == "error" and oc[1] == "E-foreign-path":
        # an error that already carries a path of its own (forwarded from a delegated request): the response reports the position of THIS field
        raise ResolverError(oc[1], path=["foreign", 0], extensions=oc[2] if len(oc) > 2 else None)
    if oc[0] == "error" and oc[1] == "E-custom-init":
        # a subclass whose constructor has a signature of its own (positional + keyword-only parameters)
        raise CustomInitError("user", ident=42)
    if oc[0] == "error":
        raise ResolverError(oc[1], extensions=oc[2] if len(oc) > 2 else None)
    if oc[0] == "gen-error":
        # a list resolver that answers with a generator which fails with the library's resolver error while it is being consumed
        def gen(items=oc[1]):
            for it in items:
                yield it
            raise ResolverError("generator failed")
        return gen()
    if oc[0] == "shared-error":
        # ONE error object per message for the life of the process: a resolver raising a pre-built instance (module-level constant) at several
        # positions and in several requests - every position still gets its own error, path and location
        raise _SHARED_ERRORS.setdefault(oc[1], ResolverError(oc[1]))
    if oc[1].startswith("IndexError"):
        raise IndexError(oc[1])         # an unexpected exception of a class that library code catches for its own purposes somewhere
    if oc[1].startswith("KeyError"):
        raise KeyError(oc[1])
    if oc[1].startswith(("UnknownEnumValue", "InvalidValue")):
        # one of the library's own exception classes that is neither a resolver error nor a coercion error (a resolver calling EnumType.get_value,
        # value_from_ast ... on its own account): as unexpected as any other exception
        import py_gql.exc as X
        raise getattr(X, oc[1].split(":")[0])(oc[1])
    raise RuntimeError(oc[1])


_SHARED_ERRORS = {}


def _custom_init_error():
    from py_gql.exc import ResolverError

    class CustomInitError(ResolverError):
        def __init__(self, kind, *, ident):
            super().__init__("E-custom-init")
            self.kind, self.ident = kind, ident
    return CustomInitError


CustomInitError = _custom_init_error()
OBJECTS = ("__objects__",)          # world flag: composite values are instances of ONE Python class carrying their type name per instance


class VfObj:
    def __init__(self, typename):
        self.__typename__ = typename


def _as_objects(v):
    if isinstance(v, list):
        return [_as_objects(x) for x in v]
    if isinstance(v, dict) and set(v) == {"__typename__"}:
        return VfObj(v["__typename__"])
    return v


def world_resolver(root, ctx, info, **args):
    path = tuple(info.path)
    ctx.log.append(("invoke", path, dict(args)))
    try:
        return _outcome(ctx, root, info)
    finally:
        ctx.log.append(("finish", path))


def world_resolver_task(root, ctx, info, **args):
    """same behaviour, distinct function object: the executor only hands non-default resolvers to the runtime"""
    return world_resolver(root, ctx, info, **args)


async def world_resolver_async(root, ctx, info, **args):
    path = tuple(info.path)
    ctx.log.append(("invoke", path, dict(args)))
    gate = asyncio.get_event_loop().create_future()
    ctx.gates.append((path, gate))
    await gate
    try:
        return _outcome(ctx, root, info)
    finally:
        ctx.log.append(("finish", path))


def make_schema(deferred=(), asynchronous=False, sdl=EXEC_SDL):
    """deferred: iterable of (TypeName, fieldName) resolved through an explicitly registered resolver
    (-> pool task / coroutine); all other fields use the schema default resolver (synchronous)."""
    from py_gql import build_schema
    s = build_schema(sdl)
    if "Any" in s.types:
        # a custom scalar that serialises one particular (non-null) internal value to null: completion, not resolution, decides non-null errors
        s.types["Any"]._serialize = RX.serialize_any
    s.default_resolver = world_resolver
    for t, f in deferred:
        s.register_resolver(t, f, world_resolver_async if asynchronous else world_resolver_task)
    return s


class ParkingExecutor:
    """stands in for ThreadPoolRuntime._inner: submit() parks the call and returns a pending Future"""

    def __init__(self, eager=()):
        self.parked = []
        self.eager = set(eager)      # submission indices completed at submit time (a worker that finishes at once)
        self.count = 0

    def submit(self, fn, /, *args, **kwargs):          # (positional-only like concurrent.futures.Executor.submit)
        f = Future()
        idx = self.count
        self.count += 1
        self.parked.append((f, fn, args, kwargs))
        if idx in self.eager:
            self.run(len(self.parked) - 1)
        return f

    def run(self, index):
        f, fn, args, kwargs = self.parked.pop(index)
        try:
            r = fn(*args, **kwargs)
        except BaseException as e:  # noqa
            f.set_exception(e)
        else:
            f.set_result(r)


class Schedule:
    """choices made so far + branching factor seen at each step (for stateless DFS)"""

    def __init__(self, prefix=()):
        self.prefix = list(prefix)
        self.taken = []
        self.options = []

    def pick(self, n):
        i = len(self.taken)
        c = self.prefix[i] if i < len(self.prefix) else 0
        c = min(c, n - 1)
        self.taken.append(c)
        self.options.append(n)
        return c


def next_prefix(sched):
    """next schedule in DFS order, or None"""
    taken, options = list(sched.taken), list(sched.options)
    while taken:
        if taken[-1] + 1 < options[-1]:
            taken[-1] += 1
            return taken
        taken.pop()
        options.pop()
    return None


WATCHDOG_S = 10


def run_request(schema, query, variables, world, config, schedule=None, operation_name=None, instrumentation=None, middlewares=None,
                root=None, disable_introspection=False, eager=()):
    """run_request_unguarded under a watchdog for the thread-pool configuration: library code that *waits* for a parked task (instead of
    registering a callback) would block the only thread that can complete it - reported as outcome 'pending' with hang=True, never a hung check"""
    if config != "executor-threadpool":
        return run_request_unguarded(schema, query, variables, world, config, schedule, operation_name, instrumentation, middlewares, root,
                                     disable_introspection, eager)
    import threading
    box = {}

    def target():
        box["out"] = run_request_unguarded(schema, query, variables, world, config, schedule, operation_name, instrumentation, middlewares, root,
                                           disable_introspection, eager)
    t = threading.Thread(target=target, daemon=True)
    t.start()
    t.join(WATCHDOG_S)
    if t.is_alive() or "out" not in box:
        return {"log": [], "pending": True, "tasks": 0, "outcome": "pending", "result": None, "hang": True}
    return box["out"]


def run_request_unguarded(schema, query, variables, world, config, schedule=None, operation_name=None, instrumentation=None, middlewares=None,
                          root=None, disable_introspection=False, eager=()):
    """returns dict(outcome='result'|'exception', result=GraphQLResult|None, exc=..., log=[...], pending=bool, tasks=int)"""
    from py_gql import process_graphql_query
    from py_gql.execution import BlockingExecutor, Executor
    from py_gql.execution.runtime import AsyncIORuntime, BlockingRuntime, ThreadPoolRuntime
    ctx = Ctx(world)
    kw = dict(variables=variables, operation_name=operation_name, context=ctx, instrumentation=instrumentation, middlewares=middlewares,
              root=root, disable_introspection=disable_introspection)
    out = {"log": ctx.log, "pending": False, "tasks": 0}
    schedule = schedule or Schedule()
    try:
        if config == "blocking-executor":
            res = process_graphql_query(schema, query, executor_cls=BlockingExecutor, **kw)
        elif config == "executor-blocking":
            res = process_graphql_query(schema, query, executor_cls=Executor, runtime=BlockingRuntime(), **kw)
        elif config == "executor-threadpool":
            rt = ThreadPoolRuntime(max_workers=1)
            rt._inner.shutdown(wait=False)
            pe = ParkingExecutor(eager)
            rt._inner = pe
            fut = process_graphql_query(schema, query, executor_cls=Executor, runtime=rt, **kw)
            steps = 0
            while pe.parked and steps < 10000:
                out["max_parked"] = max(out.get("max_parked", 0), len(pe.parked))
                pe.run(schedule.pick(len(pe.parked)))
                steps += 1
            out["tasks"] = pe.count
            if not fut.done():
                out["pending"] = True
                out["outcome"], out["result"] = "pending", None
                return out
            res = fut.result()
        elif config == "executor-asyncio":
            loop = asyncio.new_event_loop()
            try:
                asyncio.set_event_loop(loop)
                rt = AsyncIORuntime(loop=loop, execute_blocking_functions_in_thread=False)

                async def drive():
                    task = asyncio.ensure_future(process_graphql_query(schema, query, executor_cls=Executor, runtime=rt, **kw))
                    steps = 0
                    for _ in range(20000):
                        for _ in range(12):
                            await asyncio.sleep(0)
                        if task.done():
                            break
                        if ctx.gates:
                            out["max_parked"] = max(out.get("max_parked", 0), len(ctx.gates))
                            path, gate = ctx.gates.pop(schedule.pick(len(ctx.gates)))
                            gate.set_result(None)
                            steps += 1
                        else:
                            for _ in range(30):
                                await asyncio.sleep(0)
                            if not task.done() and not ctx.gates:
                                out["pending"] = True
                                task.cancel()
                                return None
                    out["tasks"] = steps
                    return await task
                res = loop.run_until_complete(drive())
                if out["pending"]:
                    out["outcome"], out["result"] = "pending", None
                    return out
            finally:
                asyncio.set_event_loop(None)
                loop.close()
        elif config == "executor-threadpool-real":
            # the thread-pool runtime as shipped: a real concurrent.futures.ThreadPoolExecutor (order-free facts only, like the offload configuration)
            rt = ThreadPoolRuntime(max_workers=3)
            try:
                fut = process_graphql_query(schema, query, executor_cls=Executor, runtime=rt, **kw)
                res = fut.result(timeout=30) if hasattr(fut, "result") else fut
            finally:
                rt._inner.shutdown(wait=False)
        elif config == "executor-asyncio-offload":
            # the runtime's default mode: plain (non-coroutine) resolvers are wrapped and run in worker threads of the loop's default executor.
            # Real threads: completion order is whatever it is, so only order-free facts (outcome, data, errors, invocation multiset) may be compared.
            loop = asyncio.new_event_loop()
            try:
                asyncio.set_event_loop(loop)
                rt = AsyncIORuntime()            # built the documented way, before the loop runs: it finds the thread's current event loop
                res = loop.run_until_complete(asyncio.wait_for(process_graphql_query(schema, query, executor_cls=Executor, runtime=rt, **kw), 30))
            finally:
                try:
                    loop.run_until_complete(loop.shutdown_default_executor())
                except Exception:
                    pass
                asyncio.set_event_loop(None)
                loop.close()
        else:
            raise ValueError(config)
    except Exception as e:
        out["outcome"], out["exc"], out["result"] = "exception", e, None
        return out
    out["outcome"], out["result"] = "result", res
    return out


# ---------------------------------------------------------------------------------------------
# normalisation

def plain(data):
    """ordered, type-faithful rendering of response data (dict order matters)"""
    if isinstance(data, dict):
        return ["{", [(k, plain(v)) for k, v in data.items()], "}"]
    if isinstance(data, (list, tuple)):
        return [plain(v) for v in data]
    return (type(data).__name__, data)


def lib_errors(result):
    from py_gql.exc import CoercionError, ResolverError
    out = []
    for e in result.errors:
        path = tuple(e.path) if getattr(e, "path", None) is not None else None
        msg = str(getattr(e, "message", e))
        if isinstance(e, CoercionError):
            kind, msg = "coercion", None
        elif msg.endswith("is not nullable"):
            kind, msg = "non-null", None
        else:
            kind = "resolver"
        nodes = getattr(e, "nodes", None) or []
        loc = nodes[0].loc[0] if nodes and nodes[0].loc else None
        ext = getattr(e, "extensions", None)
        out.append((path, kind, msg, loc, _freeze(ext)))
    return sorted(out, key=repr)


def ref_errors(errors):
    out = []
    for path, kind, msg, loc, ext in errors:
        out.append((path, kind, msg if kind == "resolver" else None, loc, _freeze(ext)))
    return sorted(out, key=repr)


def _freeze(x):
    if isinstance(x, dict):
        return tuple(sorted((k, _freeze(v)) for k, v in x.items()))
    if isinstance(x, list):
        return tuple(_freeze(v) for v in x)
    return x


def reference(schema, query, variables, world, operation_name=None, root=None):
    """('result', plain data, errors, execution) | ('exception', 'boom') | ('request-error', kind)"""
    from py_gql.lang import parse
    doc = parse(query) if isinstance(query, str) else query
    try:
        data, errors, ex = RX.execute_request(schema, doc, operation_name, variables, world, root)
    except RX.Boom as e:
        return ("exception", str(e), None, None)
    except RX.RequestError as e:
        return ("request-error", e.kind, None, None)
    return ("result", plain(data), ref_errors(errors), ex)


# ---------------------------------------------------------------------------------------------
# operations and worlds

OPERATIONS = [
    ("{ me { name age } }", {}),
    ("{ me { n: name name age a2: age } count }", {}),
    ("{ me { name } me { age } me { name strict } }", {}),
    ("{ me { pets { __typename ... on Dog { name barks tricks } ... on Cat { name lives } } } }", {}),
    ("{ pet { ... on Named { name } ... on Dog { barks } } named { name ... on Person { age } ... on Cat { lives } } }", {}),
    ("{ people { name friends { name friends(first: 1) { name } } } }", {}),
    ("{ people { scores strict color any } }", {}),
    ("{ me { sure any } people { sure } }", {}),
    ("query Q($s: Boolean!, $i: Boolean = true) { me { name @skip(if: $s) age @include(if: $i) strict @include(if: $s) } count @skip(if: $i) }", {"s": True}),
    ("query Q($s: Boolean!) { me { ... on Person @include(if: $s) { name } ...F @skip(if: $s) } } fragment F on Person { age }", {"s": False}),
    ("fragment A on Person { name best { ...N } } fragment N on Named { name } { me { ...A pets { ...N } } }", {}),
    ("{ echo a: echo(s: \"x\") b: echo(s: null) c: echo(f: {tags: [\"t\"], color: GREEN}) color g: color(c: GREEN) }", {}),
    ("query ($x: String, $f: Filter, $c: Color = BLUE) { echo(s: $x, f: $f) color(c: $c) }", {"x": "v", "f": {"min": 3}}),
    ("query ($x: String = \"dv\") { echo(s: $x) }", {}),
    ("{ me { best { ... on Dog { owner { name best { __typename } } } ... on Cat { owner { age } lives } } } }", {}),
    ("{ named { __typename name } people { pets { ... on Dog { name } } } }", {}),
    ("query A { count } query B { me { name } }", {}),
    ("{ me { ...X ...X } } fragment X on Person { name age }", {}),
    ("{ me { ... { name ... { age } } } }", {}),
    ("{ owned { owner { name } ... on Dog { owner { age } } ... on Cat { owner { strict } } } }", {}),
    ("{ owned { ... on Cat { owner { color } } owner { name } ... on Dog { owner { age best { __typename } } } } }", {}),
    ("{ named { ... on Dog { owner { name } } ... on Cat { owner { age } } ... on Dog { owner { strict } } } }", {}),
    ("{ people { best { ... on Dog { name } } best { ... on Cat { lives } } best { ... on Named { name } } } }", {}),
    ("fragment O on Owned { owner { name } } { owned { ...O ... on Dog { owner { age } } } pet { ...O ... on Cat { owner { strict } } } }", {}),
    ("query ($a: Boolean!, $b: Boolean!) { me { ...P @include(if: $a) age ...P @include(if: $b) } } fragment P on Person { name strict }", {"a": False, "b": True}),
    ("query ($a: Boolean!, $b: Boolean!) { me { ...P @skip(if: $a) ... on Person { ...P @skip(if: $b) } } } fragment P on Person { name }", {"a": True, "b": False}),
    ("query ($x: Int) { people { lim(a: $x) name friends { lim(a: $x) } } }", {"x": None}),
    ("query ($x: Int, $t: String) { people { lim(a: $x, tags: [$t, \"k\"]) } me { lim } }", {"x": 3, "t": None}),
    # one field node executed against several runtime types whose definitions of the field differ in argument defaults / extra arguments
    ("{ named { tag } pet { ... on Named { tag } } owned { ... on Named { tag } } }", {}),
    ("query ($p: String, $q: String = \"q\") { named { tag(prefix: $p) t2: tag(prefix: $q) ...T } people { best { ...T } pets { ...T } } } fragment T on Named { t3: tag }", {}),
    ("{ people { pets { ... on Named { tag } ... on Dog { l: tag(loud: true) } } best { ... on Named { tag(prefix: \"x\") } } } me { tag } }", {}),
    # one fragment spread inside an inline fragment AND next to it (visited once per selection set, whatever the nesting)
    ("{ ... { ...X } ...X me { ... { ...Y } ...Y ... on Person { ... { ...Y } } } } fragment X on Query { count } fragment Y on Person { strict name }", {}),
    # argument coercion failing at execution time (explicit null for a variable with a default) on a NON-NULL field: one error for that position
    ("query ($n: Int = 1) { need(n: $n) count me { name } }", {"n": None}),
    ("query ($n: Int = 1) { a: need(n: $n) b: need(n: 2) }", {"n": None}),
    ("mutation { a(n: 1) b { name } c d }", {}),
    ("mutation M($n: Int = 2) { x: a(n: $n) y: a(n: 3) d }", {}),
    ("mutation { a(n: 1) __typename b { name } t: __typename d }", {}),
    # both conditions on one selection, either order: the selection stays only if it is not skipped AND included
    ("query ($t: Boolean!, $f: Boolean!) { me { name @skip(if: $t) @include(if: $t) age @include(if: $t) @skip(if: $f) strict @skip(if: $f) @include(if: $f) "
     "x: name @include(if: $f) @skip(if: $t) } count @skip(if: $t) @include(if: $t) }", {"t": True, "f": False}),
    ("subscription { tick }"[:0] or "{ count t: __typename me { __typename name } __typename }", {}),
]


def base_paths(schema, query, variables, operation_name=None):
    """(path, field type) of every field resolved under the all-default world"""
    from py_gql.lang import parse
    doc = parse(query)
    ops = [d for d in doc.definitions if d.__class__.__name__ == "OperationDefinition"]
    name = operation_name or (ops[0].name.value if len(ops) > 1 and ops[0].name else None)
    data, errors, ex = RX.execute_request(schema, doc, name, variables, {})
    return name, [(p, t) for p, _pt, _fn, t in ex.visited]


def worlds_for(schema, query, variables, operation_name=None, with_boom=False, limit=None):
    """the all-default world plus single-point perturbations at every resolved path"""
    from py_gql.schema import ListType, NonNullType
    name, paths = base_paths(schema, query, variables, operation_name)
    out = [("default", {})]
    fixed_gen = []
    for path, t in paths:
        out.append(("null@%s" % (path,), {path: ("null",)}))
        out.append(("error@%s" % (path,), {path: ("error", "E%d" % len(path), {"code": len(path)} if len(path) % 2 else None)}))
        inner = t.type if isinstance(t, NonNullType) else t
        if isinstance(inner, ListType):
            one = RX._default_for(schema, inner.type, path + (0,), 0)
            out.append(("list-null-item@%s" % (path,), {path: ("value", [one, None])}))
            out.append(("empty-list@%s" % (path,), {path: ("value", [])}))
            fixed_gen.append(("gen-error@%s" % (path,), {path: ("gen-error", [one])}))
        if getattr(inner, "name", None) == "Any":
            out.append(("void@%s" % (path,), {path: ("value", RX.VOID)}))       # serialises to null although the resolver returned a value
        if with_boom:
            out.append(("boom@%s" % (path,), {path: ("boom", "unexpected")}))
            # a resolver result the leaf type cannot serialise: not a field error - the whole request fails, in every configuration
            if getattr(inner, "name", None) in ("Int", "Color"):
                out.append(("badleaf@%s" % (path,), {path: ("value", "NOT_A_MEMBER")}))
            if getattr(inner, "name", None) == "Int":
                out.append(("boolleaf@%s" % (path,), {path: ("value", True)}))      # a boolean for an Int leaf: answered as 1, never as `true`
    # the same error instance raised at two positions (first and last resolved leaf, and two neighbours): fixed members, never sampled away
    leaves = [p for p, t in paths if not any(q[:len(p)] == p and q != p for q, _t in paths)]
    fixed = []
    if len(leaves) >= 2:
        fixed.append(("shared-error@%s+%s" % (leaves[0], leaves[-1]), {leaves[0]: ("shared-error", "S1"), leaves[-1]: ("shared-error", "S1")}))
        fixed.append(("shared-error@%s+%s" % (leaves[0], leaves[1]), {leaves[0]: ("shared-error", "S2"), leaves[1]: ("shared-error", "S2")}))
    # the same message at two items of one list (one field node, one location, two paths): two errors
    twins = [(p, q) for p in leaves for q in leaves if p < q and len(p) == len(q) and sum(a != b for a, b in zip(p, q)) == 1
             and all(isinstance(a, int) and isinstance(b, int) for a, b in zip(p, q) if a != b)]
    if twins:
        fixed.append(("same-error-on-items@%s+%s" % twins[0], {twins[0][0]: ("error", "E-same", None), twins[0][1]: ("error", "E-same", None)}))
    if leaves:
        fixed.append(("error-foreign-path@%s" % (leaves[-1],), {leaves[-1]: ("error", "E-foreign-path", None)}))
        fixed.append(("error-custom-init@%s" % (leaves[0],), {leaves[0]: ("error", "E-custom-init", None)}))
    if with_boom and paths:
        fixed.append(("boom-index@%s" % (paths[0][0],), {paths[0][0]: ("boom", "IndexError: unexpected")}))
        fixed.append(("boom-key@%s" % (paths[-1][0],), {paths[-1][0]: ("boom", "KeyError: unexpected")}))
        fixed.append(("boom-lib@%s" % (paths[-1][0],), {paths[-1][0]: ("boom", "UnknownEnumValue: unexpected")}))
        fixed.append(("boom-lib@%s" % (paths[0][0],), {paths[0][0]: ("boom", "InvalidValue: unexpected")}))
    if limit is not None and len(out) > limit:
        step = len(out) / float(limit)
        out = [out[int(i * step)] for i in range(limit)]
    out[1:1] = fixed + fixed_gen[:1] + [("objects", {OBJECTS: ("flag",)})]
    return name, out


def deferrable_fields(schema):
    from py_gql.schema import ObjectType
    out = []
    for t in schema.types.values():
        if isinstance(t, ObjectType) and not t.name.startswith("__"):
            for f in t.fields:
                out.append((t.name, f.name))
    return out
