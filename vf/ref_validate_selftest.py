# -*- coding: utf-8 -*-
"""
Self test for ref_validate.py.

Run with:  PYTHONPATH=/repo/src /venv/bin/python /verif/vf/selftest.py
"""
import os
import random
import re
import sys

sys.path.insert(0, os.path.dirname(os.path.abspath(__file__)))

from py_gql import build_schema  # noqa: E402
from py_gql.lang import parse  # noqa: E402

import ref_validate as R  # noqa: E402

SDL = """
directive @tag(name: String!, weight: Int = 1) on FIELD
directive @onQuery on QUERY
directive @onVar on VARIABLE_DEFINITION

scalar Date

enum Color { RED GREEN BLUE }

interface Pet { name: String! nick(upper: Boolean): String }
interface Walker { legs: Int }

type Dog implements Pet & Walker {
  name: String! nick(upper: Boolean): String legs: Int
  barks: Boolean friend: Pet color: Color
  size(unit: Color! = RED): Float
}
type Cat implements Pet { name: String! nick(upper: Boolean): String meows: Boolean legs: String color: String }
type Fish { name: Int weight: Float }

union CatOrDog = Cat | Dog
union Swimmer = Fish

input Point { x: Int! y: Int! = 0 label: String tags: [String!] }
input Filter { at: Point near: [Point!] color: Color = RED when: Date }

type Query {
  pet(id: ID!): Pet
  pets(first: Int = 10, colors: [Color!], filter: Filter): [Pet!]!
  dog: Dog cat: Cat fish: Fish
  any: CatOrDog swimmer: Swimmer
  search(at: Point!, matrix: [[Int]], date: Date, ids: [ID!]!): [CatOrDog]
  color(c: Color, f: Float, s: String, b: Boolean): Color
}
type Mutation { rename(id: ID!, name: String!): Pet }
type Subscription { petAdded(color: Color): Pet tick: Int }
"""

SCHEMA = build_schema(SDL)

# (rule, violating document, corrected document)
CASES = [
    # ---------------------------------------------------------------- 5.1.1
    ("ExecutableDefinitions", "{ dog { name } } type Foo { a: Int }", "{ dog { name } }"),
    ("ExecutableDefinitions", "extend type Dog { x: Int } { dog { name } }", "{ dog { name } }"),
    ("ExecutableDefinitions", "query Q { dog { name } } scalar Foo", "query Q { dog { name } }"),
    # -------------------------------------------------------------- 5.2.1.1
    ("UniqueOperationNames", "query A { dog { name } } query A { cat { name } }",
     "query A { dog { name } } query B { cat { name } }"),
    ("UniqueOperationNames", "query A { dog { name } } mutation A { rename(id: 1, name: \"x\") { name } }",
     "query A { dog { name } } mutation B { rename(id: 1, name: \"x\") { name } }"),
    ("UniqueOperationNames", "query A { dog { name } } query B { dog { name } } subscription A { tick }",
     "query A { dog { name } } query B { dog { name } } subscription C { tick }"),
    # -------------------------------------------------------------- 5.2.2.1
    ("LoneAnonymousOperation", "{ dog { name } } query A { cat { name } }", "{ dog { name } }"),
    ("LoneAnonymousOperation", "{ dog { name } } { cat { name } }", "query A { dog { name } } query B { cat { name } }"),
    ("LoneAnonymousOperation", "mutation { rename(id: 1, name: \"x\") { name } } query A { cat { name } }",
     "mutation M { rename(id: 1, name: \"x\") { name } } query A { cat { name } }"),
    # -------------------------------------------------------------- 5.2.3.1
    ("SingleFieldSubscriptions", "subscription S { petAdded { name } tick }", "subscription S { petAdded { name } }"),
    ("SingleFieldSubscriptions", "subscription S { ...F } fragment F on Subscription { petAdded { name } tick }",
     "subscription S { ...F } fragment F on Subscription { petAdded { name } }"),
    ("SingleFieldSubscriptions", "subscription S { tick __typename }", "subscription S { __typename }"),
    ("SingleFieldSubscriptions", "subscription S { tick ... { t2: tick } }", "subscription S { tick ... { tick } }"),
    # ---------------------------------------------------------------- 5.3.1
    ("FieldsOnCorrectType", "{ dog { meows } }", "{ dog { barks } }"),
    ("FieldsOnCorrectType", "{ pet(id: 1) { barks } }", "{ pet(id: 1) { ... on Dog { barks } } }"),
    ("FieldsOnCorrectType", "{ any { name } }", "{ any { __typename ... on Cat { name } } }"),
    ("FieldsOnCorrectType", "{ dog { __schema { types { name } } } }", "{ __schema { types { name } } dog { name } }"),
    ("FieldsOnCorrectType", "fragment F on Pet { legs } { pet(id: 1) { ...F } }",
     "fragment F on Pet { name } { pet(id: 1) { ...F } }"),
    ("FieldsOnCorrectType", "mutation { __type(name: \"Dog\") { name } }", "query { __type(name: \"Dog\") { name } }"),
    # ---------------------------------------------------------------- 5.3.2
    ("OverlappingFieldsCanBeMerged", "{ dog { x: name x: nick } }", "{ dog { x: name x: name } }"),
    ("OverlappingFieldsCanBeMerged", "{ dog { nick(upper: true) nick(upper: false) } }",
     "{ dog { nick(upper: true) nick(upper: true) } }"),
    ("OverlappingFieldsCanBeMerged", "{ dog { nick nick(upper: false) } }", "{ dog { nick a: nick(upper: false) } }"),
    ("OverlappingFieldsCanBeMerged", "query ($a: Boolean, $b: Boolean) { dog { nick(upper: $a) nick(upper: $b) } }",
     "query ($a: Boolean) { dog { nick(upper: $a) nick(upper: $a) } }"),
    # different object parents: only the response shape matters
    ("OverlappingFieldsCanBeMerged", "{ pet(id: 1) { ... on Dog { legs } ... on Cat { legs } } }",
     "{ pet(id: 1) { ... on Dog { legs } ... on Cat { l: legs } } }"),
    ("OverlappingFieldsCanBeMerged", "{ pet(id: 1) { ... on Dog { v: legs } ... on Cat { v: meows } } }",
     "{ pet(id: 1) { ... on Dog { v: barks } ... on Cat { v: meows } } }"),
    # interface parent + object parent: names must be identical
    ("OverlappingFieldsCanBeMerged", "{ pet(id: 1) { v: name ... on Dog { v: nick } } }",
     "{ pet(id: 1) { v: name ... on Dog { v: name } } }"),
    # nested conflict through fragments
    ("OverlappingFieldsCanBeMerged",
     "{ dog { friend { ...A } friend { ...B } } } fragment A on Pet { x: name } fragment B on Pet { x: nick }",
     "{ dog { friend { ...A } friend { ...B } } } fragment A on Pet { x: name } fragment B on Pet { x: name }"),
    # deep response shape conflict between exclusive parents
    ("OverlappingFieldsCanBeMerged",
     "{ any { ... on Dog { friend { v: name } } ... on Cat { friend: name } } }",
     "{ any { ... on Dog { friend { v: name } } ... on Cat { f: name } } }"),
    ("OverlappingFieldsCanBeMerged",
     "{ search(at: {x: 1}, ids: []) { ... on Dog { c: color } ... on Cat { c: color } } }",
     "{ search(at: {x: 1}, ids: []) { ... on Dog { c: name } ... on Cat { c: name } } }"),
    # argument values compared structurally, object fields unordered
    ("OverlappingFieldsCanBeMerged", "{ search(at: {x: 1, y: 2}, ids: []) { __typename } search(at: {x: 1, y: 3}, ids: []) { __typename } }",
     "{ search(at: {x: 1, y: 2}, ids: []) { __typename } search(at: {y: 2, x: 1}, ids: []) { __typename } }"),
    # ---------------------------------------------------------------- 5.3.3
    ("ScalarLeafs", "{ dog }", "{ dog { name } }"),
    ("ScalarLeafs", "{ dog { name { x } } }", "{ dog { name } }"),
    ("ScalarLeafs", "{ dog { color { x } } }", "{ dog { color } }"),
    ("ScalarLeafs", "{ any }", "{ any { __typename } }"),
    ("ScalarLeafs", "{ pets }", "{ pets { name } }"),
    # ---------------------------------------------------------------- 5.4.1
    ("KnownArgumentNames", "{ dog { nick(lower: true) } }", "{ dog { nick(upper: true) } }"),
    ("KnownArgumentNames", "{ dog { name @include(unless: true) } }", "{ dog { name @include(if: true) } }"),
    ("KnownArgumentNames", "{ __typename(x: 1) }", "{ __typename }"),
    ("KnownArgumentNames", "{ __type(name: \"Dog\", x: 1) { name } }", "{ __type(name: \"Dog\") { name } }"),
    ("KnownArgumentNames", "{ dog { name @tag(name: \"a\", size: 2) } }", "{ dog { name @tag(name: \"a\", weight: 2) } }"),
    # ---------------------------------------------------------------- 5.4.2
    ("UniqueArgumentNames", "{ dog { nick(upper: true, upper: true) } }", "{ dog { nick(upper: true) } }"),
    ("UniqueArgumentNames", "{ dog { name @skip(if: true, if: false) } }", "{ dog { name @skip(if: true) } }"),
    ("UniqueArgumentNames", "{ unknownField(a: 1, a: 2) }", "{ pet(id: 1) { name } }"),
    # -------------------------------------------------------------- 5.4.2.1
    ("ProvidedRequiredArguments", "{ pet { name } }", "{ pet(id: 1) { name } }"),
    ("ProvidedRequiredArguments", "{ dog { name @skip } }", "{ dog { name @skip(if: true) } }"),
    ("ProvidedRequiredArguments", "{ pet(id: null) { name } }", "{ pet(id: \"null\") { name } }"),
    ("ProvidedRequiredArguments", "{ __type { name } }", "{ __type(name: \"X\") { name } }"),
    ("ProvidedRequiredArguments", "{ dog { name @tag } }", "{ dog { name @tag(name: \"x\") } }"),
    ("ProvidedRequiredArguments", "{ search(at: {x: 1}) { __typename } }", "{ search(at: {x: 1}, ids: []) { __typename } }"),
    # -------------------------------------------------------------- 5.5.1.1
    ("UniqueFragmentNames", "{ dog { ...F } } fragment F on Dog { name } fragment F on Dog { barks }",
     "{ dog { ...F ...G } } fragment F on Dog { name } fragment G on Dog { barks }"),
    ("UniqueFragmentNames", "{ dog { ...F } } fragment F on Dog { name } fragment F on Dog { name }",
     "{ dog { ...F } } fragment F on Dog { name }"),
    ("UniqueFragmentNames", "{ dog { ...F } cat { ...F } } fragment F on Dog { name } fragment F on Cat { name }",
     "{ dog { ...F } cat { ...G } } fragment F on Dog { name } fragment G on Cat { name }"),
    # -------------------------------------------------------------- 5.5.1.2
    ("KnownTypeNames", "{ dog { ...F } } fragment F on Doge { name }", "{ dog { ...F } } fragment F on Dog { name }"),
    ("KnownTypeNames", "{ dog { ... on Doge { name } } }", "{ dog { ... on Dog { name } } }"),
    ("KnownTypeNames", "query ($a: [Nope!]) { pet(id: $a) { name } }", "query ($a: ID!) { pet(id: $a) { name } }"),
    # -------------------------------------------------------------- 5.5.1.3
    ("FragmentsOnCompositeTypes", "{ dog { ...F } } fragment F on Color { name }", "{ dog { ...F } } fragment F on Dog { name }"),
    ("FragmentsOnCompositeTypes", "{ dog { ... on Int { name } } }", "{ dog { ... on Pet { name } } }"),
    ("FragmentsOnCompositeTypes", "{ dog { ... on Point { x } } }", "{ dog { ... { name } } }"),
    # -------------------------------------------------------------- 5.5.1.4
    ("NoUnusedFragments", "{ dog { name } } fragment F on Dog { name }", "{ dog { ...F } } fragment F on Dog { name }"),
    ("NoUnusedFragments", "{ dog { name } } fragment F on Dog { ...G } fragment G on Dog { name }",
     "{ dog { ...F } } fragment F on Dog { ...G } fragment G on Dog { name }"),
    ("NoUnusedFragments", "{ dog { ...F } } fragment F on Dog { name } fragment G on Dog { ...F }",
     "{ dog { ...G } } fragment F on Dog { name } fragment G on Dog { ...F }"),
    # -------------------------------------------------------------- 5.5.2.1
    ("KnownFragmentNames", "{ dog { ...F } }", "{ dog { ...F } } fragment F on Dog { name }"),
    ("KnownFragmentNames", "{ dog { ...G } } fragment G on Dog { ...H }", "{ dog { ...G } } fragment G on Dog { name }"),
    ("KnownFragmentNames", "{ dog { ... on Dog { ...F } } }", "{ dog { ... on Dog { ...F } } } fragment F on Dog { name }"),
    # -------------------------------------------------------------- 5.5.2.2
    ("NoFragmentCycles", "{ dog { ...F } } fragment F on Dog { name ...F }", "{ dog { ...F } } fragment F on Dog { name }"),
    ("NoFragmentCycles", "{ dog { ...F } } fragment F on Dog { ...G } fragment G on Dog { ...F }",
     "{ dog { ...F } } fragment F on Dog { ...G } fragment G on Dog { name }"),
    ("NoFragmentCycles", "{ dog { ...F } } fragment F on Dog { friend { ... on Dog { ...G } } } fragment G on Dog { friend { ...H } } fragment H on Pet { ... on Dog { ...G } }",
     "{ dog { ...F } } fragment F on Dog { friend { ... on Dog { ...G } } } fragment G on Dog { friend { ...H } } fragment H on Pet { name }"),
    # -------------------------------------------------------------- 5.5.2.3
    ("PossibleFragmentSpreads", "{ dog { ... on Cat { meows } } }", "{ dog { ... on Dog { barks } } }"),
    ("PossibleFragmentSpreads", "{ dog { ...F } } fragment F on Cat { meows }", "{ pet(id: 1) { ...F } } fragment F on Cat { meows }"),
    ("PossibleFragmentSpreads", "{ swimmer { ... on Pet { name } } }", "{ any { ... on Pet { name } } }"),
    ("PossibleFragmentSpreads", "{ cat { ... on Walker { legs } } }", "{ dog { ... on Walker { legs } } }"),
    ("PossibleFragmentSpreads", "{ fish { ... on CatOrDog { __typename } } }", "{ pet(id: 1) { ... on CatOrDog { __typename } } }"),
    # ---------------------------------------------------------------- 5.6.1
    ("ValuesOfCorrectType", "{ pets(first: \"1\") { name } }", "{ pets(first: 1) { name } }"),
    ("ValuesOfCorrectType", "{ pets(first: 1.0) { name } }", "{ pets(first: null) { name } }"),
    ("ValuesOfCorrectType", "{ pets(first: 2147483648) { name } }", "{ pets(first: 2147483647) { name } }"),
    ("ValuesOfCorrectType", "{ color(f: \"1.0\") }", "{ color(f: 1) }"),
    ("ValuesOfCorrectType", "{ color(f: true) }", "{ color(f: 1.5e3) }"),
    ("ValuesOfCorrectType", "{ color(s: 1) }", "{ color(s: \"1\") }"),
    ("ValuesOfCorrectType", "{ color(s: RED) }", "{ color(s: \"\"\"RED\"\"\") }"),
    ("ValuesOfCorrectType", "{ color(b: 1) }", "{ color(b: true) }"),
    ("ValuesOfCorrectType", "{ color(b: \"true\") }", "{ color(b: false) }"),
    ("ValuesOfCorrectType", "{ pet(id: 1.5) { name } }", "{ pet(id: 15) { name } }"),
    ("ValuesOfCorrectType", "{ pet(id: true) { name } }", "{ pet(id: \"true\") { name } }"),
    ("ValuesOfCorrectType", "{ color(c: PURPLE) }", "{ color(c: BLUE) }"),
    ("ValuesOfCorrectType", "{ color(c: \"RED\") }", "{ color(c: RED) }"),
    ("ValuesOfCorrectType", "{ color(c: true) }", "{ color(c: null) }"),
    ("ValuesOfCorrectType", "{ pets(colors: [RED, null]) { name } }", "{ pets(colors: [RED, GREEN]) { name } }"),
    ("ValuesOfCorrectType", "{ pets(colors: [RED, 1]) { name } }", "{ pets(colors: RED) { name } }"),
    ("ValuesOfCorrectType", "{ search(at: {x: 1}, ids: null) { __typename } }", "{ search(at: {x: 1}, ids: \"a\") { __typename } }"),
    ("ValuesOfCorrectType", "{ search(at: {x: 1}, ids: [], matrix: [[1, \"a\"]]) { __typename } }",
     "{ search(at: {x: 1}, ids: [], matrix: [[1, null], null, [2]]) { __typename } }"),
    ("ValuesOfCorrectType", "{ search(at: {y: 1}, ids: []) { __typename } }", "{ search(at: {x: 1}, ids: []) { __typename } }"),
    ("ValuesOfCorrectType", "{ search(at: {x: 1, z: 1}, ids: []) { __typename } }", "{ search(at: {x: 1, label: null}, ids: []) { __typename } }"),
    ("ValuesOfCorrectType", "{ search(at: {x: null}, ids: []) { __typename } }", "{ search(at: {x: 0, y: 1}, ids: []) { __typename } }"),
    ("ValuesOfCorrectType", "{ search(at: {x: 1, y: null}, ids: []) { __typename } }", "{ search(at: {x: 1, tags: \"a\"}, ids: []) { __typename } }"),
    ("ValuesOfCorrectType", "{ search(at: 1, ids: []) { __typename } }", "{ search(at: {x: 1}, ids: []) { __typename } }"),
    ("ValuesOfCorrectType", "{ search(at: [{x: 1}], ids: []) { __typename } }", "{ search(at: {x: 1}, ids: []) { __typename } }"),
    ("ValuesOfCorrectType", "{ pets(filter: {near: {x: \"1\"}}) { name } }", "{ pets(filter: {near: {x: 1}}) { name } }"),
    ("ValuesOfCorrectType", "{ pets(filter: {near: [{x: 1}, null]}) { name } }", "{ pets(filter: {near: [{x: 1}, {x: 2}], when: {any: [1]}}) { name } }"),
    ("ValuesOfCorrectType", "query ($a: Int = \"x\") { pets(first: $a) { name } }", "query ($a: Int = 3) { pets(first: $a) { name } }"),
    ("ValuesOfCorrectType", "query ($a: Int! = null) { pets(first: $a) { name } }", "query ($a: Int! = 2) { pets(first: $a) { name } }"),
    ("ValuesOfCorrectType", "query ($a: Point = {y: 2}) { search(at: $a, ids: []) { __typename } }",
     "query ($a: Point = {x: 2}) { search(at: $a, ids: []) { __typename } }"),
    ("ValuesOfCorrectType", "{ dog { name @include(if: 1) } }", "{ dog { name @include(if: true) } }"),
    ("ValuesOfCorrectType", "{ dog { size(unit: null) } }", "{ dog { size(unit: GREEN) } }"),
    # ---------------------------------------------------------------- 5.6.3
    ("UniqueInputFieldNames", "{ search(at: {x: 1, x: 2}, ids: []) { __typename } }", "{ search(at: {x: 1, y: 2}, ids: []) { __typename } }"),
    ("UniqueInputFieldNames", "{ pets(filter: {near: [{x: 1, y: 1, y: 1}]}) { name } }", "{ pets(filter: {near: [{x: 1, y: 1}]}) { name } }"),
    ("UniqueInputFieldNames", "query ($a: Point = {x: 1, x: 1}) { search(at: $a, ids: []) { __typename } }",
     "query ($a: Point = {x: 1}) { search(at: $a, ids: []) { __typename } }"),
    ("UniqueInputFieldNames", "{ search(at: {x: 1}, ids: [], date: {a: 1, a: 2}) { __typename } }",
     "{ search(at: {x: 1}, ids: [], date: {a: 1, b: 2}) { __typename } }"),
    # -------------------------------------------------------- 5.7.1 / 5.7.2
    ("KnownDirectives", "{ dog { name @nope } }", "{ dog { name @tag(name: \"x\") } }"),
    ("KnownDirectives", "query @skip(if: true) { dog { name } }", "query @onQuery { dog { name } }"),
    ("KnownDirectives", "mutation @onQuery { rename(id: 1, name: \"a\") { name } }", "mutation { rename(id: 1, name: \"a\") { name } }"),
    ("KnownDirectives", "{ dog { ...F @tag(name: \"x\") } } fragment F on Dog { name }", "{ dog { ...F @skip(if: true) } } fragment F on Dog { name }"),
    ("KnownDirectives", "{ dog { ...F } } fragment F on Dog @include(if: true) { name }", "{ dog { ...F } } fragment F on Dog { name @include(if: true) }"),
    ("KnownDirectives", "{ dog { ... @onQuery { name } } }", "{ dog { ... @include(if: true) { name } } }"),
    ("KnownDirectives", "query ($a: Int @skip(if: true)) { pets(first: $a) { name } }", "query ($a: Int @onVar) { pets(first: $a) { name } }"),
    ("KnownDirectives", "{ dog { name @deprecated } }", "{ dog { name } }"),
    # ---------------------------------------------------------------- 5.7.3
    ("UniqueDirectivesPerLocation", "{ dog { name @skip(if: true) @skip(if: false) } }", "{ dog { name @skip(if: true) @include(if: false) } }"),
    ("UniqueDirectivesPerLocation", "query @onQuery @onQuery { dog { name } }", "query @onQuery { dog { name } }"),
    ("UniqueDirectivesPerLocation", "{ dog { ... @skip(if: true) @skip(if: true) { name } } }",
     "{ dog { ... @skip(if: true) { name @skip(if: true) } } }"),
    # ---------------------------------------------------------------- 5.8.1
    ("UniqueVariableNames", "query ($a: Int, $a: Int) { pets(first: $a) { name } }", "query ($a: Int) { pets(first: $a) { name } }"),
    ("UniqueVariableNames", "query ($a: Int, $a: String) { pets(first: $a) { name } }", "query ($a: Int, $b: String) { pets(first: $a) { name } color(s: $b) }"),
    ("UniqueVariableNames", "query A($a: Int, $b: Int, $a: Int) { pets(first: $a) { name } p: pets(first: $b) { name } }",
     "query A($a: Int) { pets(first: $a) { name } } query B($a: Int) { pets(first: $a) { name } }"),
    # ---------------------------------------------------------------- 5.8.2
    ("VariablesAreInputTypes", "query ($a: Dog) { pet(id: $a) { name } }", "query ($a: ID!) { pet(id: $a) { name } }"),
    ("VariablesAreInputTypes", "query ($a: [Pet!]!) { pet(id: $a) { name } }", "query ($a: [Point!]!) { pets(filter: {near: $a}) { name } }"),
    ("VariablesAreInputTypes", "query ($a: CatOrDog) { pet(id: $a) { name } }", "query ($a: Color) { color(c: $a) }"),
    # ---------------------------------------------------------------- 5.8.3
    ("NoUndefinedVariables", "{ pets(first: $a) { name } }", "query ($a: Int) { pets(first: $a) { name } }"),
    ("NoUndefinedVariables", "query A($a: Int) { ...F } query B { ...F } fragment F on Query { pets(first: $a) { name } }",
     "query A($a: Int) { ...F } query B($a: Int) { ...F } fragment F on Query { pets(first: $a) { name } }"),
    ("NoUndefinedVariables", "{ dog { name @include(if: $x) } }", "query ($x: Boolean!) { dog { name @include(if: $x) } }"),
    ("NoUndefinedVariables", "{ search(at: {x: $x}, ids: [$i]) { __typename } }",
     "query ($x: Int!, $i: ID!) { search(at: {x: $x}, ids: [$i]) { __typename } }"),
    ("NoUndefinedVariables", "{ ...F } fragment F on Query { ...G } fragment G on Query { dog { nick(upper: $u) } ...F }",
     "query ($u: Boolean) { ...F } fragment F on Query { ...G } fragment G on Query { dog { nick(upper: $u) } }"),
    # ---------------------------------------------------------------- 5.8.4
    ("NoUnusedVariables", "query ($a: Int) { dog { name } }", "query ($a: Int) { pets(first: $a) { name } }"),
    ("NoUnusedVariables", "query ($a: Int) { ...F } fragment F on Query { dog { name } }",
     "query ($a: Int) { ...F } fragment F on Query { pets(first: $a) { name } }"),
    ("NoUnusedVariables", "query A($a: Int) { dog { name } } query B { ...F } fragment F on Query { pets(first: $a) { name } }",
     "query A($a: Int) { ...F } fragment F on Query { pets(first: $a) { name } }"),
    ("NoUnusedVariables", "query ($a: Int, $b: Int) { search(at: {x: $a}, ids: []) { __typename } }",
     "query ($a: Int!, $b: Int) { search(at: {x: $a, y: $b}, ids: []) { __typename } }"),
    # ---------------------------------------------------------------- 5.8.5
    ("VariablesInAllowedPosition", "query ($a: Int) { pet(id: $a) { name } }", "query ($a: ID!) { pet(id: $a) { name } }"),
    ("VariablesInAllowedPosition", "query ($a: ID) { pet(id: $a) { name } }", "query ($a: ID = 1) { pet(id: $a) { name } }"),
    ("VariablesInAllowedPosition", "query ($a: ID = null) { pet(id: $a) { name } }", "query ($a: ID = \"a\") { pet(id: $a) { name } }"),
    ("VariablesInAllowedPosition", "query ($a: Color = RED) { dog { nick(upper: $a) } }", "query ($a: Color) { dog { size(unit: $a) } }"),
    ("VariablesInAllowedPosition", "query ($a: Boolean) { dog { name @include(if: $a) } }", "query ($a: Boolean!) { dog { name @include(if: $a) } }"),
    ("VariablesInAllowedPosition", "query ($a: Color) { pets(colors: $a) { name } }", "query ($a: [Color!]) { pets(colors: $a) { name } }"),
    ("VariablesInAllowedPosition", "query ($a: [Color]) { pets(colors: $a) { name } }", "query ($a: [Color!]!) { pets(colors: $a) { name } }"),
    ("VariablesInAllowedPosition", "query ($a: Color) { pets(colors: [$a]) { name } }", "query ($a: Color!) { pets(colors: [$a]) { name } }"),
    ("VariablesInAllowedPosition", "query ($a: Int) { search(at: {x: $a}, ids: []) { __typename } }", "query ($a: Int) { search(at: {x: 1, y: $a}, ids: []) { __typename } }"),
    ("VariablesInAllowedPosition", "query ($a: String) { search(at: {x: 1, tags: [$a]}, ids: []) { __typename } }",
     "query ($a: String!) { search(at: {x: 1, tags: [$a]}, ids: []) { __typename } }"),
    ("VariablesInAllowedPosition", "query ($a: [Int]) { search(at: {x: 1}, ids: [], matrix: [$a, [$a]]) { __typename } }",
     "query ($a: [Int], $b: Int!) { search(at: {x: 1}, ids: [], matrix: [$a, [$b]]) { __typename } }"),
    ("VariablesInAllowedPosition", "query ($a: String) { ...F } fragment F on Query { pets(first: $a) { name } }",
     "query ($a: Int) { ...F } fragment F on Query { pets(first: $a) { name } }"),
    ("VariablesInAllowedPosition", "query ($a: Point) { pets(filter: {near: [$a]}) { name } }", "query ($a: Point!) { pets(filter: {near: [$a], at: $a}) { name } }"),
]

VALID = [
    "{ dog { name } }",
    "query Q { dog { name nick(upper: true) barks friend { name ... on Dog { barks } } } }",
    "{ pet(id: \"1\") { __typename name ... on Dog { barks legs } ... on Cat { meows l: legs } } }",
    "{ pets(first: 3, colors: [RED, GREEN], filter: {at: {x: 1}, color: BLUE, when: \"2020\"}) { name } }",
    "query ($id: ID!, $up: Boolean = false) { pet(id: $id) { nick(upper: $up) } }",
    "query A { ...F } query B { ...F dog { ...D } } fragment F on Query { cat { name } } fragment D on Pet { name ... on Walker { legs } }",
    "mutation M($n: String!) { rename(id: 1, name: $n) { name } }",
    "subscription S($c: Color) { petAdded(color: $c) { name ... on Dog { barks } } }",
    "subscription { ...F } fragment F on Subscription { tick }",
    "{ any { __typename ... on Dog { name barks } ... on Cat { name meows } ... on Pet { nick } } }",
    "{ __schema { queryType { name } directives { name args { name type { kind ofType { name } } } } } __type(name: \"Dog\") { fields { name } } }",
    "query ($s: Boolean!, $i: Boolean!) { dog @skip(if: $s) { name @include(if: $i) ... @include(if: $i) { barks } ...F @skip(if: $s) } } fragment F on Dog { color }",
    "query ($p: Point!, $m: [[Int]], $ids: [ID!]!, $d: Date) { search(at: $p, matrix: $m, ids: $ids, date: $d) { ... on Pet { name } } }",
    "query ($x: Int!, $l: String, $t: [String!]) { search(at: {x: $x, label: $l, tags: $t}, ids: [1, \"2\"], matrix: [[1, 2], [3]], date: [1, {a: 2}]) { __typename } }",
    "{ dog { a: size b: size(unit: GREEN) name @tag(name: \"n\") color @tag(name: \"n\", weight: 2) } }",
    "query ($a: Int = 1 @onVar) @onQuery { pets(first: $a) { name name ... on Pet { name } } }",
    "{ a: dog { friend { name } } a: dog { friend { nick } } }",
    "{ pet(id: 1) { ... on Dog { v: barks } ... on Cat { v: meows } } }",
    "{ swimmer { ... on Fish { name weight } } fish { name } }",
]

# Documents checked against an exact expected set of violated rules
# (robustness / "missing information => silence" behaviour).
EXACT = [
    ("{ nope { a { b(x: 1, x: 2) } ...X } }", {"FieldsOnCorrectType", "UniqueArgumentNames", "KnownFragmentNames"}),
    ("{ dog { ... on Nope { a b { c } ... on Cat { meows } } } }", {"KnownTypeNames"}),
    ("fragment F on Nope { a ...F }", {"KnownTypeNames", "NoUnusedFragments", "NoFragmentCycles"}),
    ("{ dog { ...F } } fragment F on Nope { a }", {"KnownTypeNames"}),
    ("{ dog { name @nope(a: $x, a: 1) } }", {"KnownDirectives", "UniqueArgumentNames", "NoUndefinedVariables"}),
    ("query ($a: Nope) { pet(id: $a) { name } }", {"KnownTypeNames"}),
    ("query ($a: Dog = 1) { pet(id: $a) { name } }", {"VariablesAreInputTypes", "VariablesInAllowedPosition"}),
    ("subscription { tick @skip(if: true) t: tick }", {"SingleFieldSubscriptions"}),
    ("{ nope { x: a x: b } }", {"FieldsOnCorrectType", "OverlappingFieldsCanBeMerged"}),
    ("{ pet(id: 1) { ... on Dog { x: nope } ... on Cat { x: meows } } }", {"FieldsOnCorrectType"}),
    ("{ dog { ... on Nope { x: a } x: name } }", {"KnownTypeNames"}),
    ("mutation { a } subscription { b c }", {"LoneAnonymousOperation", "FieldsOnCorrectType", "SingleFieldSubscriptions"}),
    ("{ dog { name { a } name } }", {"ScalarLeafs"}),
    ("{ color(c: $a, q: [$b, {z: $c}]) }", {"KnownArgumentNames", "NoUndefinedVariables"}),
    ("query ($a: Int, $b: Int) { color(q: [$a, {z: $b}]) }", {"KnownArgumentNames"}),
]


# --------------------------------------------------------------------------
# The example schema and the example / counter example documents of section 5
# of the June 2018 specification.  Each entry is checked against the single
# rule the example illustrates: (rule, document, is a counter example).
# --------------------------------------------------------------------------
SPEC_SDL = """
type Query {
  dog: Dog human: Human pet: Pet catOrDog: CatOrDog arguments: Arguments
  findDog(complex: ComplexInput): Dog booleanList(booleanListArg: [Boolean!]): Boolean
  field(arg: ComplexInput): Field
}
type Field { subfieldA: Int subfieldB: Int }
enum DogCommand { SIT DOWN HEEL }
type Dog implements Pet {
  name: String! nickname: String barkVolume: Int
  doesKnowCommand(dogCommand: DogCommand!): Boolean!
  isHousetrained(atOtherHomes: Boolean): Boolean!
  owner: Human
}
interface Sentient { name: String! }
interface Pet { name: String! }
type Alien implements Sentient { name: String! homePlanet: String }
type Human implements Sentient { name: String! }
enum CatCommand { JUMP }
type Cat implements Pet { name: String! nickname: String doesKnowCommand(catCommand: CatCommand!): Boolean! meowVolume: Int }
union CatOrDog = Cat | Dog
union DogOrHuman = Dog | Human
union HumanOrAlien = Human | Alien
type Arguments {
  multipleReqs(x: Int!, y: Int!): Int!
  booleanArgField(booleanArg: Boolean): Boolean
  floatArgField(floatArg: Float): Float
  intArgField(intArg: Int): Int
  nonNullBooleanArgField(nonNullBooleanArg: Boolean!): Boolean!
  booleanListArgField(booleanListArg: [Boolean]!): [Boolean]
  nonNullBooleanListField(nonNullBooleanListArg: [Boolean]!): [Boolean]
  optionalNonNullBooleanArgField(optionalBooleanArg: Boolean! = false): Boolean!
}
input ComplexInput { name: String owner: String }
type Subscription { newMessage: Message disallowedSecondRootField: Int }
type Message { body: String sender: String }
"""

SPEC_EXAMPLES = [
    ("ExecutableDefinitions", "query getDogName { dog { name color } } extend type Dog { color: String }", True),
    ("UniqueOperationNames", "query getDogName { dog { name } } query getOwnerName { dog { owner { name } } }", False),
    ("UniqueOperationNames", "query getName { dog { name } } query getName { dog { owner { name } } }", True),
    ("UniqueOperationNames", "query dogOperation { dog { name } } mutation dogOperation { mutateDog { id } }", True),
    ("LoneAnonymousOperation", "{ dog { name } }", False),
    ("LoneAnonymousOperation", "{ dog { name } } query getName { dog { owner { name } } }", True),
    ("SingleFieldSubscriptions", "subscription sub { newMessage { body sender } }", False),
    ("SingleFieldSubscriptions", "subscription sub { ...newMessageFields } fragment newMessageFields on Subscription { newMessage { body sender } }", False),
    ("SingleFieldSubscriptions", "subscription sub { newMessage { body sender } disallowedSecondRootField }", True),
    ("SingleFieldSubscriptions", "subscription sub { ...multipleSubscriptions } fragment multipleSubscriptions on Subscription { newMessage { body sender } disallowedSecondRootField }", True),
    ("SingleFieldSubscriptions", "subscription sub { newMessage { body sender } __typename }", True),
    ("FieldsOnCorrectType", "fragment fieldNotDefined on Dog { meowVolume }", True),
    ("FieldsOnCorrectType", "fragment aliasedLyingFieldTargetNotDefined on Dog { barkVolume: kawVolume }", True),
    ("FieldsOnCorrectType", "fragment interfaceFieldSelection on Pet { name }", False),
    ("FieldsOnCorrectType", "fragment definedOnImplementorsButNotInterface on Pet { nickname }", True),
    ("FieldsOnCorrectType", "fragment inDirectFieldSelectionOnUnion on CatOrDog { __typename ... on Pet { name } ... on Dog { barkVolume } }", False),
    ("FieldsOnCorrectType", "fragment directFieldSelectionOnUnion on CatOrDog { name barkVolume }", True),
    ("OverlappingFieldsCanBeMerged", "fragment mergeIdenticalFields on Dog { name name } fragment mergeIdenticalAliasesAndFields on Dog { otherName: name otherName: name }", False),
    ("OverlappingFieldsCanBeMerged", "fragment conflictingBecauseAlias on Dog { name: nickname name }", True),
    ("OverlappingFieldsCanBeMerged", "fragment mergeIdenticalFieldsWithIdenticalArgs on Dog { doesKnowCommand(dogCommand: SIT) doesKnowCommand(dogCommand: SIT) } fragment mergeIdenticalFieldsWithIdenticalValues on Dog { doesKnowCommand(dogCommand: $dogCommand) doesKnowCommand(dogCommand: $dogCommand) }", False),
    ("OverlappingFieldsCanBeMerged", "fragment conflictingArgsOnValues on Dog { doesKnowCommand(dogCommand: SIT) doesKnowCommand(dogCommand: HEEL) }", True),
    ("OverlappingFieldsCanBeMerged", "fragment conflictingArgsValueAndVar on Dog { doesKnowCommand(dogCommand: SIT) doesKnowCommand(dogCommand: $dogCommand) }", True),
    ("OverlappingFieldsCanBeMerged", "fragment conflictingArgsWithVars on Dog { doesKnowCommand(dogCommand: $varOne) doesKnowCommand(dogCommand: $varTwo) }", True),
    ("OverlappingFieldsCanBeMerged", "fragment differingArgs on Dog { doesKnowCommand(dogCommand: SIT) doesKnowCommand }", True),
    ("OverlappingFieldsCanBeMerged", "fragment safeDifferingFields on Pet { ... on Dog { volume: barkVolume } ... on Cat { volume: meowVolume } } fragment safeDifferingArgs on Pet { ... on Dog { doesKnowCommand(dogCommand: SIT) } ... on Cat { doesKnowCommand(catCommand: JUMP) } }", False),
    ("OverlappingFieldsCanBeMerged", "fragment conflictingDifferingResponses on Pet { ... on Dog { someValue: nickname } ... on Cat { someValue: meowVolume } }", True),
    ("ScalarLeafs", "fragment scalarSelection on Dog { barkVolume }", False),
    ("ScalarLeafs", "fragment scalarSelectionsNotAllowedOnInt on Dog { barkVolume { sinceWhen } }", True),
    ("ScalarLeafs", "query directQueryOnObjectWithoutSubFields { human }", True),
    ("ScalarLeafs", "query directQueryOnInterfaceWithoutSubFields { pet }", True),
    ("ScalarLeafs", "query directQueryOnUnionWithoutSubFields { catOrDog }", True),
    ("KnownArgumentNames", "fragment argOnRequiredArg on Dog { doesKnowCommand(dogCommand: SIT) } fragment argOnOptional on Dog { isHousetrained(atOtherHomes: true) @include(if: true) }", False),
    ("KnownArgumentNames", "fragment invalidArgName on Dog { doesKnowCommand(command: CLEAN_UP_HOUSE) }", True),
    ("KnownArgumentNames", "fragment invalidArgName on Dog { isHousetrained(atOtherHomes: true) @include(unless: false) }", True),
    ("KnownArgumentNames", "fragment multipleArgs on Arguments { multipleReqs(x: 1, y: 2) } fragment multipleArgsReverseOrder on Arguments { multipleReqs(y: 1, x: 2) }", False),
    ("ProvidedRequiredArguments", "fragment goodBooleanArg on Arguments { booleanArgField(booleanArg: true) } fragment goodNonNullArg on Arguments { nonNullBooleanArgField(nonNullBooleanArg: true) }", False),
    ("ProvidedRequiredArguments", "fragment goodBooleanArgDefault on Arguments { booleanArgField }", False),
    ("ProvidedRequiredArguments", "fragment missingRequiredArg on Arguments { nonNullBooleanArgField }", True),
    ("ProvidedRequiredArguments", "fragment missingRequiredArg on Arguments { nonNullBooleanArgField(nonNullBooleanArg: null) }", True),
    ("UniqueFragmentNames", "{ dog { ...fragmentOne ...fragmentTwo } } fragment fragmentOne on Dog { name } fragment fragmentTwo on Dog { owner { name } }", False),
    ("UniqueFragmentNames", "{ dog { ...fragmentOne } } fragment fragmentOne on Dog { name } fragment fragmentOne on Dog { owner { name } }", True),
    ("KnownTypeNames", "fragment correctType on Dog { name } fragment inlineFragment on Dog { ... on Dog { name } } fragment inlineFragment2 on Dog { ... @include(if: true) { name } }", False),
    ("KnownTypeNames", "fragment notOnExistingType on NotInSchema { name }", True),
    ("KnownTypeNames", "fragment inlineNotExistingType on Dog { ... on NotInSchema { name } }", True),
    ("FragmentsOnCompositeTypes", "fragment fragOnObject on Dog { name } fragment fragOnInterface on Pet { name } fragment fragOnUnion on CatOrDog { ... on Dog { name } }", False),
    ("FragmentsOnCompositeTypes", "fragment fragOnScalar on Int { something }", True),
    ("FragmentsOnCompositeTypes", "fragment inlineFragOnScalar on Dog { ... on Boolean { somethingElse } }", True),
    ("NoUnusedFragments", "fragment nameFragment on Dog { name } { dog { name } }", True),
    ("KnownFragmentNames", "{ dog { ...undefinedFragment } }", True),
    ("NoFragmentCycles", "{ dog { ...nameFragment } } fragment nameFragment on Dog { name ...barkVolumeFragment } fragment barkVolumeFragment on Dog { barkVolume ...nameFragment }", True),
    ("NoFragmentCycles", "{ dog { ...dogFragment } } fragment dogFragment on Dog { name owner { ...ownerFragment } } fragment ownerFragment on Dog { name pets { ...dogFragment } }", True),
    ("PossibleFragmentSpreads", "fragment dogFragment on Dog { ... on Dog { barkVolume } }", False),
    ("PossibleFragmentSpreads", "fragment catInDogFragmentInvalid on Dog { ... on Cat { meowVolume } }", True),
    ("PossibleFragmentSpreads", "fragment petNameFragment on Pet { name } fragment interfaceWithinObjectFragment on Dog { ...petNameFragment }", False),
    ("PossibleFragmentSpreads", "fragment catOrDogNameFragment on CatOrDog { ... on Cat { meowVolume } } fragment unionWithObjectFragment on Dog { ...catOrDogNameFragment }", False),
    ("PossibleFragmentSpreads", "fragment petFragment on Pet { name ... on Dog { barkVolume } } fragment catOrDogFragment on CatOrDog { ... on Cat { meowVolume } }", False),
    ("PossibleFragmentSpreads", "fragment sentientFragment on Sentient { ... on Dog { barkVolume } }", True),
    ("PossibleFragmentSpreads", "fragment humanOrAlienFragment on HumanOrAlien { ... on Cat { meowVolume } }", True),
    ("PossibleFragmentSpreads", "fragment unionWithInterface on Pet { ...dogOrHumanFragment } fragment dogOrHumanFragment on DogOrHuman { ... on Dog { barkVolume } }", False),
    ("PossibleFragmentSpreads", "fragment nonIntersectingInterfaces on Pet { ...sentientFragment } fragment sentientFragment on Sentient { name }", True),
    ("ValuesOfCorrectType", "fragment goodBooleanArg on Arguments { booleanArgField(booleanArg: true) } fragment coercedIntIntoFloatArg on Arguments { floatArgField(floatArg: 123) } query goodComplexDefaultValue($search: ComplexInput = { name: \"Fido\" }) { findDog(complex: $search) }", False),
    ("ValuesOfCorrectType", "fragment stringIntoInt on Arguments { intArgField(intArg: \"123\") }", True),
    ("ValuesOfCorrectType", "query badComplexValue { findDog(complex: { name: 123 }) }", True),
    ("ValuesOfCorrectType", "{ findDog(complex: { name: \"Fido\" }) }", False),
    ("ValuesOfCorrectType", "{ findDog(complex: { favoriteCookieFlavor: \"Bacon\" }) }", True),
    ("UniqueInputFieldNames", "{ field(arg: { field: true, field: false }) }", True),
    ("KnownDirectives", "query @skip(if: $foo) { field }", True),
    ("UniqueDirectivesPerLocation", "query ($foo: Boolean = true, $bar: Boolean = false) { field @skip(if: $foo) @skip(if: $bar) }", True),
    ("UniqueDirectivesPerLocation", "query ($foo: Boolean = true, $bar: Boolean = false) { field @skip(if: $foo) { subfieldA } field @skip(if: $bar) { subfieldB } }", False),
    ("UniqueVariableNames", "query houseTrainedQuery($atOtherHomes: Boolean, $atOtherHomes: Boolean) { dog { isHousetrained(atOtherHomes: $atOtherHomes) } }", True),
    ("UniqueVariableNames", "query A($atOtherHomes: Boolean) { ...HouseTrainedFragment } query B($atOtherHomes: Boolean) { ...HouseTrainedFragment } fragment HouseTrainedFragment on Query { dog { isHousetrained(atOtherHomes: $atOtherHomes) } }", False),
    ("VariablesAreInputTypes", "query takesBoolean($atOtherHomes: Boolean) { dog { isHousetrained(atOtherHomes: $atOtherHomes) } } query takesComplexInput($complexInput: ComplexInput) { findDog(complex: $complexInput) { name } } query TakesListOfBooleanBang($booleans: [Boolean!]) { booleanList(booleanListArg: $booleans) }", False),
    ("VariablesAreInputTypes", "query takesCat($cat: Cat) { dog { name } }", True),
    ("VariablesAreInputTypes", "query takesDogBang($dog: Dog!) { dog { name } }", True),
    ("VariablesAreInputTypes", "query takesListOfPet($pets: [Pet]) { dog { name } }", True),
    ("VariablesAreInputTypes", "query takesCatOrDog($catOrDog: CatOrDog) { dog { name } }", True),
    ("NoUndefinedVariables", "query variableIsDefined($atOtherHomes: Boolean) { dog { isHousetrained(atOtherHomes: $atOtherHomes) } }", False),
    ("NoUndefinedVariables", "query variableIsNotDefined { dog { isHousetrained(atOtherHomes: $atOtherHomes) } }", True),
    ("NoUndefinedVariables", "query variableIsDefinedUsedInSingleFragment($atOtherHomes: Boolean) { dog { ...isHousetrainedFragment } } fragment isHousetrainedFragment on Dog { isHousetrained(atOtherHomes: $atOtherHomes) }", False),
    ("NoUndefinedVariables", "query variableIsNotDefinedUsedInSingleFragment { dog { ...isHousetrainedFragment } } fragment isHousetrainedFragment on Dog { isHousetrained(atOtherHomes: $atOtherHomes) }", True),
    ("NoUndefinedVariables", "query variableIsNotDefinedUsedInNestedFragment { dog { ...outerHousetrainedFragment } } fragment outerHousetrainedFragment on Dog { ...isHousetrainedFragment } fragment isHousetrainedFragment on Dog { isHousetrained(atOtherHomes: $atOtherHomes) }", True),
    ("NoUndefinedVariables", "query housetrainedQueryOne($atOtherHomes: Boolean) { dog { ...isHousetrainedFragment } } query housetrainedQueryTwo($atOtherHomes: Boolean) { dog { ...isHousetrainedFragment } } fragment isHousetrainedFragment on Dog { isHousetrained(atOtherHomes: $atOtherHomes) }", False),
    ("NoUndefinedVariables", "query housetrainedQueryOne($atOtherHomes: Boolean) { dog { ...isHousetrainedFragment } } query housetrainedQueryTwoNotDefined { dog { ...isHousetrainedFragment } } fragment isHousetrainedFragment on Dog { isHousetrained(atOtherHomes: $atOtherHomes) }", True),
    ("NoUnusedVariables", "query variableUnused($atOtherHomes: Boolean) { dog { isHousetrained } }", True),
    ("NoUnusedVariables", "query variableUsedInFragment($atOtherHomes: Boolean) { dog { ...isHousetrainedFragment } } fragment isHousetrainedFragment on Dog { isHousetrained(atOtherHomes: $atOtherHomes) }", False),
    ("NoUnusedVariables", "query variableNotUsedWithinFragment($atOtherHomes: Boolean) { dog { ...isHousetrainedWithoutVariableFragment } } fragment isHousetrainedWithoutVariableFragment on Dog { isHousetrained }", True),
    ("NoUnusedVariables", "query queryWithUsedVar($atOtherHomes: Boolean) { dog { ...isHousetrainedFragment } } query queryWithExtraVar($atOtherHomes: Boolean, $extra: Int) { dog { ...isHousetrainedFragment } } fragment isHousetrainedFragment on Dog { isHousetrained(atOtherHomes: $atOtherHomes) }", True),
    ("VariablesInAllowedPosition", "query intCannotGoIntoBoolean($intArg: Int) { arguments { booleanArgField(booleanArg: $intArg) } }", True),
    ("VariablesInAllowedPosition", "query booleanListCannotGoIntoBoolean($booleanListArg: [Boolean]) { arguments { booleanArgField(booleanArg: $booleanListArg) } }", True),
    ("VariablesInAllowedPosition", "query booleanArgQuery($booleanArg: Boolean) { arguments { nonNullBooleanArgField(nonNullBooleanArg: $booleanArg) } }", True),
    ("VariablesInAllowedPosition", "query nonNullListToList($nonNullBooleanList: [Boolean]!) { arguments { booleanListArgField(booleanListArg: $nonNullBooleanList) } }", False),
    ("VariablesInAllowedPosition", "query listToNonNullList($booleanList: [Boolean]) { arguments { nonNullBooleanListField(nonNullBooleanListArg: $booleanList) } }", True),
    ("VariablesInAllowedPosition", "query booleanArgQueryWithDefault($booleanArg: Boolean) { arguments { optionalNonNullBooleanArgField(optionalBooleanArg: $booleanArg) } }", False),
    ("VariablesInAllowedPosition", "query booleanArgQueryWithDefault($booleanArg: Boolean = true) { arguments { nonNullBooleanArgField(nonNullBooleanArg: $booleanArg) } }", False),
]


def rules_of(text, **kw):
    doc = parse(text, **kw)
    return {v.rule for v in R.validate(SCHEMA, doc)}, doc


def main():
    failures = []
    n = 0
    per_rule = {}

    for rule, bad, good in CASES:
        n += 1
        per_rule[rule] = per_rule.get(rule, 0) + 1
        kw = {"allow_type_system": True} if rule == "ExecutableDefinitions" else {}
        bad_rules, bad_doc = rules_of(bad, **kw)
        good_rules, good_doc = rules_of(good, **kw)
        if rule not in bad_rules:
            failures.append("MISSED   %s: %s  (got %s)" % (rule, bad, sorted(bad_rules)))
        if rule in good_rules:
            failures.append("SPURIOUS %s: %s" % (rule, good))
        # the single rule entry point must agree with validate()
        if bool(R.RULES[rule](SCHEMA, bad_doc)) != (rule in bad_rules):
            failures.append("RULES[] disagrees with validate(): %s" % bad)
        for v in R.validate(SCHEMA, bad_doc):
            if not (isinstance(v.rule, str) and isinstance(v.message, str) and isinstance(v.nodes, list) and v.nodes):
                failures.append("malformed violation %r" % v)

    for text in VALID:
        n += 1
        got = R.validate(SCHEMA, parse(text))
        if got:
            failures.append("VALID document rejected: %s -> %s" % (text, got))

    for text, expected in EXACT:
        n += 1
        got, _ = rules_of(text)
        if got != expected:
            failures.append("EXACT %s: expected %s got %s" % (text, sorted(expected), sorted(got)))

    # corrected documents of CASES are expected to be fully valid
    for rule, _, good in CASES:
        kw = {"allow_type_system": True} if rule == "ExecutableDefinitions" else {}
        got, _ = rules_of(good, **kw)
        if got:
            failures.append("corrected document not fully valid (%s): %s -> %s" % (rule, good, sorted(got)))

    # interpretation switches
    n += 2
    doc = parse("{ search(at: {x: 1}, ids: [], matrix: [1, 2]) { __typename } }")
    R.NESTED_LIST_ITEM_COERCION = False
    strict = {v.rule for v in R.validate(SCHEMA, doc)}
    R.NESTED_LIST_ITEM_COERCION = True
    lax = {v.rule for v in R.validate(SCHEMA, doc)}
    if strict != {"ValuesOfCorrectType"} or lax != set():
        failures.append("NESTED_LIST_ITEM_COERCION switch: %s / %s" % (strict, lax))
    doc = parse("subscription { tick @skip(if: true) t: tick }")
    R.SUBSCRIPTION_COLLECT_HONOURS_SKIP_INCLUDE = True
    strict = {v.rule for v in R.validate(SCHEMA, doc)}
    R.SUBSCRIPTION_COLLECT_HONOURS_SKIP_INCLUDE = False
    if strict != set():
        failures.append("SUBSCRIPTION_COLLECT_HONOURS_SKIP_INCLUDE switch: %s" % strict)

    spec_schema = build_schema(SPEC_SDL)
    for rule, text, is_counter_example in SPEC_EXAMPLES:
        n += 1
        doc = parse(text, allow_type_system=(rule == "ExecutableDefinitions"))
        got = bool(R.RULES[rule](spec_schema, doc))
        R.validate(spec_schema, doc)
        if got != is_counter_example:
            failures.append("SPEC EXAMPLE %s: expected %s: %s" % (rule, "violation" if is_counter_example else "no violation", text))

    missing = [r for r in R.RULES if per_rule.get(r, 0) < 3]
    if missing:
        failures.append("rules with fewer than 3 cases: %s" % missing)

    fuzz_total, fuzz_parsed, fuzz_err = fuzz(failures)

    print("self-test cases: %d (%d rule cases over %d rules, %d valid docs, %d exact-set docs, %d spec examples, 2 switch checks)"
          % (n, len(CASES), len(per_rule), len(VALID), len(EXACT), len(SPEC_EXAMPLES)))
    print("fuzz: %d mutants generated, %d parseable and validated, %d raised" % (fuzz_total, fuzz_parsed, fuzz_err))
    if failures:
        print("%d FAILURES" % len(failures))
        for f in failures:
            print("  " + f)
        sys.exit(1)
    print("OK")


TOKEN = re.compile(r'"""(?:.|\n)*?"""|"(?:[^"\\]|\\.)*"|\.\.\.|[A-Za-z_][A-Za-z_0-9]*|-?[0-9]+(?:\.[0-9]+)?(?:[eE][-+]?[0-9]+)?|[^\s,]')


def fuzz(failures, seed=20180610, rounds=30):
    rng = random.Random(seed)
    corpus = [t for c in CASES for t in c[1:]] + VALID + [t for t, _ in EXACT]
    names = sorted({tok for text in corpus for tok in TOKEN.findall(text) if re.match(r"[A-Za-z_]", tok)})
    names += ["Nope", "__typename", "__schema", "__type", "on", "null", "true", "Query", "Int", "F", "G"]
    punct = ["{", "}", "(", ")", "[", "]", ":", "!", "$", "@", "...", "=", "1", "\"s\"", "null", "$a"]
    total = parsed = errors = 0
    for text in corpus:
        toks = TOKEN.findall(text)
        for _ in range(rounds):
            t = list(toks)
            for _ in range(rng.choice([1, 1, 2, 3, 5])):
                if not t:
                    break
                i = rng.randrange(len(t))
                op = rng.random()
                if op < 0.15:
                    del t[i]
                elif op < 0.60 and re.match(r"[A-Za-z_]", t[i]):
                    t[i] = rng.choice(names)
                elif op < 0.75:
                    j = rng.randrange(len(t))
                    t[i], t[j] = t[j], t[i]
                elif op < 0.85:
                    t.insert(i, rng.choice(punct))
                elif op < 0.93:
                    # duplicate a slice
                    j = min(len(t), i + rng.randrange(1, 8))
                    t[i:i] = t[i:j]
                else:
                    other = TOKEN.findall(rng.choice(corpus))
                    k = rng.randrange(len(other))
                    t[i:i] = other[k:k + rng.randrange(1, 10)]
            mutant = " ".join(t)
            total += 1
            try:
                doc = parse(mutant, allow_type_system=rng.random() < 0.1)
            except Exception:
                continue
            parsed += 1
            try:
                vs = R.validate(SCHEMA, doc)
                for name, rule in R.RULES.items():
                    assert all(v.rule == name for v in rule(SCHEMA, doc))
                assert all(isinstance(v, R.Violation) for v in vs)
            except Exception as err:  # noqa
                errors += 1
                if errors <= 10:
                    failures.append("validate() raised %r on: %s" % (err, mutant))
    return total, parsed, errors


if __name__ == "__main__":
    main()
