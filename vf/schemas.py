"""G2 (part): schema corpus shared by the schema-level checks - a base SDL covering all six type
kinds, wrappers, defaults of every input kind, descriptions, deprecations, a custom directive and
recursive types; labelled elementary edits of it; an operation corpus valid against it."""

BASE_SDL = '''
directive @tag(name: String = "x", n: Int) on FIELD_DEFINITION | OBJECT | FIELD

"""An entity"""
interface Node {
  id: ID!
}

interface Named {
  name: String
}

type User implements Node & Named {
  id: ID!
  name: String
  age: Int
  tags: [String!]
  friends(first: Int = 10, filter: Filter): [User!]!
  pet: Pet
  role: Role @deprecated(reason: "old")
  score: Float!
}

type Dog implements Named {
  name: String
  barks: Boolean
}

type Cat implements Named {
  name: String
  lives: Int
}

union Pet = Dog | Cat

enum Role {
  ADMIN
  USER @deprecated
  GUEST
}

input Filter {
  role: Role = USER
  minAge: Int
  names: [String!] = ["a"]
  nested: Filter
}

scalar Date

scalar Unused

input Point {
  x: Int
}

type Query {
  me: User
  node(id: ID!): Node
  search(text: String!, limit: Int = 5, roles: [Role!] = [ADMIN]): [Named]
  pets: [Pet!]
  date: Date
  echo(f: Filter = {minAge: 1}): String
  at(p: Point): Int
}

type Mutation {
  setName(name: String!): User
  bump(by: Int = 1): Int!
}

type Subscription {
  tick: Int
}
'''

# (label, old snippet, new snippet, element that a reported change must name)
EDITS = [
    ("remove-type", "scalar Unused\n", "", "Unused"),
    ("add-type", "scalar Date\n", "scalar Date\nscalar Time\n", "Time"),
    ("type-kind", "scalar Date\n", "enum Date { A }\n", "Date"),
    ("remove-field", "  age: Int\n", "", "age"),
    ("add-field", "  age: Int\n", "  age: Int\n  height: Int\n", "height"),
    ("retype-field-nullable-to-nonnull", "  age: Int\n", "  age: Int!\n", "age"),
    ("retype-field-nonnull-to-nullable", "  score: Float!\n", "  score: Float\n", "score"),
    ("retype-field-named", "  age: Int\n", "  age: String\n", "age"),
    ("retype-field-list-item-relaxed", "  tags: [String!]\n", "  tags: [String]\n", "tags"),
    ("retype-field-list-item-tightened", "  pets: [Pet!]\n", "  pets: [Pet!]!\n", "pets"),
    ("retype-field-list-to-named", "  tags: [String!]\n", "  tags: String\n", "tags"),
    ("remove-argument", "friends(first: Int = 10, filter: Filter)", "friends(first: Int = 10)", "filter"),
    ("add-optional-argument", "node(id: ID!): Node", "node(id: ID!, fresh: Boolean): Node", "fresh"),
    ("add-required-argument", "node(id: ID!): Node", "node(id: ID!, fresh: Boolean!): Node", "fresh"),
    ("retype-argument-nonnull-to-nullable", "node(id: ID!): Node", "node(id: ID): Node", "id"),
    ("retype-argument-nullable-to-nonnull", "search(text: String!, limit: Int = 5", "search(text: String!, limit: Int! = 5", "limit"),
    ("retype-argument-named", "setName(name: String!)", "setName(name: ID!)", "name"),
    ("retype-argument-list-item", "roles: [Role!] = [ADMIN]", "roles: [Role] = [ADMIN]", "roles"),
    ("argument-default-changed", "first: Int = 10", "first: Int = 20", "first"),
    ("argument-default-removed", "first: Int = 10", "first: Int", "first"),
    ("argument-default-added", "filter: Filter)", "filter: Filter = {})", "filter"),
    ("argument-default-null-added", "filter: Filter)", "filter: Filter = null)", "filter"),
    ("argument-default-null-to-value", "by: Int = 1", "by: Int = null", "by"),
    ("input-field-default-null-added", "  minAge: Int\n", "  minAge: Int = null\n", "minAge"),
    ("directive-argument-default-null-added", 'n: Int) on', 'n: Int = null) on', "n"),
    ("remove-input-field", "  nested: Filter\n", "", "nested"),
    ("add-optional-input-field", "  minAge: Int\n", "  minAge: Int\n  maxAge: Int\n", "maxAge"),
    ("add-required-input-field", "  x: Int\n", "  x: Int\n  y: Int!\n", "y"),
    ("retype-input-field", "  x: Int\n", "  x: String\n", "x"),
    ("retype-input-field-nullable-to-nonnull", "  x: Int\n", "  x: Int!\n", "x"),
    ("input-field-default-changed", "role: Role = USER", "role: Role = ADMIN", "role"),
    ("remove-enum-value", "  GUEST\n", "", "GUEST"),
    ("add-enum-value", "  GUEST\n", "  GUEST\n  ROOT\n", "ROOT"),
    ("deprecate-enum-value", "  GUEST\n", "  GUEST @deprecated\n", "GUEST"),
    ("undeprecate-enum-value", "  USER @deprecated\n", "  USER\n", "USER"),
    ("enum-deprecation-reason", "  USER @deprecated\n", "  USER @deprecated(reason: \"why\")\n", "USER"),
    ("remove-union-member", "union Pet = Dog | Cat", "union Pet = Dog", "Cat"),
    ("add-union-member", "union Pet = Dog | Cat", "union Pet = Dog | Cat | User", "User"),
    ("remove-interface-implementation", "type Dog implements Named {", "type Dog {", "Dog"),
    ("add-interface-implementation", "type Cat implements Named {\n  name: String", "type Cat implements Named & Node {\n  id: ID!\n  name: String", "Cat"),
    ("remove-directive", 'directive @tag(name: String = "x", n: Int) on FIELD_DEFINITION | OBJECT | FIELD\n', "", "tag"),
    ("add-directive", "directive @tag(", "directive @other on FIELD\ndirective @tag(", "other"),
    ("remove-directive-location", "on FIELD_DEFINITION | OBJECT | FIELD", "on FIELD_DEFINITION | OBJECT", "FIELD"),
    ("add-directive-location", "on FIELD_DEFINITION | OBJECT | FIELD", "on FIELD_DEFINITION | OBJECT | FIELD | QUERY", "QUERY"),
    ("remove-directive-argument", '@tag(name: String = "x", n: Int)', '@tag(name: String = "x")', "n"),
    ("add-directive-argument", '@tag(name: String = "x", n: Int)', '@tag(name: String = "x", n: Int, m: Int)', "m"),
    ("retype-directive-argument", '@tag(name: String = "x", n: Int)', '@tag(name: String = "x", n: String)', "n"),
    ("directive-argument-default", '@tag(name: String = "x"', '@tag(name: String = "y"', "name"),
    ("remove-deprecated-field", '  role: Role @deprecated(reason: "old")\n', "", "role"),
    ("deprecate-field", "  age: Int\n", "  age: Int @deprecated\n", "age"),
    ("undeprecate-field", '  role: Role @deprecated(reason: "old")\n', "  role: Role\n", "role"),
    ("field-deprecation-reason", '@deprecated(reason: "old")', '@deprecated(reason: "older")', "role"),
    ("interface-field-retyped", "interface Node {\n  id: ID!\n}", "interface Node {\n  id: ID\n}", "id"),
    ("retype-argument-to-list", "bump(by: Int = 1)", "bump(by: [Int] = [1])", "by"),
    ("retype-argument-int-to-float", "bump(by: Int = 1)", "bump(by: Float = 1)", "by"),
    ("retype-argument-string-to-id", "search(text: String!, limit: Int = 5", "search(text: ID!, limit: Int = 5", "text"),
    ("retype-field-object-to-interface", "  me: User\n", "  me: Named\n", "me"),
    # narrowing an abstract output type to one of its members: fragments on the other members stop being spreadable
    ("retype-field-union-to-member", "  pet: Pet\n", "  pet: Dog\n", "pet"),
    ("retype-field-object-to-nonnull-interface", "  setName(name: String!): User\n", "  setName(name: String!): Named!\n", "setName"),
    ("retype-field-list-of-union-to-member", "  pets: [Pet!]\n", "  pets: [Cat!]\n", "pets"),
    ("retype-field-list-of-interface-to-member", "roles: [Role!] = [ADMIN]): [Named]", "roles: [Role!] = [ADMIN]): [User]", "search"),
    # an object's own refinement of a field it inherits from an interface (the interface itself is unchanged)
    ("retype-inherited-field-tightened-on-object", "type Dog implements Named {\n  name: String\n", "type Dog implements Named {\n  name: String!\n", "name"),
    ("inherited-field-argument-added-on-object", "type Cat implements Named {\n  name: String\n", "type Cat implements Named {\n  name(upper: Boolean): String\n", "upper"),
    ("inherited-field-argument-default-on-object", "type Cat implements Named {\n  name: String\n", "type Cat implements Named {\n  name(upper: Boolean = true): String\n", "upper"),
    ("inherited-field-deprecated-on-object", "type Dog implements Named {\n  name: String\n", "type Dog implements Named {\n  name: String @deprecated\n", "name"),
    ("retype-inherited-field-on-object", "type User implements Node & Named {\n  id: ID!\n  name: String\n", "type User implements Node & Named {\n  id: ID!\n  name: String!\n", "name"),
]

# operations that are valid only against some edited schemas (used where they validate against the 'old' side of a pair)
EDIT_OPERATIONS = [
    "{ pets { ... on Cat { name(upper: true) } } }",
    "{ pets { ... on Cat { name(upper: false) lives } ... on Dog { name } } }",
    "{ node(id: \"1\", fresh: true) { id } }",
    "{ me { height maxAgeProbe: age } }",
    # valid where `me` is of an abstract type: fragments on its other members (narrowing the field to one member breaks them)
    "{ me { name ... on Dog { barks } ... on Cat { lives } } }",
    "{ node(id: \"1\") { id ... on Cat { lives } } }",
]

# operations valid against BASE_SDL; each exercises some of the elements the edits touch
OPERATIONS = [
    "{ me { id name age tags score } }",
    "{ me { friends { id } } }",
    "{ me { friends(first: 3) { name } } }",
    "{ me { friends(first: null) { name } } }",
    "{ me { friends(filter: {role: ADMIN, minAge: 3, names: [\"x\"], nested: {minAge: null}}) { id } } }",
    "{ me { friends(filter: {role: GUEST}) { id } } }",
    "{ me { friends(filter: null) { id } } }",
    "{ me { pet { ... on Dog { name barks } ... on Cat { name lives } } role } }",
    "{ me { pet { __typename } } }",
    "{ node(id: \"1\") { id ... on User { name } } }",
    "{ node(id: 1) { id } }",
    "query ($i: ID!) { node(id: $i) { id } }",
    "query ($c: Boolean = true) { node(id: \"2\") { id } me @include(if: $c) { id } }",
    "{ search(text: \"a\") { name ... on Dog { barks } ... on User { age } } }",
    "{ search(text: \"a\", limit: 2, roles: [ADMIN, GUEST]) { name } }",
    "{ search(text: \"a\", limit: null, roles: null) { name } }",
    "query ($l: Int, $r: [Role!]) { search(text: \"a\", limit: $l, roles: $r) { name } }",
    "query ($r: Role) { me { friends(filter: {role: $r}) { id } } }",
    "{ pets { ... on Dog { name } ... on Cat { lives } } date }",
    "{ echo }",
    "{ at(p: {x: 1}) }",
    "{ at(p: {}) }",
    "{ echo(f: {minAge: 2, names: []}) }",
    "query ($f: Filter) { echo(f: $f) }",
    "mutation { setName(name: \"n\") { id name } bump }",
    "mutation { bump(by: 2) }",
    "mutation ($b: Int) { bump(by: $b) }",
    "subscription { tick }",
    "{ me { name @tag(name: \"z\", n: 1) } }",
    "{ me { name @tag } }",
    "fragment F on Named { name } { me { ...F } search(text: \"x\") { ...F } }",
    "fragment U on User { id friends { ...N } } fragment N on Node { id } { me { ...U } }",
    "{ me { ... on Node { id } ... on Named { name } } }",
    "{ __schema { types { name } } __type(name: \"User\") { fields { name } } }",
    "{ pets { ... on Named { name } } }",
]


def apply_edit(sdl, old, new):
    assert sdl.count(old) >= 1, "edit anchor not found: %r" % old
    return sdl.replace(old, new, 1)
