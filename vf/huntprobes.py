"""Demonstration scripts of the defect hunt (hunt/<group>/<k>/demo.py, written by reviewers who only had the property texts and /repo) as probes.

Each script exercises the public API and exits 1 when the defect it describes shows, 0 otherwise.  The owning check runs the scripts of its
property in subprocesses against the tree under check:
  status 'fixed' : the defect was repaired by a `fix:` commit - the script must exit 0; exit 1 is a violation (`regression:<probe>`), replayable by
                   running the script;
  status 'known' : a recorded finding without a direct detector in the check - exit 1 is reported under `probe:<probe>` and matched by its entry of
                   known_findings.json; exit 0 means the finding no longer reproduces (a note).
A script that crashes in another way (exit code other than 0 / 1, timeout) is a machinery problem of the probe, reported as degraded, never as a violation.
"""
import concurrent.futures as cf
import os
import subprocess
import sys

HERE = os.path.dirname(os.path.dirname(os.path.abspath(__file__)))
REPO_SRC = os.path.join(os.environ.get("VF_REPO") or "/repo", "src")

PROBES = {
    "C01": [('I1/2', 'fixed', 'Parser.peek(n) beyond the last token looped for ever instead of raising UnexpectedEOF')],
    "C02": [('G1/2', 'fixed', 'operations written with a keyword have loc but no source; errors located on them lose their locations'),
            ('H1/3', 'fixed', 'copy.copy / deepcopy of a FragmentDefinition lost its source (missing from __slots__)')],
    "C03": [('G1/1', 'fixed', "a query printed in short form after a brace-less type-system definition is read as that definition's body"),
            ('G1/5', 'known', 'print_ast raises RecursionError on trees the parser accepted (about 200 nested selection sets / list / object values)')],
    "C04": [('G2/7', 'fixed', 'a fragment spread inside an inline fragment and next to it is collected twice'),
            ('G2/11', 'fixed', 'an Int field answers `true` for a boolean result'),
            ('G2/1', 'fixed', 'a ResolverError raised while a list value is consumed escapes the request under BlockingExecutor'),
            ('H2/9', 'fixed', 'default type resolution read __typename__ from dict roots only, not from other mappings'),
            ('H2/3', 'known', 'a field argument named root, context or info cannot be served by the default resolver (TypeError: multiple values for argument)'),
            ('I2/3', 'fixed', 'an unhashable callable (dataclass instance with __call__) as a resolver passed validate() and made every request selecting the field raise TypeError')],
    "C05": [('G3/2', 'fixed', 'an object literal at a custom scalar position makes validate_ast raise AttributeError'),
            ('H3/6', 'fixed', 'nested overlapping-field conflicts in a document parsed with no_location raised TypeError while sorting'),
            ('H3/7', 'fixed', 'UniqueVariableNamesChecker raised AttributeError on a fragment definition met before any operation'),
            ('H3/10', 'known', 'a flat, valid document with a chain of about 1000 fragments makes validate_ast, MaxDepthValidationRule and execution raise RecursionError')],
    "C06": [('G3/1', 'fixed', 'overlapping-field conflicts reached through a nested fragment are missed unless fragment names have one letter'),
            ('G3/4', 'fixed', 'list literals accepted at non-list positions'),
            ('G3/5', 'fixed', 'list literal items typed with the fully unwrapped type'),
            ('G3/6', 'fixed', 'impossible fragment spreads below a list / non-null field not reported'),
            ('H3/5', 'fixed', 'directives on variable definitions were not checked against the VARIABLE_DEFINITION location'),
            ('H3/9', 'fixed', 'x: __typename next to x: lives on another possible type was not reported: meta fields had no type in the overlapping fields rule'),
            ('I3/3', 'fixed', 'repeated directives on a variable definition were not reported')],
    "C07": [('G3/8', 'fixed', 'a huge integer for a Float variable leaks OverflowError'),
            ('H3/8', 'fixed', "a literal accepted by a custom scalar's literal parser at validation was refused at execution (value_from_ast sniffed the node kind first)"),
            ('H3/3', 'known', 'an input object field whose value is a variable that was not provided makes the whole argument invalid instead of being treated as absent'),
            ('I3/8', 'fixed', 'a refused variable value that json.dumps cannot print (Decimal, date, bytes) made coerce_variable_values raise TypeError'),
            ('I3/2', 'known', "a number written inline for a custom scalar without literal parser reaches the resolver as the token text ('42'), through a variable as 42")],
    "C08": [('G2/1', 'fixed', 'a ResolverError raised while a list value is consumed: the four configurations disagree'),
            ('G2/5', 'known', 'AsyncIORuntime classifies awaitables through a process-wide cache keyed by type: plain generators and generator-based coroutines decide for each other'),
            ('H2/2', 'fixed', 'a CoercionError raised by a resolver is a field error under BlockingExecutor but escaped the generic executor'),
            ('H2/1', 'known', 'an ExecutionError / VariablesCoercionError raised inside a resolver is answered as a request error by the two synchronous configurations and raised by the asyncio / thread pool ones'),
            ('I2/1', 'fixed', "a CoercionError raised while a field's value is completed (generator reading directive arguments lazily) escaped the request under BlockingExecutor; the generic executor fired on_field_end twice")],
    "C09": [('G2/6', 'known', 'a mutation with more than about 330 top-level fields raises RecursionError in the generic executor (one frame per field in execute_fields_serially)')],
    "C10": [('G2/3', 'fixed', 'a Float variable given a 400-digit integer: OverflowError escapes the entry points'),
            ('G2/8', 'fixed', "ResolverError('') gives an error entry without message"),
            ('G2/10', 'known', 'selections / values nested 150-300 deep raise RecursionError out of graphql_blocking (validation, parser)'),
            ('H2/6', 'fixed', 'an error whose message is not a string made str(error) / the response raise TypeError'),
            ('H2/7', 'fixed', 'extensions declared on a ResolverError subclass were dropped from the response')],
    "C11": [('G4/9', 'fixed', 'output types at input positions give RecursionError / TypeError instead of an SDL error'),
            ('H4/1', 'fixed', 'a union that is its own member / an interface implementing itself gave RecursionError instead of an SDL error'),
            ('H4/2', 'fixed', 'a default value running into an output type nested inside its input type gave TypeError instead of an SDL error'),
            ('H4/3', 'fixed', 'chains of about 1000 type definitions / 2000 densely connected types made build_schema raise RecursionError (_build_type_map used one frame per type)'),
            ('H4/11', 'known', 'extend_schema(..., schema_directives=[...]) applies the directives a second time to the elements of the base schema'),
            ('I4/5', 'fixed', 'extend_schema accepted an extension document defining a type or directive twice and kept the last'),
            ('I4/6', 'fixed', "with schema_directives given, a directive the document defines and uses without implementation class was an 'Unknown directive' SDL error")],
    "C12": [('G4/2', 'fixed', 'input-object defaults rendered by name although keyed by python_name'),
            ('G4/4', 'fixed', 'descriptions always printed as block strings'),
            ('G4/5', 'fixed', 'string defaults of custom scalars sniffed with float()'),
            ('G4/6', 'fixed', 'to_string(include_introspection=True) cannot be rebuilt'),
            ('H4/5', 'fixed', "a custom scalar string default ending in a line feed ('12\\n') was printed as a number"),
            ('H4/6', 'fixed', 'empty descriptions were not printed, so they did not survive schema -> SDL -> schema'),
            ('I4/1', 'fixed', 'a JSON-like custom scalar with a list / object default made to_string() and the introspection of defaultValue raise ValueError'),
            ('I4/7', 'known', 'a digits-only string default of a string-only custom scalar is printed as a number and cannot be rebuilt')],
    "C13": [('G4/3', 'fixed', 'type A implements B with a non-interface B'),
            ('G4/8', 'fixed', 'validate() keeps a stale verdict after schema.default_resolver = fn'),
            ('G4/12', 'fixed', "an ill-formed type name hides that type's other violations"),
            ('H4/7', 'fixed', 'an additional non-null argument WITH a default value on an implementing field was reported as a violation of the interface'),
            ('H4/9', 'fixed', 'the schema default resolver was checked against the arguments of interface fields, which are never resolved'),
            ('H4/10', 'fixed', 'a wrong return type hid the argument violations of an implementation; duplicate fields / arguments were not checked further'),
            ('H4/8', 'fixed', 'a required keyword-only resolver parameter after *args was accepted by validate() and failed the first request with TypeError; a non-callable resolver made validate() raise TypeError (second repair: 6091f6c)'),
            ('I4/3', 'fixed', "a resolver's *args / **kwargs parameter was taken for the parameter of an argument of the same name (false rejection of **args, false acceptance of *args); a leading positional parameter named like an argument accepted"),
            ('I4/4', 'fixed', 'subscription resolvers were never checked against the arguments of their field')],
    "C14": [('G4/1', 'fixed', 'clone / transform drop unreachable types'),
            ('G4/7', 'fixed', 'schema.default_resolver lost by clone / transform / extend'),
            ('G4/11', 'fixed', 'extend_schema rebuilds custom scalars as bare ScalarType'),
            ('G4/13', 'fixed', 'a transform replacing a registered resolver yields a schema that cannot be cloned again'),
            ('H5/9', 'fixed', 'extend_schema left schema.resolvers / subscriptions / default_resolvers empty'),
            ('H5/10', 'fixed', 'the argument types of an inline SchemaDirective definition were not added to schema.types'),
            ('H5/2', 'known', 'extend_schema with schema_directives wraps the resolvers of untargeted base fields a second time'),
            ('I4/2', 'fixed', "regression of repair 3b4430b: an inline SchemaDirective definition whose argument type is also given through additional_types stopped building ('Duplicate type') as soon as the document held an extension"),
            ('I5/2', 'fixed', "a resolve_type answering with the ObjectType object made every abstract field fail on cloned / transformed / extended schemas ('not a possible type')"),
            ('I5/9', 'fixed', 'clone() shared EnumValue objects, directive location lists and default value containers with the source: an in-place visitor on the clone changed the source'),
            ('I5/6', 'fixed', "_replace_types_and_directives compared Python classes: replacing a scalar by a RegexType (SCALAR schema directive), or rebuilding a subclass instance, failed as 'different kind of type'"),
            ('I1/5', 'fixed', 'functools.wraps applied without its argument in _utils.deprecated: the deprecated SchemaVisitor hooks returned their argument unchanged, without warning, after writing function attributes onto the schema element'),
            ('I5/3', 'known', 'a schema directive that re-types an argument or input field with a new scalar leaves that scalar out of schema.types'),
            ('I5/4', 'known', 'an ENUM_VALUE schema directive changing the Python value of a member leaves defaults with the old value'),
            ('I5/10', 'known', 'the resolver registry of a transformed schema keeps the entries of removed fields')],
    "C15": [('H5/3', 'fixed', 'with a schema default resolver installed the introspection fields went through it and reported nothing'),
            ('H5/6', 'known', 'string defaults of a custom scalar that look like numbers are reported as numbers when nested in a list or input object default'),
            ('I5/5', 'fixed', 'same defect seen through introspection: defaultValue of a custom scalar argument with a list / object default raised ValueError on every runtime'),
            ('I5/11', 'fixed', 'the string default of a custom scalar with a transforming serializer was reported as its internal value, which does not parse back'),
            ('I3/4', 'known', 'a directive declared `on VARIABLE_DEFINITION` makes the introspection of directive locations raise RuntimeError')],
    "C16": [('I2/5', 'fixed', 'subscribe() fired on_execution_start before its refusals and never on_execution_end when it refused the operation or the subscription resolver failed')],
    "C17": [('H2/5', 'fixed', 'a subscription source that is an async iterable but not an async iterator was refused')],
    "C18": [('G5/3', 'fixed', 'SnakeCaseToCamelCaseVisitor raises IndexError on names made of underscores'),
            ('G5/2', 'known', 'a chain member raising SkipNode leaves the members before it entered-but-never-left on that node and hides its children from them'),
            ('G5/7', 'known', 'a chain member returning None: later members are not entered on the node but still receive its leave and its children'),
            ('H1/5', 'known', 'ASTVisitor / DispatchingVisitor raise RecursionError on documents the parser accepted (about 130 nested selection sets, 200 nested list values)')],
    "C19": [('G3/9', 'fixed', 'MaxDepthValidationRule raises CoercionError when @skip / @include is steered by a variable left to its default')],
    "C20": [('G5/4', 'fixed', 'removing the default of a non-null input is only DANGEROUS'),
            ('G5/6', 'fixed', 'the order of reported changes depends on PYTHONHASHSEED'),
            ('H5/5', 'fixed', 'a type rebuilt with a subclass (custom ScalarType subclass, EnumType.from_python_enum) was reported as changed kind'),
            ('H5/4', 'known', 'default values are compared as Python values: structurally equal schemas report a changed default, and a real A -> B default edit of an enum with swapped values is missed'),
            ('I5/8', 'fixed', 'the sequence of reported changes followed the order the types were defined in')],
}
BACKEND = "hunt demonstration scripts"


def _one(probe):
    path = os.path.join(HERE, "hunt", probe, "demo.py")
    try:
        out = subprocess.run([sys.executable, path], capture_output=True, text=True, timeout=180, cwd=os.path.dirname(path),
                             env=dict(os.environ, PYTHONPATH=REPO_SRC, PYTHONHASHSEED="0"))
        return probe, out.returncode, (out.stdout + out.stderr)[-600:]
    except subprocess.TimeoutExpired:
        return probe, "timeout", ""


def run(run, pid):
    probes = PROBES.get(pid, [])
    if not probes:
        return
    with cf.ThreadPoolExecutor(min(8, len(probes))) as ex:
        results = dict((p, (rc, tail)) for p, rc, tail in ex.map(_one, [p for p, _s, _w in probes]))
    run.cov["parts"]["hunt_probes"] = {}
    for probe, status, what in probes:
        rc, tail = results[probe]
        run.cov["evaluations"] += 1
        run.cov["parts"]["hunt_probes"][probe] = {"status": status, "exit": rc}
        w = {"probe": probe, "script": "hunt/%s/demo.py" % probe, "exit": rc, "output_tail": tail[-300:]}
        if rc not in (0, 1):
            run.cov["degraded_functions"].append({"function": "probe %s" % probe, "reason": "demonstration script ended with %r" % (rc,)})
            continue
        if status == "fixed" and rc == 1:
            run.violation("regression:%s" % probe, "the repaired defect is back: %s (hunt/%s/demo.py exits 1)" % (what, probe), w, True)
        elif status == "known" and rc == 1:
            run.violation("probe:%s" % probe, "%s (hunt/%s/demo.py exits 1)" % (what, probe), w, True)
        elif status == "known" and rc == 0:
            run.notes.append("recorded finding %s does not reproduce any more (hunt/%s/demo.py exits 0)" % (probe, probe))
    run.cov["bounded_functions"].append({"functions": ["public API, through hunt/*/demo.py"], "bound": "%d demonstration scripts of the defect hunt" % len(probes)})
