"""Demonstration scripts of the defect hunt (hunt/<group>/<k>/demo.py, written by reviewers who only had the property texts and /repo) as probes.

Each script exercises the public API and exits 1 when the defect it describes shows, 0 otherwise.  The owning check runs the scripts of its
property in subprocesses against the tree under check:
  status 'fixed' : the defect was repaired by a `fix:` commit - the script must exit 0; exit 1 is a violation (`regression:<probe>`), replayable by
                   running the script;
  status 'known' : a recorded finding without a direct detector in the check - exit 1 is reported under `probe:<probe>` and matched by its entry of
                   known_findings.json; exit 0 means the finding no longer reproduces (a note).
A script that crashes in another way (exit code other than 0 / 1, timeout) is a machinery problem of the probe, reported as degraded, never as a violation.
"""
import concurrent.futures as cf
import os
import subprocess
import sys

HERE = os.path.dirname(os.path.dirname(os.path.abspath(__file__)))
REPO_SRC = os.path.join(os.environ.get("VF_REPO") or "/repo", "src")

PROBES = {
    "C02": [("G1/2", "fixed", "operations written with a keyword have loc but no source; errors located on them lose their locations")],
    "C03": [("G1/1", "fixed", "a query printed in short form after a brace-less type-system definition is read as that definition's body"),
            ("G1/5", "known", "print_ast raises RecursionError on trees the parser accepted (about 200 nested selection sets / list / object values)")],
    "C04": [("G2/7", "fixed", "a fragment spread inside an inline fragment and next to it is collected twice"),
            ("G2/11", "fixed", "an Int field answers `true` for a boolean result"),
            ("G2/1", "fixed", "a ResolverError raised while a list value is consumed escapes the request under BlockingExecutor")],
    "C05": [("G3/2", "fixed", "an object literal at a custom scalar position makes validate_ast raise AttributeError")],
    "C06": [("G3/1", "fixed", "overlapping-field conflicts reached through a nested fragment are missed unless fragment names have one letter"),
            ("G3/4", "fixed", "list literals accepted at non-list positions"),
            ("G3/5", "fixed", "list literal items typed with the fully unwrapped type"),
            ("G3/6", "fixed", "impossible fragment spreads below a list / non-null field not reported")],
    "C07": [("G3/8", "fixed", "a huge integer for a Float variable leaks OverflowError")],
    "C08": [("G2/1", "fixed", "a ResolverError raised while a list value is consumed: the four configurations disagree"),
            ("G2/5", "known", "AsyncIORuntime classifies awaitables through a process-wide cache keyed by type: plain generators and generator-based coroutines decide for each other")],
    "C09": [("G2/6", "known", "a mutation with more than about 330 top-level fields raises RecursionError in the generic executor (one frame per field in execute_fields_serially)")],
    "C10": [("G2/3", "fixed", "a Float variable given a 400-digit integer: OverflowError escapes the entry points"),
            ("G2/8", "fixed", "ResolverError('') gives an error entry without message"),
            ("G2/10", "known", "selections / values nested 150-300 deep raise RecursionError out of graphql_blocking (validation, parser)")],
    "C11": [("G4/9", "fixed", "output types at input positions give RecursionError / TypeError instead of an SDL error")],
    "C12": [("G4/2", "fixed", "input-object defaults rendered by name although keyed by python_name"),
            ("G4/4", "fixed", "descriptions always printed as block strings"),
            ("G4/5", "fixed", "string defaults of custom scalars sniffed with float()"),
            ("G4/6", "fixed", "to_string(include_introspection=True) cannot be rebuilt")],
    "C13": [("G4/3", "fixed", "type A implements B with a non-interface B"),
            ("G4/8", "fixed", "validate() keeps a stale verdict after schema.default_resolver = fn"),
            ("G4/12", "fixed", "an ill-formed type name hides that type's other violations")],
    "C14": [("G4/1", "fixed", "clone / transform drop unreachable types"),
            ("G4/7", "fixed", "schema.default_resolver lost by clone / transform / extend"),
            ("G4/11", "fixed", "extend_schema rebuilds custom scalars as bare ScalarType"),
            ("G4/13", "fixed", "a transform replacing a registered resolver yields a schema that cannot be cloned again")],
    "C18": [("G5/3", "fixed", "SnakeCaseToCamelCaseVisitor raises IndexError on names made of underscores"),
            ("G5/2", "known", "a chain member raising SkipNode leaves the members before it entered-but-never-left on that node and hides its children from them"),
            ("G5/7", "known", "a chain member returning None: later members are not entered on the node but still receive its leave and its children")],
    "C19": [("G3/9", "fixed", "MaxDepthValidationRule raises CoercionError when @skip / @include is steered by a variable left to its default")],
    "C20": [("G5/4", "fixed", "removing the default of a non-null input is only DANGEROUS"),
            ("G5/6", "fixed", "the order of reported changes depends on PYTHONHASHSEED")],
}
BACKEND = "hunt demonstration scripts"


def _one(probe):
    path = os.path.join(HERE, "hunt", probe, "demo.py")
    try:
        out = subprocess.run([sys.executable, path], capture_output=True, text=True, timeout=180, cwd=os.path.dirname(path),
                             env=dict(os.environ, PYTHONPATH=REPO_SRC, PYTHONHASHSEED="0"))
        return probe, out.returncode, (out.stdout + out.stderr)[-600:]
    except subprocess.TimeoutExpired:
        return probe, "timeout", ""


def run(run, pid):
    probes = PROBES.get(pid, [])
    if not probes:
        return
    with cf.ThreadPoolExecutor(min(8, len(probes))) as ex:
        results = dict((p, (rc, tail)) for p, rc, tail in ex.map(_one, [p for p, _s, _w in probes]))
    run.cov["parts"]["hunt_probes"] = {}
    for probe, status, what in probes:
        rc, tail = results[probe]
        run.cov["evaluations"] += 1
        run.cov["parts"]["hunt_probes"][probe] = {"status": status, "exit": rc}
        w = {"probe": probe, "script": "hunt/%s/demo.py" % probe, "exit": rc, "output_tail": tail[-300:]}
        if rc not in (0, 1):
            run.cov["degraded_functions"].append({"function": "probe %s" % probe, "reason": "demonstration script ended with %r" % (rc,)})
            continue
        if status == "fixed" and rc == 1:
            run.violation("regression:%s" % probe, "the repaired defect is back: %s (hunt/%s/demo.py exits 1)" % (what, probe), w, True)
        elif status == "known" and rc == 1:
            run.violation("probe:%s" % probe, "%s (hunt/%s/demo.py exits 1)" % (what, probe), w, True)
        elif status == "known" and rc == 0:
            run.notes.append("recorded finding %s does not reproduce any more (hunt/%s/demo.py exits 0)" % (probe, probe))
    run.cov["bounded_functions"].append({"functions": ["public API, through hunt/*/demo.py"], "bound": "%d demonstration scripts of the defect hunt" % len(probes)})
