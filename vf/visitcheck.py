"""C18 contracts on ASTVisitor / ChainedVisitor, evaluated on parser-produced documents.

trace contract   enter then leave exactly once for every non-Name node; balanced; a node's events enclose
                 its descendants' events; siblings are entered in source order
identity         a visitor that changes nothing leaves the document equal to a deep copy taken before
delete           enter() returning None for a list member removes exactly that member
replace          enter() returning another node substitutes exactly that node; the replacement's children
                 are the ones traversed; leave() is called on the replacement
skip             raising SkipNode suppresses exactly that node's descendants and its leave
chain            chained visitors enter in order and leave in reverse, and edits made by a member survive
"""
import copy

from py_gql.lang import ast as A
from py_gql.lang.visitor import ASTVisitor, ChainedVisitor, SkipNode

from .treecheck import children, strip, walk


class Recorder(ASTVisitor):
    def __init__(self, tag="", log=None):
        self.events = log if log is not None else []
        self.tag = tag

    def enter(self, node):
        self.events.append(("enter", self.tag, node))
        return node

    def leave(self, node):
        self.events.append(("leave", self.tag, node))


def non_name_nodes(doc):
    """(parent kind, slot, node) for every non-Name node below (and including) the root"""
    out = [(None, None, doc)]
    stack = [doc]
    PARENT[id(doc)] = None
    while stack:
        n = stack.pop()
        for attr, i, c in children(n):
            if not isinstance(c, A.Name):
                out.append((type(n).__name__, attr, c))
                PARENT[id(c)] = n
                stack.append(c)
    return out


PARENT = {}


def check_trace(doc):
    """returns list of (clause, witness, detail)"""
    fails = []
    rec = Recorder()
    before = copy.deepcopy(doc)
    rec.visit(doc)
    if strip(doc.to_dict()) != strip(before.to_dict()) or doc != before:
        fails.append(("visit:identity", {}, "a visitor that changes nothing changed the document"))
    entered = {}
    left = {}
    stack = []
    for pos, (kind, _t, node) in enumerate(rec.events):
        if kind == "enter":
            if id(node) in entered:
                fails.append(("visit:exactly-once", {"kind": type(node).__name__}, "%s entered twice" % type(node).__name__))
            entered[id(node)] = pos
            stack.append(node)
        else:
            if not stack or stack[-1] is not node:
                fails.append(("visit:balanced", {"kind": type(node).__name__}, "leave(%s) does not match the innermost open enter" % type(node).__name__))
                if node in stack:
                    while stack and stack.pop() is not node:
                        pass
            else:
                stack.pop()
            left[id(node)] = pos
    if stack:
        fails.append(("visit:balanced", {"kind": type(stack[-1]).__name__}, "%d nodes entered but never left" % len(stack)))
    missing = {}
    for pk, slot, node in non_name_nodes(doc):
        par = PARENT.get(id(node))
        if id(node) not in entered and (par is None or id(par) in entered):   # topmost unvisited only
            missing.setdefault((pk, slot, type(node).__name__), 0)
            missing[(pk, slot, type(node).__name__)] += 1
    for (pk, slot, kind), cnt in sorted(missing.items(), key=str):
        fails.append(("visit:every-node", {"parent": pk, "slot": slot, "kind": kind},
                      "%s nodes in %s.%s are never entered (%d in this document)" % (kind, pk, slot, cnt)))
    # nesting by span + sibling order
    for pk, slot, node in non_name_nodes(doc):
        if id(node) not in entered or id(node) not in left:
            continue
        sib_prev = None
        for attr, i, c in children(node):
            if isinstance(c, A.Name) or id(c) not in entered:
                continue
            if not (entered[id(node)] < entered[id(c)] and left.get(id(c), -1) < left[id(node)]):
                fails.append(("visit:parent-encloses-child", {"parent": type(node).__name__, "slot": attr},
                              "%s.%s is visited outside its parent's enter/leave" % (type(node).__name__, attr)))
            if c.loc and sib_prev is not None and sib_prev[1].loc and c.loc[0] > sib_prev[1].loc[0] and entered[id(c)] < entered[id(sib_prev[1])]:
                fails.append(("visit:source-order", {"parent": type(node).__name__, "slot": attr, "before": sib_prev[0]},
                              "%s.%s is entered before %s.%s although it comes later in the source" % (
                                  type(node).__name__, attr, type(node).__name__, sib_prev[0])))
            if c.loc and (sib_prev is None or (sib_prev[1].loc and c.loc[0] >= sib_prev[1].loc[0])):
                sib_prev = (attr, c)
    return fails, len(entered)


class Editor(ASTVisitor):
    """acts at the k-th entered node (pre-order of the real traversal)"""

    def __init__(self, k, action, replacement=None):
        self.k, self.action, self.count = k, action, -1
        self.also = set()
        self.replacement = replacement
        self.events = []
        self.target = None

    def enter(self, node):
        self.count += 1
        self.events.append(("enter", node))
        if self.also and id(node) in self.also:
            return None               # a second deletion in the same list (the sibling that follows the first target)
        if self.count == self.k:
            self.target = node
            if self.action == "delete":
                return None
            if self.action == "skip":
                raise SkipNode()
            if self.action == "replace":
                self.replacement = make_replacement(node)
                return self.replacement
        return node

    def leave(self, node):
        self.events.append(("leave", node))


def make_replacement(node):
    r = copy.deepcopy(node)
    # make it recognisably different where the node kind allows it (a Name child or a scalar value)
    for attr in r.__slots__:
        v = getattr(r, attr, None)
        if isinstance(v, A.Name):
            setattr(r, attr, A.Name(value=v.value + "_r"))
            return r
    if isinstance(r, (A.IntValue, A.FloatValue, A.EnumValue, A.StringValue)):
        r.value = r.value + "9"
    return r


def locate(doc, target):
    """(parent, attr, index) of `target` in `doc` by identity"""
    for path, n in walk(doc):
        for attr, i, c in children(n):
            if c is target:
                return n, attr, i
    return None


def descendants(node):
    out = []
    for _p, n in walk(node):
        if n is not node and not isinstance(n, A.Name):
            out.append(n)
    return out


def check_edits(text, parse, max_nodes=40):
    """delete / replace / skip at every entered node position of the document parsed from `text`"""
    fails = []
    doc0 = parse(text)
    rec = Recorder()
    rec.visit(doc0)
    n_enter = sum(1 for e in rec.events if e[0] == "enter")
    n = 0
    for k in range(min(n_enter, max_nodes)):
        for action in ("delete", "replace", "skip", "delete-two"):
            doc = parse(text)
            ref = parse(text)
            base = Recorder()
            base.visit(doc)                                   # unedited traversal of the very same objects: who is entered at all
            baseline = [nd for kind, _t, nd in base.events if kind == "enter"]
            ed = Editor(k, "delete" if action == "delete-two" else action)
            second = None
            if action == "delete-two":
                tgt = baseline[k] if k < len(baseline) else None
                loc_ = locate(doc, tgt) if tgt is not None else None
                if loc_ is None or loc_[2] is None or loc_[2] + 1 >= len(getattr(loc_[0], loc_[1])):
                    continue
                second = getattr(loc_[0], loc_[1])[loc_[2] + 1]
                if not any(nd is second for nd in baseline):
                    continue
                ed.also = {id(second)}
            out = ed.visit(doc)
            n += 1
            target = ed.target
            if target is None:
                continue
            if action in ("delete", "skip", "delete-two"):
                # every other node is still entered and left exactly once: nothing but the target's subtree is lost from the traversal
                gone = set(id(x) for x in descendants(target)) | ({id(x) for x in descendants(second)} if second is not None else set())
                want_enter = [nd for nd in baseline if id(nd) not in gone]
                got_enter = [nd for kind, nd in ed.events if kind == "enter"]
                not_left = gone | {id(target)} | ({id(second)} if second is not None else set())
                want_leave = sorted(id(nd) for nd in baseline if id(nd) not in not_left)
                got_leave = sorted(id(nd) for kind, nd in ed.events if kind == "leave")
                if [id(x) for x in got_enter] != [id(x) for x in want_enter] or got_leave != want_leave:
                    missing = [type(x).__name__ for x in want_enter if id(x) not in {id(y) for y in got_enter}]
                    fails.append(("visit:%s-local" % ("delete" if action != "skip" else "skip"),
                                  {"kind": type(target).__name__, "text": text, "what": "trace", "action": action},
                                  "%s of a %s changes the traversal of other nodes (not entered: %s; entered %d, expected %d; left %d, expected %d)" % (
                                      action, type(target).__name__, missing[:3], len(got_enter), len(want_enter), len(got_leave), len(want_leave))))
            if action == "delete-two":
                ref_nodes2 = [e[2] for e in Recorder_events(ref)]
                rt = ref_nodes2[k] if k < len(ref_nodes2) else None
                w2 = locate(ref, rt) if rt is not None else None
                if w2 is not None and w2[2] is not None:
                    lst = getattr(w2[0], w2[1])
                    del lst[w2[2]:w2[2] + 2]
                    if out is None or strip(doc.to_dict()) != strip(ref.to_dict()):
                        fails.append(("visit:delete-local", {"kind": type(target).__name__, "slot": w2[1], "parent": type(w2[0]).__name__, "text": text, "action": action},
                                      "deleting two adjacent members of %s.%s did not remove exactly those two" % (type(w2[0]).__name__, w2[1])))
                continue
            tk = type(target).__name__
            # the same position in the untouched reference tree
            ref_nodes = [e[2] for e in Recorder_events(ref)]
            ref_target = ref_nodes[k] if k < len(ref_nodes) else None
            where = locate(ref, ref_target) if ref_target is not None else None
            if action == "skip":
                desc = set(id(x) for x in descendants(target))
                if any(id(nd) in desc for kind, nd in ed.events):
                    fails.append(("visit:skip", {"kind": tk, "text": text}, "children of a skipped %s were still visited" % tk))
                if any(kind == "leave" and nd is target for kind, nd in ed.events):
                    fails.append(("visit:skip", {"kind": tk, "text": text}, "leave() was called for a skipped %s" % tk))
                if strip(doc.to_dict()) != strip(ref.to_dict()):
                    fails.append(("visit:skip", {"kind": tk, "text": text}, "skipping a %s changed the document" % tk))
                continue
            if where is None:
                continue          # the root itself
            parent, attr, idx = where
            if action == "delete":
                if idx is None:
                    continue      # the property speaks about list members
                getattr(parent, attr).pop(idx)
                if out is None or strip(doc.to_dict()) != strip(ref.to_dict()):
                    fails.append(("visit:delete-local", {"kind": tk, "slot": attr, "parent": type(parent).__name__, "text": text},
                                  "deleting %s.%s[%d] did not remove exactly that member" % (type(parent).__name__, attr, idx)))
                if any(kind == "leave" and nd is target for kind, nd in ed.events):
                    fails.append(("visit:delete-local", {"kind": tk, "text": text}, "leave() was called for a deleted node"))
            elif action == "replace":
                rep = make_replacement(ref_target)
                if idx is None:
                    setattr(parent, attr, rep)
                else:
                    getattr(parent, attr)[idx] = rep
                if strip(doc.to_dict()) != strip(ref.to_dict()):
                    fails.append(("visit:replace-local", {"kind": tk, "slot": attr, "parent": type(parent).__name__, "text": text},
                                  "replacing %s.%s did not substitute exactly that node" % (type(parent).__name__, attr)))
                    continue
                r = ed.replacement
                if not any(kind == "leave" and nd is r for kind, nd in ed.events):
                    fails.append(("visit:replace-local", {"kind": tk, "text": text, "what": "leave"}, "leave() was not called on the replacement %s" % tk))
                rdesc = [x for x in descendants(r)]
                seen = set(id(nd) for kind, nd in ed.events if kind == "enter")
                tdesc = set(id(x) for x in descendants(target))
                if any(id(nd) in tdesc for kind, nd in ed.events if kind == "enter"):
                    fails.append(("visit:replace-local", {"kind": tk, "text": text, "what": "children"},
                                  "children of the replaced (discarded) %s were traversed instead of the replacement's" % tk))
    return fails, n


def Recorder_events(doc):
    r = Recorder()
    r.visit(doc)
    return [e for e in r.events if e[0] == "enter"]


def check_chain(text, parse):
    fails = []
    doc = parse(text)
    log = []
    a, b, c = Recorder("a", log), Recorder("b", log), Recorder("c", log)
    ChainedVisitor(a, b, c).visit(doc)
    i = 0
    while i < len(log):
        kind, tag, node = log[i]
        grp = [x for x in log[i:i + 3]]
        if len(grp) < 3 or any(g[2] is not node or g[0] != kind for g in grp):
            fails.append(("chain:order", {"text": text}, "chained visitors are not called as one group per node event"))
            break
        tags = [g[1] for g in grp]
        want = ["a", "b", "c"] if kind == "enter" else ["c", "b", "a"]
        if tags != want:
            fails.append(("chain:order", {"text": text, "kind": kind}, "%s order %r, expected %r" % (kind, tags, want)))
            break
        i += 3
    # the members of a chain are its `visitors` attribute AT THE TIME OF THE VISIT (it is public and documented): a chain that is re-used after the attribute was
    # reassigned enters its current members in order and leaves them in reverse
    log_r = []
    chain = ChainedVisitor(Recorder("a", log_r), Recorder("b", log_r))
    chain.visit(parse(text))
    del log_r[:]
    chain.visitors = tuple(chain.visitors) + (Recorder("c", log_r),)
    chain.visit(parse(text))
    by_tag = {t: [(k, type(nd).__name__) for k, tg, nd in log_r if tg == t] for t in "abc"}
    if not (by_tag["a"] == by_tag["b"] == by_tag["c"]) or [(k, t) for k, t, _n in log_r[:3]] != [("enter", "a"), ("enter", "b"), ("enter", "c")] or \
            [(k, t) for k, t, _n in log_r[-3:]] != [("leave", "c"), ("leave", "b"), ("leave", "a")]:
        fails.append(("chain:order", {"text": text, "history": "visitors reassigned between two visits"},
                      "after `chain.visitors` was extended by a third member the members saw %s events; first / last three events: %r / %r" % (
                          {t: len(v) for t, v in by_tag.items()}, [(k, t) for k, t, _n in log_r[:3]], [(k, t) for k, t, _n in log_r[-3:]])))
    # a member raising the skip signal at a node: members before it have entered that node, nobody enters its children or leaves it - and every
    # OTHER node is still entered by all members in order and left by all in reverse (the skip is local to that node)
    base = [(kind, tag, id(node)) for kind, tag, node in log]
    entered = [node for kind, tag, node in log if kind == "enter" and tag == "a"]
    picks = sorted({0, 1, len(entered) // 2, len(entered) - 1} & set(range(len(entered))))
    for k in picks:
        target = entered[k]
        inside = {id(target)} | {id(x) for x in descendants(target)}
        for pos in (0, 1, 2):
            log2 = []

            class Skipper(Recorder):
                def enter(self, node):
                    if node is target:
                        raise SkipNode()
                    return Recorder.enter(self, node)
            members = [Recorder("a", log2), Recorder("b", log2), Recorder("c", log2)]
            members[pos] = Skipper("abc"[pos], log2)
            try:
                ChainedVisitor(*members).visit(doc)
            except Exception as e:
                fails.append(("chain:skip-is-local", {"text": text, "node": type(target).__name__, "member": pos}, "the chained traversal raised %r" % (e,)))
                continue
            got = [(kind, tag, id(node)) for kind, tag, node in log2 if id(node) not in inside]
            want = [e for e in base if e[2] not in inside]
            at_target = [(kind, tag) for kind, tag, node in log2 if node is target]
            if got != want:
                j = next((i for i, (x, y) in enumerate(zip(got, want)) if x != y), min(len(got), len(want)))
                fails.append(("chain:skip-is-local", {"text": text, "node": type(target).__name__, "member": pos, "k": k},
                              "member %d of a chain skips a %s: the enter / leave events of the OTHER nodes differ from the unskipped traversal (%d events instead of %d, "
                              "first difference at event %d)" % (pos, type(target).__name__, len(got), len(want), j)))
            elif at_target != [("enter", t) for t in "abc"[:pos]]:
                fails.append(("chain:skip-is-local", {"text": text, "node": type(target).__name__, "member": pos, "k": k},
                              "events at the skipped node are %r, expected only the enters of the members before the one that skipped" % (at_target,)))
    # an edit made by a chained member must survive
    doc = parse(text)
    ref = parse(text)
    first = Recorder_events(parse(text))
    # choose the first list member entered
    target_k = None
    probe = parse(text)
    evs = Recorder_events(probe)
    for k, e in enumerate(evs):
        w = locate(probe, e[2])
        if w is not None and w[2] is not None:
            target_k = k
            break
    if target_k is not None:
        ed = Editor(target_k, "delete")
        ChainedVisitor(Recorder("x"), ed).visit(doc)
        evs2 = Recorder_events(ref)
        w = locate(ref, evs2[target_k][2])
        getattr(w[0], w[1]).pop(w[2])
        if strip(doc.to_dict()) != strip(ref.to_dict()):
            fails.append(("chain:edit-survives", {"text": text, "action": "delete"}, "a deletion made by a chained visitor is lost"))
    return fails


def check_transforms(text, parse):
    """the document transforms shipped in py_gql.utilities.ast_transforms change what they document and nothing else (edits stay local):
    RemoveFieldAliasesVisitor clears the alias of every field; the two case-converting visitors rename every field; everything else -
    arguments, directives, sub-selections, the other definitions - is as parsed"""
    from py_gql._string_utils import camelcase_to_snakecase, snakecase_to_camelcase
    from py_gql.utilities import ast_transforms as T
    fails = []

    def edit(d, fn):
        if isinstance(d, dict):
            out = {k: edit(v, fn) for k, v in d.items()}
            if d.get("__kind__") == "Field":
                fn(out)
            return out
        if isinstance(d, list):
            return [edit(x, fn) for x in d]
        return d

    def no_alias(f):
        f["alias"] = None

    def rename(conv):
        def fn(f):
            try:
                f["name"] = dict(f["name"], value=conv(f["name"]["value"]))
            except Exception:
                pass          # the conversion itself fails on this name: the visitor's failure is what gets reported
        return fn
    for cls, fn in ((T.RemoveFieldAliasesVisitor, no_alias), (T.CamelCaseToSnakeCaseVisitor, rename(camelcase_to_snakecase)),
                    (T.SnakeCaseToCamelCaseVisitor, rename(snakecase_to_camelcase))):
        want = strip(edit(parse(text).to_dict(), fn))
        doc = parse(text)
        try:
            cls().visit(doc)
        except Exception as e:
            fails.append(("transform:edits-stay-local", {"text": text, "transform": cls.__name__}, "%s raised %r" % (cls.__name__, e)))
            continue
        got = strip(doc.to_dict())
        if got != want:
            fails.append(("transform:edits-stay-local", {"text": text, "transform": cls.__name__},
                          "%s changed more (or less) than it documents on %r" % (cls.__name__, text[:120])))
    return fails


def check_cross_kind(text, parse):
    """a replacement need not be of the kind it replaces (any selection may stand where a field stood, any value where a value stood): the replacement
    is substituted, ITS children are the ones traversed, and leave is called with it"""
    fails = []
    doc = parse(text)
    rec = Recorder()
    rec.visit(parse(text))
    kinds = [type(n).__name__ for k, _t, n in rec.events if k == "enter"]
    plans = []
    if "Field" in kinds:
        plans.append(("Field", lambda n: A.FragmentSpread(name=A.Name(value="CrossKind"), directives=[A.Directive(name=A.Name(value="d"), arguments=[])])))
        plans.append(("Field", lambda n: A.InlineFragment(type_condition=None, directives=[], selection_set=A.SelectionSet(selections=[A.Field(name=A.Name(value="inner"))]))))
    if "InlineFragment" in kinds:
        plans.append(("InlineFragment", lambda n: A.Field(name=A.Name(value="leaf"))))
    if "IntValue" in kinds:
        plans.append(("IntValue", lambda n: A.ListValue(values=[A.StringValue(value="s"), A.ObjectValue(fields=[A.ObjectField(name=A.Name(value="k"), value=A.NullValue())])])))
    for kind, make in plans:
        d = parse(text)

        class V(ASTVisitor):
            def __init__(self):
                self.done, self.events, self.rep = False, [], None

            def enter(self, node):
                if not self.done and type(node).__name__ == kind:
                    self.done, self.rep = True, make(node)
                    return self.rep
                self.events.append(("enter", node))
                return node

            def leave(self, node):
                self.events.append(("leave", node))
        v = V()
        try:
            v.visit(d)
        except Exception as e:
            fails.append(("visit:replace-other-kind", {"text": text, "replaced": kind, "by": type(v.rep).__name__ if v.rep is not None else None, "exc": type(e).__name__},
                          "replacing a %s by a %s made the traversal raise %r" % (kind, type(v.rep).__name__, e)))
            continue
        inside = [n for n in descendants(v.rep)]
        entered = {id(n) for k, n in v.events if k == "enter"}
        if any(id(n) not in entered for n in inside):
            fails.append(("visit:replace-other-kind", {"text": text, "replaced": kind, "by": type(v.rep).__name__, "exc": None},
                          "children of the replacement %s were not traversed" % type(v.rep).__name__))
        elif not any(k == "leave" and n is v.rep for k, n in v.events):
            fails.append(("visit:replace-other-kind", {"text": text, "replaced": kind, "by": type(v.rep).__name__, "exc": None}, "leave() was not called with the replacement"))
    return fails
