"""Static exception-escape obligations for the validator (C05: "validation returns its error list without raising").

Explicit part of an escape analysis over the real source of py_gql.validation (all modules, re-read on every run):
  E1  every `raise` statement raises SkipNode - the traversal's control signal - and sits in an `enter_*` method (or a function bound to
      `enter_*` names / a helper only such methods call), where the visitor's enter/leave wrapper catches it;
  E2  every call of a schema lookup that raises the library's UnknownType (`get_type_from_literal`, `get_type` without a default) is
      lexically inside a `try` whose handlers catch UnknownType (or a base class of it);
  E3  validate_ast / default_validator themselves contain no `raise`.
Implicit exceptions (attribute errors on unexpected node kinds, key errors) are outside this analysis: they are what the bounded
stand-in hunts with adversarial documents.
"""
import ast
import importlib
import inspect
import pkgutil


def modules():
    import py_gql.validation as V
    out = [V]
    for m in pkgutil.walk_packages(V.__path__, V.__name__ + "."):
        out.append(importlib.import_module(m.name))
    return out


def obligations():
    from py_gql.exc import UnknownType
    obs = []
    for mod in modules():
        try:
            tree = ast.parse(inspect.getsource(mod))
        except (OSError, TypeError):
            continue
        short = mod.__name__.replace("py_gql.validation", "validation")
        parents = {}
        for n in ast.walk(tree):
            for c in ast.iter_child_nodes(n):
                parents[c] = n

        def enclosing(n, kinds):
            while n in parents:
                n = parents[n]
                if isinstance(n, kinds):
                    return n
            return None

        def guarded(n):
            """is node n inside the body of a try whose handlers catch UnknownType?"""
            cur = n
            while cur in parents:
                p = parents[cur]
                if isinstance(p, ast.Try) and cur in p.body:
                    for h in p.handlers:
                        if h.type is None:
                            return True
                        names = h.type.elts if isinstance(h.type, ast.Tuple) else [h.type]
                        for x in names:
                            try:
                                cls = eval(compile(ast.Expression(x), "<h>", "eval"), dict(vars(mod)), {})
                            except Exception:
                                continue
                            if isinstance(cls, type) and issubclass(UnknownType, cls):
                                return True
                cur = p
            return False

        def runs_only_under_enter(fn):
            """fn is an enter_* method, is bound to enter_* names in its class, or is a helper only called by such methods of its class"""
            cls = enclosing(fn, (ast.ClassDef,))
            if fn.name.startswith("enter"):
                return True
            if cls is None:
                return False
            aliases = {t.id for st_ in cls.body if isinstance(st_, ast.Assign) and isinstance(st_.value, ast.Name) and st_.value.id == fn.name
                       for t in st_.targets if isinstance(t, ast.Name)}
            callers = set()
            for m in cls.body:
                if isinstance(m, ast.FunctionDef) and m is not fn:
                    for c in ast.walk(m):
                        if isinstance(c, ast.Call) and isinstance(c.func, ast.Attribute) and isinstance(c.func.value, ast.Name) and c.func.value.id == "self" \
                                and c.func.attr == fn.name:
                            callers.add(m)
            under = (bool(aliases) and all(a.startswith("enter") for a in aliases)) if not callers else all(
                m.name.startswith("enter") for m in callers) and all(a.startswith("enter") for a in aliases)
            return under

        for n in ast.walk(tree):
            if isinstance(n, ast.Raise):
                fn = enclosing(n, (ast.FunctionDef,))
                what = ast.unparse(n.exc) if n.exc is not None else "<re-raise>"
                ok = n.exc is not None and what.split("(")[0] == "SkipNode" and fn is not None and runs_only_under_enter(fn)
                obs.append({"id": "%s:L%d:raise" % (short, n.lineno), "holds": ok,
                            "detail": "raises %s in %s" % (what, fn.name if fn else "<module>") + ("" if ok else
                                      ": not the traversal's SkipNode signal inside an enter_* method - it escapes validate_ast")})
            if isinstance(n, ast.Call) and isinstance(n.func, ast.Attribute) and n.func.attr in ("get_type_from_literal", "get_type"):
                if n.func.attr == "get_type" and (len(n.args) > 1 or n.keywords):
                    continue              # a default is given: no UnknownType
                fn = enclosing(n, (ast.FunctionDef,))
                ok = guarded(n)
                obs.append({"id": "%s:L%d:%s-guarded" % (short, n.lineno, n.func.attr), "holds": ok,
                            "detail": "%s(...) in %s is %s" % (n.func.attr, fn.name if fn else "<module>", "inside try/except UnknownType" if ok else
                                                               "not guarded: an unknown type name in the document makes validation raise UnknownType")})
    from py_gql.validation import validate as VV
    for f in (VV.validate_ast, VV.default_validator):
        t = ast.parse(inspect.getsource(f))
        ok = not any(isinstance(n, ast.Raise) for n in ast.walk(t))
        obs.append({"id": "validation.validate:%s:no-raise" % f.__name__, "holds": ok, "detail": "%s contains %s raise statement" % (f.__name__, "no" if ok else "a")})
    return obs
