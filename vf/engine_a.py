"""Engine A orchestration for a property check: verify a list of sidecar contracts in parallel,
classify every obligation, replay counter-models on the real code, and account for it in a Run.

Classification of an obligation that is not discharged (DESIGN.md §5.1):
  * refuted contract clause (ensures / raises / call-pre / frame / assert / decreases):
      - all counter-models inside a listed known-finding region  -> KNOWN-FINDING
      - otherwise the (size-minimised) counter-model is replayed on the real function:
          clause fails on the real code                 -> VIOLATION (replayed)
          it does not, and the function's proof scaffolding (loop invariants/variants) is intact
                                                         -> VIOLATION ... no-failing-input-found
          it does not, and scaffolding of the same function also failed
                                                         -> function degraded to its bounded stand-in
  * refuted / unknown scaffolding, solver unknown, generation failure -> degraded (never a violation)
"""
import fnmatch
import multiprocessing as mp
import os
import time

import z3

from .pyvc import verify as V
from .pyvc.exec import Executor
from .pyvc.values import VArr, VData
from . import rtc

_W = {}


def _regions_for(oid, known):
    out = []
    for k in known:
        if k.get("region") and any(fnmatch.fnmatchcase(oid, p) for p in k.get("obligations", [])):
            out.append((k["id"], k["region"]))
    return out


def _verify_one(idx):
    c = _W["contracts"][idx]
    res = verify_function_ext(c, _W["registry"], _W["spec"], _W["adts"], _W["timeout"], _W["known"])
    return idx, res


def verify_function_ext(contract, registry, spec_funcs, adts, timeout_ms, known):
    """verify_function + known-region exclusion + model minimisation; returns plain data."""
    res = V.FunctionResult(contract.target)
    t0 = time.time()
    try:
        mod, owner, func = V.resolve_target(contract.target)
    except (AttributeError, ImportError) as e:
        res.generation_error = "target not found: %s" % e
        return _plain(res)
    for case_name, kinds in V._cases(contract):
        ex = Executor(registry, spec_funcs, adts)
        label = contract.qualname + ("[%s]" % case_name if case_name else "")
        ex.cur_func = contract.qualname
        ex.cur_contract = contract
        try:
            V._run_case(ex, contract, func, owner, kinds, label)
            status = "generated"
        except V.Unsupported as e:
            status = "unsupported: %s" % e
        except RecursionError:
            status = "unsupported: recursion limit in executor"
        res.cases.append({"case": label, "status": status, "paths": ex.paths, "obligations": len(ex.obligations)})
        if status != "generated":
            res.generation_error = (res.generation_error or "") + "%s: %s; " % (label, status)
            continue
        res.paths += ex.paths
        res.assumed += sorted(ex.assumed_used)
        for ob in ex.obligations:
            d = V.discharge(ob, ex, timeout_ms)
            d.pop("smt2", None)
            d["case"] = case_name
            if d["status"] == "refuted":
                _post_refute(d, ob, ex, timeout_ms, known)
            res.obligations.append(d)
    res.gen_s = time.time() - t0
    return _plain(res)


def _post_refute(d, ob, ex, timeout_ms, known):
    """known-region exclusion, then look for a small counter-model."""
    base = [*ob.pc, z3.Not(ob.goal)]
    regions = _regions_for(ob.oid, known)
    if regions and ob.extra.get("state") is not None:
        st, names = ob.extra["state"], ob.extra.get("names", {})
        excl = []
        for kid, text in regions:
            try:
                excl.append((kid, ex.spec_bool(text, st, names, old=ex.old_env)))
            except V.Unsupported:
                continue
        if excl:
            s = z3.Solver()
            s.set("timeout", timeout_ms)
            s.add(*base)
            s.add(*[z3.Not(r) for _k, r in excl])
            r = s.check()
            if r == z3.unsat:
                d["status"] = "known"
                d["known_id"] = excl[0][0]
                return
            if r == z3.sat:
                base = base + [z3.Not(r_) for _k, r_ in excl]
                d["outside_known_region"] = [k for k, _ in excl]
    texts = [v for v in ex.inputs.values() if isinstance(v, VArr)]
    for bound in (4, 8, 16, 40):
        s = z3.Solver()
        s.set("timeout", min(timeout_ms, 5000))
        s.add(*base)
        for t in texts:
            s.add(t.n <= bound)
        if not texts:
            pass
        if s.check() == z3.sat:
            d["model"] = V._model_inputs(s.model(), ex)
            d["model_bound"] = bound
            return
        if not texts:
            break


def _plain(res):
    return {"target": res.target, "obligations": res.obligations, "generation_error": res.generation_error,
            "paths": res.paths, "gen_s": res.gen_s, "assumed": res.assumed, "cases": res.cases}


def run(run, contracts, spec_funcs, adts=None, instantiate=None, jobs=16, timeout_ms=10000, all_contracts=None, skip=None):
    """Verify `contracts` (those not marked assumed); `all_contracts` supply callee contracts.
    `instantiate(contract, model_inputs) -> (func, args, kwargs)` builds a concrete call for replay.
    Returns {qualname: 'proved' | 'known' | 'degraded' | 'violated'}."""
    all_contracts = all_contracts or contracts
    registry = V.build_registry(all_contracts)
    todo = [c for c in contracts if not c.assumed]
    known = [k for k in run.known if k.get("engine", "A") == "A"]
    _W.update(contracts=todo, registry=registry, spec=spec_funcs, adts=adts or {}, timeout=timeout_ms, known=known)
    results = [None] * len(todo)
    if jobs > 1 and len(todo) > 1:
        ctx = mp.get_context("fork")
        with ctx.Pool(min(jobs, len(todo))) as pool:
            for idx, res in pool.imap_unordered(_verify_one, range(len(todo)), chunksize=1):
                results[idx] = res
    else:
        for i in range(len(todo)):
            results[i] = _verify_one(i)[1]
    _W.clear()
    verdicts = {}
    for c, res in zip(todo, results):
        if skip is not None:
            # clauses that belong to another property's reading of a shared contract
            res["obligations"] = [o for o in res["obligations"] if not skip(o["id"])]
        verdicts[c.qualname] = _account(run, c, res, spec_funcs, instantiate)
    for c in all_contracts:
        if c.assumed:
            run.assume("assumed contract of %s: %s" % (c.target, "; ".join(t for _n, t in c.ensures)) +
                       (" [%s]" % c.note if c.note else ""))
    return verdicts


def _account(run, c, res, spec_funcs, instantiate):
    cov = run.cov
    q = c.qualname
    cov["functions_under_contract"].append(q)
    if res["generation_error"]:
        cov["degraded_functions"].append({"function": q, "reason": "obligation generation failed: " + res["generation_error"][:300]})
    obs = res["obligations"]
    if not obs and not res["generation_error"]:
        raise RuntimeError("contract %s generated zero obligations (vacuous)" % q)
    scaffold_bad = [o for o in obs if o["scaffold"] and o["status"] != "discharged"]
    verdict = "degraded" if res["generation_error"] else "proved"
    for o in obs:
        cov["obligations"] += 1
        cov["solver_time_s"] += o.get("time_s", 0.0)
        cov["backends"][o["backend"]] = cov["backends"].get(o["backend"], 0) + 1
        if o["status"] == "discharged":
            cov["discharged"] += 1
            if not o.get("trivial"):
                run.sample({"obligation": o["id"], "path": o["path"][-160:], "status": "discharged", "time_s": o["time_s"]}, limit=8)
            continue
        if o["status"] == "known":
            cov["refuted_known"] += 1
            for k in run.known:
                if k["id"] == o["known_id"]:
                    run.known_hit(k)
            verdict = "known" if verdict == "proved" else verdict
            continue
        if o["status"] == "unknown" or o["scaffold"]:
            # A REFUTED invariant / variant comes with a counter-model of the loop state.  By itself that decides nothing (the state may be unreachable, or the sidecar
            # invariant may just not fit a harmless rewrite), but it says where to look: the real function is run under its full run-time contract on the model's
            # input and, for cursor-based functions, from every position of the model's text.  A clause failing on such a CONCRETE call is a replayed violation of that
            # clause; nothing found leaves the function degraded as before.
            found = None
            if o["scaffold"] and o["status"] != "unknown" and instantiate is not None and "model" in o and not any(
                    v.get("witness", {}).get("found_from_scaffolding") == q for v in run.violations):
                try:
                    found = _search_near(c, o, spec_funcs, instantiate)
                except Exception:
                    found = None
            if found is not None:
                clause_id, text, call_desc, detail = found
                reported = run.violation(clause_id, text, {"model": o.get("model"), "call": call_desc, "replay": detail, "found_from_scaffolding": q,
                                                           "refuted_scaffolding": o["id"]}, True,
                                         extra={"obligation": o["id"], "solver": o["backend"], "solver_status": "sat (invariant refuted); concrete failing call found from the counter-model"})
                if reported:
                    verdict = "violated"
            cov["undecided"].append({"obligation": o["id"], "status": o["status"], "path": o["path"][-120:],
                                     "reason": o.get("reason", "scaffolding not inductive")})
            if verdict != "violated":
                verdict = "degraded"
            continue
        # refuted contract clause
        replayed, detail = False, None
        if instantiate is not None and "model" in o:
            try:
                replayed, detail = _replay(c, o, spec_funcs, instantiate)
            except Exception as e:  # replay harness trouble must not turn into a verdict by itself
                detail = "replay harness error: %r" % (e,)
        if not replayed and scaffold_bad:
            cov["undecided"].append({"obligation": o["id"], "status": "refuted-not-replayed-with-broken-scaffolding",
                                     "path": o["path"][-120:]})
            verdict = "degraded"
            continue
        reported = run.violation(o["id"], o["text"], {"model": o.get("model"), "path": o["path"], "replay": detail,
                                                      "case": o.get("case")}, replayed,
                                 extra={"obligation": o["id"], "solver": o["backend"], "solver_status": "sat (refuted)"})
        verdict = "violated" if reported else ("known" if verdict == "proved" else verdict)
    if verdict == "degraded" and not any(d["function"] == q for d in cov["degraded_functions"]):
        cov["degraded_functions"].append({"function": q, "reason": "undischarged scaffolding / solver unknown"})
    return verdict


def _search_near(c, o, spec_funcs, instantiate):
    """concrete calls of the real function derived from a scaffolding counter-model: the model's own input, then the same text from every cursor position.
    -> (clause id, clause text, call description, detail) of the first call on which a clause of the run-time contract fails, else None"""
    mod, owner, func = V.resolve_target(c.target)
    model = dict(o["model"])
    variants = [model]
    src = model.get("self._source")
    if isinstance(src, str) and "self._position" in model:
        # ... and the model's text continued by a few characters (a loop that runs too far shows only if something follows)
        for text in [src] + [src + tail for tail in ("a", " a", "\na", "1", '"', "\\", "#a")]:
            variants += [dict(model, **{"self._source": text, "self._len": len(text), "self._position": k}) for k in range(0, min(len(text), 64) + 1)]
    for m in variants:
        call = instantiate(c, m, o.get("case"))
        if call is None:
            continue
        args, kwargs = call
        ck = rtc.Checker(c, spec_funcs, func)
        try:
            outcome, fails = ck.call(func, args, kwargs)
        except Exception:
            continue
        if outcome is None or not fails:
            continue
        f = fails[0]
        desc = {k: (v if isinstance(v, (int, str, bool, float, type(None))) else repr(v)) for k, v in m.items() if k.startswith("self.") or not k.startswith("_")}
        return f.clause_id, f.text, desc, {"outcome": (outcome[0], repr(outcome[1])[:200]), "failed_clauses": [x.clause_id for x in fails]}
    return None


def _replay(c, o, spec_funcs, instantiate):
    mod, owner, func = V.resolve_target(c.target)
    call = instantiate(c, o["model"], o.get("case"))
    if call is None:
        return False, "no instantiation for this contract"
    args, kwargs = call
    ck = rtc.Checker(c, spec_funcs, func)
    outcome, fails = ck.call(func, args, kwargs)
    if outcome is None:
        return False, "model does not satisfy the precondition concretely: %s" % fails[0].text
    ids = [f.clause_id for f in fails]
    desc = {"outcome": (outcome[0], repr(outcome[1])[:200]), "failed_clauses": ids}
    want = o["id"].split("[")[0] if "[" in o["id"].split(":")[0] else o["id"]
    base = "%s:%s:%s" % (c.qualname, o["kind"], o["clause"])
    return (base in ids), desc


def generic_instantiate(converters=None):
    """instantiate(contract, model, case) for plain functions: positional args by parameter name."""
    import inspect
    converters = converters or {}

    def inst(contract, model, case=None):
        if "self._source" in model:
            from .frontend import lexer_instantiate
            return lexer_instantiate(contract, model, case)
        mod, owner, func = V.resolve_target(contract.target)
        args = []
        for p in inspect.signature(func).parameters.values():
            if p.name not in model:
                if p.default is not p.empty:
                    continue
                return None
            v = model[p.name]
            conv = converters.get(p.name) or converters.get("*")
            args.append(conv(v) if conv else v)
        return args, {}
    return inst
